package main

import "go/ast"

// hbrw adds memory-access tracking for the happens-before monitor (C19).
type hbrw struct{ r *rw }

func newHB(r *rw) *hbrw { return &hbrw{r: r} }

func (h *hbrw) file(f *ast.File) { fatal("-hb not implemented yet") }
