package main

import (
	"fmt"
	"os"
	"path/filepath"
	"strings"

	"harness/wire"
)

func c06UfsDirScenarios(tier string) []Scenario {
	var out []Scenario
	for _, dotu := range []bool{false, true} {
		for _, primed := range []bool{true, false} {
			dotu, primed := dotu, primed
			out = append(out, Scenario{Name: fmt.Sprintf("ufs-dir-reads dotu=%v primed=%v", dotu, primed), Run: func(rc *RunCtx) *Result {
				res := &Result{Exhaustive: true}
				base, root := scratchDir("c06d")
				defer os.RemoveAll(base)
				makeStdTree(root)
				os.MkdirAll(filepath.Join(root, "many"), 0o755)
				for i, n := range []string{"a", "bb", strings.Repeat("c", 17), "dddd"} {
					os.WriteFile(filepath.Join(root, "many", n), []byte(strings.Repeat("x", i)), 0o644)
				}
				c := c06Cfg{Backend: "ufs", Msize: 1024, Dotu: dotu}
				setup := []mevent{{Op: "attach", Fid: 0, Afid: wire.NOFID, Uid: 0, Uname: "root"}, {Op: "walk", Fid: 0, Newfid: 1, Names: []string{"many"}}, {Op: "open", Fid: 1, Mode: 0}}
				total := 4 * 70 // upper bound of the listing size
				entry := 60
				seen := map[string]bool{}
				for off := 0; off <= total+2; off++ {
					for _, cnt := range []uint32{0, 1, uint32(entry - 1), uint32(entry), uint32(entry + 1), 1000} {
						if rc.Expired() {
							res.Exhaustive = false
							res.CapHit = "internal deadline"
							return res
						}
						var hostile [][]byte
						if primed {
							hostile = append(hostile, wire.Encode(&wire.Msg{Type: wire.Tread, Tag: 50, Fid: 1, Offset: 0, Count: 1000}, dotu))
						}
						hostile = append(hostile, wire.Encode(&wire.Msg{Type: wire.Tread, Tag: 51, Fid: 1, Offset: uint64(off), Count: cnt}, dotu))
						bad, sig := c06Run(c, root, setup, hostile)
						res.Evals++
						res.Nontrivial++
						if bad != "" && !seen[sig] {
							seen[sig] = true
							res.Findings = append(res.Findings, Finding{Sig: sig, Msg: fmt.Sprintf("%s\ndirectory Tread offset=%d count=%d (after a read at offset 0: %v)", bad, off, cnt, primed), Detail: map[string]any{"offset": off, "count": cnt, "primed": primed}})
						}
					}
				}
				res.Samples = append(res.Samples, "Ufs directory of 4 entries: Tread at every offset 0..282 x counts {0,1,59,60,61,1000}, with and without a preceding read at offset 0")
				return res
			}})
		}
	}
	return out
}

// msize renegotiated in the middle of a session, after a burst of pipelined
// requests has populated the pool of reply buffers, followed by large reads and writes
func c06RenegotiateScenarios(tier string) []Scenario {
	var out []Scenario
	for _, be := range []string{"ufs", "script"} {
		for _, dotu := range []bool{false, true} {
			be, dotu := be, dotu
			out = append(out, Scenario{Name: fmt.Sprintf("renegotiate backend=%s dotu=%v", be, dotu), Run: func(rc *RunCtx) *Result {
				res := &Result{Exhaustive: true}
				base, root := "", ""
				if be == "ufs" {
					base, root = scratchDir("c06r")
					defer os.RemoveAll(base)
					makeStdTree(root)
				}
				seen := map[string]bool{}
				for _, ms1 := range []uint32{64, 256, 1024} {
					for _, burst := range []int{0, 4, 24, 70} {
						for _, ms2 := range []uint32{ms1 / 2, ms1, 4 * ms1, 8216} {
							if ms2 < 48 || rc.Expired() {
								continue
							}
							var hostile [][]byte
							var b []byte
							for i := 0; i < burst; i++ {
								b = append(b, wire.Encode(&wire.Msg{Type: wire.Tclunk, Tag: uint16(100 + i), Fid: uint32(500 + i)}, dotu)...)
							}
							if len(b) > 0 {
								hostile = append(hostile, b)
							}
							ver := "9P2000"
							if dotu {
								ver = "9P2000.u"
							}
							hostile = append(hostile, wire.Encode(&wire.Msg{Type: wire.Tversion, Tag: wire.NOTAG, Msize: ms2, Version: ver}, false))
							for _, cnt := range []uint32{1, ms1 - 24, ms1, ms2 - 24, 4096} {
								for _, fid := range []uint32{1, 0} {
									m := &wire.Msg{Type: wire.Tread, Tag: 60, Fid: fid, Offset: 0, Count: cnt}
									if uint32(len(wire.Encode(m, dotu))) <= ms2 {
										hostile = append(hostile, wire.Encode(m, dotu))
									}
								}
							}
							hostile = append(hostile, wire.Encode(&wire.Msg{Type: wire.Tstat, Tag: 61, Fid: 0}, dotu))
							c := c06Cfg{Backend: be, Msize: 8216, Dotu: dotu}
							setup := []mevent{{Op: "attach", Fid: 0, Afid: wire.NOFID, Uid: 0, Uname: "root"}, {Op: "walk", Fid: 0, Newfid: 1, Names: []string{"d"}}, {Op: "open", Fid: 1, Mode: 0}}
							// the session first negotiates ms1: c06Run negotiates c.Msize, so send Tversion(ms1) as the first hostile frame
							first := wire.Encode(&wire.Msg{Type: wire.Tversion, Tag: wire.NOTAG, Msize: ms1, Version: ver}, false)
							bad, sig := c06Run(c, root, setup, append([][]byte{first}, hostile...))
							res.Evals++
							res.Nontrivial++
							if bad != "" && !seen[sig] {
								seen[sig] = true
								res.Findings = append(res.Findings, Finding{Sig: sig, Msg: fmt.Sprintf("%s\nsession: attach, open a directory, Tversion(msize %d), %d pipelined requests, Tversion(msize %d), reads with counts 1, %d, %d, %d, 4096", bad, ms1, burst, ms2, ms1-24, ms1, ms2-24)})
							}
						}
					}
				}
				res.Samples = append(res.Samples, "Tversion(ms1) ; burst of 0/4/24/70 pipelined requests ; Tversion(ms2 in ms1/2, ms1, 4*ms1, 8216) ; Treads with counts around both limits on a directory and on the root ; liveness probes")
				return res
			}})
		}
	}
	return out
}

// a client may disconnect with requests in flight: the server must not touch a Go
// map from two goroutines without synchronisation (the runtime aborts the process)
func c06MapMonitorScenarios(tier string) []Scenario {
	var out []Scenario
	D := 1
	if tier == "thorough" {
		D = 2
	}
	i := 0
	for _, parked := range [][]string{{"clunk"}, {"remove"}, {"walk"}, {"stat"}, {"clunk", "read"}} {
		for _, cl := range []string{"boundary", "afterwrite"} {
			i++
			idx := make([]int, len(parked))
			for k := range idx {
				idx[k] = k
			}
			out = append(out, vsScenario(c11Spec(c11Params{Prefix: 5, Parked: parked, Release: idx, Close: cl, Maxpend: i % 3, Dotu: i%2 == 0, P: D}, true)))
		}
	}
	return out
}
