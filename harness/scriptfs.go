package main

import (
	"syscall"
	"errors"
	"crypto/sha1"
	"fmt"
	"sort"
	"strings"

	"github.com/rminnich/go9p"
	"github.com/rminnich/go9p/vs"
	vsync "github.com/rminnich/go9p/vs/vsync"
)

// ScriptFS is the scripted file-server implementation: a fixed synthetic tree
// (/ ⊃ d/ ⊃ h ; f ; g), an invocation log, and per-request scripts addressed
// by (connection index, tag, occurrence of that tag on the connection).

type node struct {
	name     string
	dir      bool
	path     uint64
	parent   *node
	children map[string]*node
	removed  bool
	qtype    uint8 // further qid type bits (append-only, exclusive, temporary, mounted), as the perm of its create said
}

func (n *node) qid() go9p.Qid {
	q := go9p.Qid{Path: n.path, Version: 0, Type: n.qtype}
	if n.dir {
		q.Type |= go9p.QTDIR
	}
	return q
}

func (n *node) full() string {
	if n.parent == nil {
		return "/"
	}
	p := n.parent.full()
	if p == "/" {
		return "/" + n.name
	}
	return p + "/" + n.name
}

type fidAux struct {
	token int
	node  *node
	auth  bool
	destroyGate *vs.Sem
}

// Entry is one line of the invocation log.
type Entry struct {
	Seq   int64  `json:"seq"`
	Kind  string `json:"kind"` // "call", "resume", "resp", "destroy", "connopen", "connclose", "flush", "authcheck", ...
	Op    string `json:"op,omitempty"`
	Conn  int    `json:"conn"`
	Tag   uint16 `json:"tag"`
	Occ   int    `json:"occ"`
	Fid   uint32 `json:"fid"`
	Token int    `json:"token"`
	User  string `json:"user,omitempty"`
	Args  string `json:"args,omitempty"`
	Reply string `json:"reply,omitempty"` // for "resp": a rendering of what was answered
}

// Action scripts one request.
type Action struct {
	Gate    *vs.Sem // park here before answering
	DestroyGate *vs.Sem // Clunk/Remove: answer at once, then park in the FidDestroy of the request's fid
	Err     string  // answer with this error
	Twice   bool    // answer a second time (with different content)
	Silent  bool    // do not answer at all (saved request)
	saved   *go9p.SrvReq
	Partial int // Walk: answer only this many qids (when >0)
	StatName string // Stat: name to report (long names make large Rstat replies)
	ReadFull bool   // Read: return exactly count bytes
	Direct  bool // Read: build the reply in req.Rc with InitRread/SetRreadCount and call Respond (as Ufs does)
	Release *vs.Sem // when this request reaches the implementation it lets another (parked) one go: a queue file, a pipe
}

type reqKey struct {
	conn int
	tag  uint16
	occ  int
}

type FS struct {
	root     *node
	nextPath uint64
	Log      []Entry
	Script   map[reqKey]*Action
	tagOcc   map[[2]int]int
	conns    map[*go9p.Conn]int
	nconn    int
	ntoken   int
	occOf    map[*go9p.SrvReq]int
	// FlushMode: "none" (no FlushOp behaviour: ignore), "cancel" (call req.Flush()), "ignore"
	FlushMode string
	// auth behaviour
	AuthCheckErr map[uint32]string // by fid number of the attach: error text ("" = accept)
	AuthInitErr  string
	TeardownIn   string  // "ConnClosed" or "FidDestroy"
	TeardownGate *vs.Sem // the next ConnClosed or FidDestroy call made for a disconnecting connection parks here (a slow clean-up in the implementation)
	CancelAuthIO bool    // FlushOp cancels reads / writes on authentication fids too
	AuthReadGate *vs.Sem // the next AuthRead call parks here (an authentication protocol waiting for the other side)
	Iounit       uint32 // what Open and Create advertise as the iounit (an implementation may name its own block size, whatever the connection negotiated)
	ErrKind      string // what kind of error value the auth callbacks return: "" (*go9p.Error), "plain" (errors.New), "errno" (syscall.Errno), "wrapped" (fmt.Errorf with %w)
	ErrAll       map[string]string // op name -> error (implementation failure injection)
	destroyed    map[int]int       // token -> times destroyed
	cancelled    map[*go9p.SrvReq]bool // requests this implementation cancelled through FlushOp
	mu           vsync.Mutex           // orders a worker's decision to answer against the Flush handler's decision to cancel
	answering    map[*go9p.SrvReq]bool
	NoLateAnswer bool                  // a worker whose request this implementation cancelled returns without answering
	tokenConn    map[int]int           // identity token of every fid shown to the implementation -> connection
	Saved        []*go9p.SrvReq
}

func NewFS() *FS {
	fs := &FS{Script: map[reqKey]*Action{}, tagOcc: map[[2]int]int{}, conns: map[*go9p.Conn]int{}, occOf: map[*go9p.SrvReq]int{}, destroyed: map[int]int{}, cancelled: map[*go9p.SrvReq]bool{}, answering: map[*go9p.SrvReq]bool{}, tokenConn: map[int]int{}, ErrAll: map[string]string{}, AuthCheckErr: map[uint32]string{}}
	fs.root = &node{name: "/", dir: true, path: 1, children: map[string]*node{}}
	fs.nextPath = 2
	d := fs.add(fs.root, "d", true)
	fs.add(d, "h", false)
	fs.add(fs.root, "f", false)
	fs.add(fs.root, "g", false)
	return fs
}

func (fs *FS) add(p *node, name string, dir bool) *node {
	n := &node{name: name, dir: dir, path: fs.nextPath, parent: p}
	fs.nextPath++
	if dir {
		n.children = map[string]*node{}
	}
	p.children[name] = n
	return n
}

func (fs *FS) connIdx(c *go9p.Conn) int {
	if i, ok := fs.conns[c]; ok {
		return i
	}
	fs.conns[c] = fs.nconn
	fs.nconn++
	return fs.conns[c]
}

func userName(u go9p.User) string {
	if u == nil {
		return "<nil>"
	}
	return fmt.Sprintf("%s/%d", u.Name(), u.Id())
}

func auxOf(f *go9p.SrvFid) *fidAux {
	if f == nil || f.Aux == nil {
		return nil
	}
	a, _ := f.Aux.(*fidAux)
	return a
}

func (fs *FS) show(f *go9p.SrvFid, n *node) *fidAux {
	if a := auxOf(f); a != nil {
		return a
	}
	fs.ntoken++
	a := &fidAux{token: fs.ntoken, node: n}
	f.Aux = a
	if f.Fconn != nil {
		fs.tokenConn[a.token] = fs.connIdx(f.Fconn)
	}
	return a
}

// enter logs the call and returns the action scripted for it.
func (fs *FS) enter(req *go9p.SrvReq, op string, fid *go9p.SrvFid, args string) (*Action, int) {
	ci := fs.connIdx(req.Conn)
	tag := req.Tc.Tag
	if fs.NoLateAnswer {
		fs.mu.Lock() // the implementation's own table of requests is what its Flush handler consults
	}
	occ, seen := fs.occOf[req]
	if !seen {
		k := [2]int{ci, int(tag)}
		occ = fs.tagOcc[k]
		fs.tagOcc[k] = occ + 1
		fs.occOf[req] = occ
	}
	if fs.NoLateAnswer {
		fs.mu.Unlock()
	}
	e := Entry{Seq: vs.Seq(), Kind: "call", Op: op, Conn: ci, Tag: tag, Occ: occ, Args: args}
	if fid != nil {
		e.Fid = fidNo(req, op)
		if a := auxOf(fid); a != nil {
			e.Token = a.token
		}
		e.User = userName(fid.User)
	}
	fs.Log = append(fs.Log, e)
	a := fs.Script[reqKey{ci, tag, occ}]
	if a == nil {
		a = &Action{}
	}
	if a.Release != nil {
		a.Release.Release()
	}
	if a.Gate != nil {
		a.Gate.Acquire()
		fs.Log = append(fs.Log, Entry{Seq: vs.Seq(), Kind: "resume", Op: op, Conn: ci, Tag: tag, Occ: occ})
		if fs.NoLateAnswer {
			// a well-behaved implementation: either the worker answers or the Flush handler cancels, never both
			fs.mu.Lock()
			if fs.cancelled[req] {
				a = &Action{Silent: true}
			} else {
				fs.answering[req] = true
			}
			fs.mu.Unlock()
		}
	}
	return a, len(fs.Log) - 1
}

func fidNo(req *go9p.SrvReq, op string) uint32 {
	switch op {
	case "AuthInit":
		return req.Tc.Afid
	}
	return req.Tc.Fid
}

func (fs *FS) resp(req *go9p.SrvReq, reply string) {
	ci := fs.connIdx(req.Conn)
	fs.Log = append(fs.Log, Entry{Seq: vs.Seq(), Kind: "resp", Conn: ci, Tag: req.Tc.Tag, Occ: fs.occOf[req], Reply: reply})
}

func (fs *FS) errOf(a *Action, op string) string {
	if a.Err != "" {
		return a.Err
	}
	return fs.ErrAll[op]
}

func (fs *FS) fail(req *go9p.SrvReq, msg string) {
	fs.resp(req, "Rerror "+msg)
	req.RespondError(&go9p.Error{Err: msg, Errornum: 5})
}

// --- SrvReqOps ---------------------------------------------------------------

func (fs *FS) Attach(req *go9p.SrvReq) {
	afid := "nil"
	if req.Afid != nil {
		afid = fmt.Sprint(req.Tc.Afid)
	}
	fs.show(req.Fid, fs.root)
	a, _ := fs.enter(req, "Attach", req.Fid, fmt.Sprintf("afid=%s uname=%q aname=%q", afid, req.Tc.Uname, req.Tc.Aname))
	if a.Silent {
		fs.Saved = append(fs.Saved, req)
		return
	}
	if m := fs.errOf(a, "Attach"); m != "" {
		fs.fail(req, m)
		return
	}
	q := fs.root.qid()
	fs.resp(req, fmt.Sprintf("Rattach %v", q))
	req.RespondRattach(&q)
	if a.Twice {
		fs.fail(req, "second answer")
	}
}

func (fs *FS) Walk(req *go9p.SrvReq) {
	src := auxOf(req.Fid)
	// like Ufs, give a new fid its per-fid data before doing anything else
	var nf *fidAux
	if req.Newfid != req.Fid && req.Newfid.Aux == nil {
		fs.ntoken++
		nf = &fidAux{token: fs.ntoken}
		req.Newfid.Aux = nf
		fs.tokenConn[fs.ntoken] = fs.connIdx(req.Conn)
	}
	a, _ := fs.enter(req, "Walk", req.Fid, fmt.Sprintf("newfid=%d names=%v", req.Tc.Newfid, req.Tc.Wname))
	if a.Silent {
		fs.Saved = append(fs.Saved, req)
		return
	}
	if m := fs.errOf(a, "Walk"); m != "" {
		fs.fail(req, m)
		return
	}
	if src == nil || src.node == nil {
		fs.fail(req, "not an ordinary file (implementation)")
		return
	}
	n := src.node
	var qids []go9p.Qid
	for i, name := range req.Tc.Wname {
		var nx *node
		switch {
		case name == "..":
			nx = n.parent
			if nx == nil {
				nx = n
			}
		case n.dir:
			nx = n.children[name]
		}
		if nx == nil {
			if i == 0 {
				fs.fail(req, "file not found")
				return
			}
			break
		}
		n = nx
		qids = append(qids, n.qid())
		if a.Partial > 0 && len(qids) == a.Partial {
			break
		}
	}
	if fs.cancelled[req] {
		// cancelled while parked: the framework has taken the fids back; only the
		// (late, to be ignored) answer remains
		fs.resp(req, fmt.Sprintf("Rwalk %v", qids))
		req.RespondRwalk(qids)
		return
	}
	if len(qids) == len(req.Tc.Wname) {
		if req.Newfid == req.Fid {
			src.node = n
		} else {
			nf.node = n
		}
	}
	fs.resp(req, fmt.Sprintf("Rwalk %v", qids))
	req.RespondRwalk(qids)
	if a.Twice {
		fs.fail(req, "second answer")
	}
}

func (fs *FS) Open(req *go9p.SrvReq) {
	x := auxOf(req.Fid)
	a, _ := fs.enter(req, "Open", req.Fid, fmt.Sprintf("mode=%d", req.Tc.Mode))
	if a.Silent {
		fs.Saved = append(fs.Saved, req)
		return
	}
	if m := fs.errOf(a, "Open"); m != "" {
		fs.fail(req, m)
		return
	}
	if x == nil || x.node == nil {
		fs.fail(req, "not an ordinary file (implementation)")
		return
	}
	q := x.node.qid()
	fs.resp(req, fmt.Sprintf("Ropen %v", q))
	req.RespondRopen(&q, fs.Iounit)
	if a.Twice {
		fs.fail(req, "second answer")
	}
}

func (fs *FS) Create(req *go9p.SrvReq) {
	x := auxOf(req.Fid)
	a, _ := fs.enter(req, "Create", req.Fid, fmt.Sprintf("name=%q perm=%#x mode=%d ext=%q", req.Tc.Name, req.Tc.Perm, req.Tc.Mode, req.Tc.Ext))
	if a.Silent {
		fs.Saved = append(fs.Saved, req)
		return
	}
	if m := fs.errOf(a, "Create"); m != "" {
		fs.fail(req, m)
		return
	}
	if x == nil || x.node == nil {
		fs.fail(req, "not an ordinary file (implementation)")
		return
	}
	if !x.node.dir {
		fs.fail(req, "not a directory (implementation)")
		return
	}
	if _, dup := x.node.children[req.Tc.Name]; dup {
		fs.fail(req, "exists")
		return
	}
	n := fs.add(x.node, req.Tc.Name, req.Tc.Perm&go9p.DMDIR != 0 || req.Tc.Name == "asdir") // (an implementation decides what it makes: under this name always a directory)
	// the qid type is the top byte of the mode (the authentication bit is the framework's business)
	n.qtype = uint8(req.Tc.Perm>>24) & (go9p.QTAPPEND | go9p.QTEXCL | go9p.QTMOUNT | go9p.QTTMP)
	x.node = n
	q := n.qid()
	fs.resp(req, fmt.Sprintf("Rcreate %v", q))
	req.RespondRcreate(&q, fs.Iounit)
	if a.Twice {
		fs.fail(req, "second answer")
	}
}

// readData is the payload of a read: a function of the request, so that a reply
// can be matched to exactly one request.
func readData(tag uint16, fid uint32, off uint64, count uint32) []byte {
	n := int(count)
	if n > 48 {
		n = 48
	}
	b := make([]byte, n)
	for i := range b {
		b[i] = byte(int(tag)*7 + int(fid)*13 + int(off) + i*3 + 1)
	}
	return b
}

func (fs *FS) Read(req *go9p.SrvReq) {
	a, _ := fs.enter(req, "Read", req.Fid, fmt.Sprintf("off=%d count=%d", req.Tc.Offset, req.Tc.Count))
	if a.Silent {
		fs.Saved = append(fs.Saved, req)
		return
	}
	if m := fs.errOf(a, "Read"); m != "" {
		fs.fail(req, m)
		return
	}
	d := readData(req.Tc.Tag, req.Tc.Fid, req.Tc.Offset, req.Tc.Count)
	if a.ReadFull {
		d = make([]byte, req.Tc.Count)
		for i := range d {
			d[i] = byte(i*7 + int(req.Tc.Tag))
		}
	}
	fs.resp(req, fmt.Sprintf("Rread %x", d))
	if a.Direct {
		rc := req.Rc
		if err := go9p.InitRread(rc, req.Tc.Count); err != nil {
			req.RespondError(err)
			return
		}
		n := copy(rc.Data, d)
		go9p.SetRreadCount(rc, uint32(n))
		req.Respond()
		return
	}
	req.RespondRread(d)
	if a.Twice {
		fs.fail(req, "second answer")
	}
}

func hashBytes(b []byte) string {
	h := sha1.Sum(b)
	return fmt.Sprintf("%d:%x", len(b), h[:6])
}

func (fs *FS) Write(req *go9p.SrvReq) {
	a, _ := fs.enter(req, "Write", req.Fid, fmt.Sprintf("off=%d count=%d", req.Tc.Offset, req.Tc.Count))
	// the payload is hashed when it is used, i.e. after a possible gate
	fs.Log = append(fs.Log, Entry{Seq: vs.Seq(), Kind: "data", Op: "Write", Conn: fs.connIdx(req.Conn), Tag: req.Tc.Tag, Occ: fs.occOf[req], Args: hashBytes(req.Tc.Data)})
	if a.Silent {
		fs.Saved = append(fs.Saved, req)
		return
	}
	if m := fs.errOf(a, "Write"); m != "" {
		fs.fail(req, m)
		return
	}
	fs.resp(req, fmt.Sprintf("Rwrite %d", len(req.Tc.Data)))
	req.RespondRwrite(uint32(len(req.Tc.Data)))
	if a.Twice {
		fs.fail(req, "second answer")
	}
}

func (fs *FS) Clunk(req *go9p.SrvReq) {
	a, _ := fs.enter(req, "Clunk", req.Fid, "")
	if a.DestroyGate != nil {
		fs.show(req.Fid, nil).destroyGate = a.DestroyGate
	}
	if a.Silent {
		fs.Saved = append(fs.Saved, req)
		return
	}
	if m := fs.errOf(a, "Clunk"); m != "" {
		fs.fail(req, m)
		return
	}
	fs.resp(req, "Rclunk")
	req.RespondRclunk()
	if a.Twice {
		fs.fail(req, "second answer")
	}
}

func (fs *FS) Remove(req *go9p.SrvReq) {
	x := auxOf(req.Fid)
	a, _ := fs.enter(req, "Remove", req.Fid, "")
	if a.DestroyGate != nil {
		fs.show(req.Fid, nil).destroyGate = a.DestroyGate
	}
	if a.Silent {
		fs.Saved = append(fs.Saved, req)
		return
	}
	if m := fs.errOf(a, "Remove"); m != "" {
		fs.fail(req, m)
		return
	}
	if x == nil || x.node == nil {
		fs.fail(req, "not an ordinary file (implementation)")
		return
	}
	if x.node.parent != nil {
		delete(x.node.parent.children, x.node.name)
		x.node.removed = true
	}
	fs.resp(req, "Rremove")
	req.RespondRremove()
	if a.Twice {
		fs.fail(req, "second answer")
	}
}

func (fs *FS) dirOf(n *node, tag uint16, dotu bool) *go9p.Dir {
	d := &go9p.Dir{Qid: n.qid(), Mode: 0644, Length: n.path * 10, Name: n.name, Uid: "u", Gid: "g", Muid: fmt.Sprintf("t%d", tag)}
	if n.dir {
		d.Mode |= go9p.DMDIR
	}
	if dotu {
		d.Uidnum, d.Gidnum, d.Muidnum = 1, 2, 3
	}
	return d
}

func (fs *FS) Stat(req *go9p.SrvReq) {
	x := auxOf(req.Fid)
	a, _ := fs.enter(req, "Stat", req.Fid, "")
	if a.Silent {
		fs.Saved = append(fs.Saved, req)
		return
	}
	if m := fs.errOf(a, "Stat"); m != "" {
		fs.fail(req, m)
		return
	}
	if x.node == nil { // an auth fid used as an ordinary one
		x = &fidAux{node: &node{name: "auth", path: 999}}
	}
	d := fs.dirOf(x.node, req.Tc.Tag, req.Conn.Dotu)
	if a.StatName != "" {
		d.Name = a.StatName
	}
	fs.resp(req, fmt.Sprintf("Rstat %s muid=%s", d.Name, d.Muid))
	req.RespondRstat(d)
	if a.Twice {
		fs.fail(req, "second answer")
	}
}

func (fs *FS) Wstat(req *go9p.SrvReq) {
	a, _ := fs.enter(req, "Wstat", req.Fid, fmt.Sprintf("name=%q mode=%#x len=%d", req.Tc.Dir.Name, req.Tc.Dir.Mode, req.Tc.Dir.Length))
	if a.Silent {
		fs.Saved = append(fs.Saved, req)
		return
	}
	if m := fs.errOf(a, "Wstat"); m != "" {
		fs.fail(req, m)
		return
	}
	fs.resp(req, "Rwstat")
	req.RespondRwstat()
	if a.Twice {
		fs.fail(req, "second answer")
	}
}

// --- SrvFidOps / ConnOps --------------------------------------------------------

func (fs *FS) FidDestroy(f *go9p.SrvFid) {
	tok := 0
	if a := auxOf(f); a != nil {
		tok = a.token
	}
	ci := -1
	if f.Fconn != nil {
		ci = fs.connIdx(f.Fconn)
	}
	fs.destroyed[tok]++
	fs.Log = append(fs.Log, Entry{Seq: vs.Seq(), Kind: "destroy", Conn: ci, Token: tok, User: userName(f.User)})
	if g := fs.TeardownGate; g != nil && fs.TeardownIn == "FidDestroy" {
		fs.TeardownGate = nil
		g.Acquire()
	}
	if a := auxOf(f); a != nil && a.destroyGate != nil {
		// an implementation slow to let go of the fid
		g := a.destroyGate
		a.destroyGate = nil
		g.Acquire()
	}
}

func (fs *FS) ConnOpened(c *go9p.Conn) {
	fs.Log = append(fs.Log, Entry{Seq: vs.Seq(), Kind: "connopen", Conn: fs.connIdx(c)})
}

func (fs *FS) ConnClosed(c *go9p.Conn) {
	fs.Log = append(fs.Log, Entry{Seq: vs.Seq(), Kind: "connclose", Conn: fs.connIdx(c)})
	if g := fs.TeardownGate; g != nil && fs.TeardownIn == "ConnClosed" {
		fs.TeardownGate = nil
		g.Acquire()
	}
}

// --- variants that add optional interfaces -----------------------------------------

// FSFlush adds FlushOp.
type FSFlush struct{ *FS }

func (fs FSFlush) Flush(req *go9p.SrvReq) {
	ci := fs.connIdx(req.Conn)
	fs.Log = append(fs.Log, Entry{Seq: vs.Seq(), Kind: "flush", Conn: ci, Tag: req.Tc.Tag, Occ: fs.occOf[req]})
	// an implementation can only cancel what it has been handed
	if fs.NoLateAnswer {
		fs.mu.Lock()
	}
	_, seen := fs.occOf[req]
	if fs.NoLateAnswer {
		fs.mu.Unlock()
	}
	if fs.FlushMode == "cancel" && !seen && fs.CancelAuthIO && req.Fid != nil && auxOf(req.Fid) != nil && auxOf(req.Fid).auth {
		// reads and writes on an authentication fid are carried out by the framework with
		// the AuthOps callbacks: the request itself is not handed over, its Tflush is
		fs.cancelled[req] = true
		req.Flush()
		return
	}
	if fs.FlushMode == "cancel" && seen {
		if fs.NoLateAnswer {
			fs.mu.Lock()
			busy := fs.answering[req]
			if !busy {
				fs.cancelled[req] = true
			}
			fs.mu.Unlock()
			if busy {
				return // the worker is answering: too late to cancel
			}
		} else {
			fs.cancelled[req] = true
		}
		req.Flush()
	}
}

// FSAuth adds AuthOps.
type FSAuth struct{ *FS }

func (fs FSAuth) AuthInit(afid *go9p.SrvFid, aname string) (*go9p.Qid, error) {
	fs.ntoken++
	afid.Aux = &fidAux{token: fs.ntoken, auth: true}
	fs.tokenConn[fs.ntoken] = fs.connIdx(afid.Fconn)
	fs.Log = append(fs.Log, Entry{Seq: vs.Seq(), Kind: "call", Op: "AuthInit", Conn: fs.connIdx(afid.Fconn), Token: fs.ntoken, User: userName(afid.User), Args: fmt.Sprintf("aname=%q", aname)})
	if fs.AuthInitErr != "" {
		return nil, fs.mkErr(fs.AuthInitErr)
	}
	return &go9p.Qid{Type: go9p.QTAUTH, Path: 999}, nil
}

func (fs FSAuth) AuthDestroy(afid *go9p.SrvFid) {
	tok := 0
	if a := auxOf(afid); a != nil {
		tok = a.token
	}
	fs.Log = append(fs.Log, Entry{Seq: vs.Seq(), Kind: "call", Op: "AuthDestroy", Conn: fs.connIdx(afid.Fconn), Token: tok, User: userName(afid.User)})
}

func (fs FSAuth) AuthCheck(fid *go9p.SrvFid, afid *go9p.SrvFid, aname string) error {
	at := -1
	if a := auxOf(afid); a != nil {
		at = a.token
	}
	verdict := ""
	if afid == nil {
		verdict = fs.AuthCheckErr[go9p.NOFID]
	} else {
		verdict = fs.AuthCheckErr[0]
	}
	fs.Log = append(fs.Log, Entry{Seq: vs.Seq(), Kind: "authcheck", Conn: fs.connIdx(fid.Fconn), Token: at, User: userName(fid.User), Args: fmt.Sprintf("aname=%q verdict=%q", aname, verdict)})
	if verdict != "" {
		return fs.mkErr(verdict)
	}
	return nil
}

// mkErr: the callbacks of an implementation return `error`; any error value counts,
// not only the library's own type.
func (fs *FS) mkErr(text string) error {
	switch fs.ErrKind {
	case "plain":
		return errors.New(text)
	case "errno":
		return syscall.EACCES
	case "wrapped":
		return fmt.Errorf("auth: %w", &go9p.Error{Err: text, Errornum: 1})
	}
	return &go9p.Error{Err: text, Errornum: 1}
}

func (fs FSAuth) AuthRead(afid *go9p.SrvFid, offset uint64, data []byte) (int, error) {
	if g := fs.AuthReadGate; g != nil {
		fs.FS.AuthReadGate = nil
		fs.Log = append(fs.Log, Entry{Seq: vs.Seq(), Kind: "call", Op: "AuthRead(parked)", Conn: fs.connIdx(afid.Fconn), Token: auxOf(afid).token})
		g.Acquire()
	}
	fs.Log = append(fs.Log, Entry{Seq: vs.Seq(), Kind: "call", Op: "AuthRead", Conn: fs.connIdx(afid.Fconn), Token: auxOf(afid).token, User: userName(afid.User), Args: fmt.Sprintf("off=%d count=%d", offset, len(data))})
	n := copy(data, "authdata")
	return n, nil
}

func (fs FSAuth) AuthWrite(afid *go9p.SrvFid, offset uint64, data []byte) (int, error) {
	fs.Log = append(fs.Log, Entry{Seq: vs.Seq(), Kind: "call", Op: "AuthWrite", Conn: fs.connIdx(afid.Fconn), Token: auxOf(afid).token, User: userName(afid.User), Args: fmt.Sprintf("off=%d count=%d", offset, len(data))})
	return len(data), nil
}

// FSAuthFlush has both.
type FSAuthFlush struct {
	FSAuth
}

func (fs FSAuthFlush) Flush(req *go9p.SrvReq) { FSFlush{fs.FS}.Flush(req) }

// ops returns the value to hand to Srv.Start for the wanted interface set.
func (fs *FS) ops(auth, flush bool) interface{} {
	switch {
	case auth && flush:
		return FSAuthFlush{FSAuth{fs}}
	case auth:
		return FSAuth{fs}
	case flush:
		return FSFlush{fs}
	}
	return fs
}

// --- log queries ---------------------------------------------------------------

func (fs *FS) calls(conn int, tag uint16, occ int) []Entry {
	var out []Entry
	for _, e := range fs.Log {
		if e.Kind == "call" && e.Conn == conn && e.Tag == tag && e.Occ == occ {
			out = append(out, e)
		}
	}
	return out
}

func (fs *FS) resps(conn int, tag uint16, occ int) []Entry {
	var out []Entry
	for _, e := range fs.Log {
		if e.Kind == "resp" && e.Conn == conn && e.Tag == tag && e.Occ == occ {
			out = append(out, e)
		}
	}
	return out
}

func (fs *FS) logString() string {
	var sb strings.Builder
	for _, e := range fs.Log {
		fmt.Fprintf(&sb, "#%d %s %s c%d tag=%d.%d fid=%d tok=%d %s %s %s\n", e.Seq, e.Kind, e.Op, e.Conn, e.Tag, e.Occ, e.Fid, e.Token, e.User, e.Args, e.Reply)
	}
	return sb.String()
}

// --- users ---------------------------------------------------------------------

type tUser struct {
	name string
	id   int
}

func (u *tUser) Name() string               { return u.name }
func (u *tUser) Id() int                    { return u.id }
func (u *tUser) Groups() []go9p.Group       { return nil }
func (u *tUser) IsMember(g go9p.Group) bool { return false }

type tUsers struct{ byID map[int]*tUser }

func newUsers() *tUsers {
	return &tUsers{byID: map[int]*tUser{0: {"root", 0}, 7: {"glenda", 7}, 8: {"bob", 8}}}
}

func (t *tUsers) Uid2User(uid int) go9p.User {
	if u, ok := t.byID[uid]; ok {
		return u
	}
	return nil
}

func (t *tUsers) Uname2User(n string) go9p.User {
	ids := make([]int, 0, len(t.byID))
	for id := range t.byID {
		ids = append(ids, id)
	}
	sort.Ints(ids)
	for _, id := range ids {
		if t.byID[id].name == n {
			return t.byID[id]
		}
	}
	return nil
}

func (t *tUsers) Gid2Group(gid int) go9p.Group     { return nil }
func (t *tUsers) Gname2Group(n string) go9p.Group { return nil }
