package main

import (
	"time"
	"fmt"
	"os"
	"path/filepath"
	"sort"
	"strings"
	"syscall"

	"github.com/rminnich/go9p"
	"github.com/rminnich/go9p/vs"
	"harness/wire"
)

// C16: Ufs names and metadata mirror the exported tree.

func c16BuildTree(root string, which int) {
	mk := func(p string, data string, mode os.FileMode) {
		os.WriteFile(filepath.Join(root, p), []byte(data), 0o644)
		os.Chmod(filepath.Join(root, p), mode)
	}
	switch which {
	case 0:
		os.MkdirAll(filepath.Join(root, "dir/sub"), 0o755)
		mk("plain", "hello", 0o644)
		mk("empty", "", 0o600)
		mk("dir/inner", "inner file", 0o444)
		mk("dir/sub/deep", "deep", 0o755)
		os.Symlink("plain", filepath.Join(root, "link-to-file"))
		os.Symlink("dir", filepath.Join(root, "link-to-dir"))
		os.Symlink("dir/sub", filepath.Join(root, "link-to-sub")) // its target's parent is not its own directory
		os.Symlink("nowhere", filepath.Join(root, "dangling"))
		os.Link(filepath.Join(root, "plain"), filepath.Join(root, "hardlink"))
		// links that exist but cannot be followed: to itself, in a cycle, through a regular file
		os.Symlink("loop", filepath.Join(root, "loop"))
		os.Symlink("cycle-b", filepath.Join(root, "cycle-a"))
		os.Symlink("cycle-a", filepath.Join(root, "cycle-b"))
		os.Symlink("plain/x", filepath.Join(root, "through-file"))
		os.Chmod(filepath.Join(root, "dir/sub"), 0o700)
	case 1:
		mk("name with spaces", "a", 0o644)
		mk(".hidden", "b", 0o640)
		mk("..twodots", "c", 0o604)
		mk("ünïcödé-名前", "d", 0o777)
		mk("bad\xff\xfeutf8", "e", 0o000)
		mk(strings.Repeat("L", 255), "long", 0o644)
		os.MkdirAll(filepath.Join(root, "d.with.dots"), 0o751)
		mk("d.with.dots/x y", "z", 0o666)
		// modification times the protocol's 32 bits have to carry: before 1970 with a fraction of a
		// second, the epoch itself, beyond 2038, far in the past
		for i, t := range []time.Time{time.Unix(-1, 500000000), time.Unix(-86400*365, 999000000), time.Unix(0, 0), time.Unix(0, 1), time.Unix(1<<31+5, 250000000), time.Unix(-2000000000, 0), time.Unix(1700000000, 999999999)} {
			n := fmt.Sprintf("mtime%d", i)
			mk(n, "t", 0o644)
			os.Chtimes(filepath.Join(root, n), t, t)
		}
		f, _ := os.Create(filepath.Join(root, "sparse"))
		f.Truncate(5<<30 + 7)
		f.Close()
	case 2:
		p := root
		for i := 0; i < 40; i++ {
			p = filepath.Join(p, fmt.Sprintf("l%d", i))
		}
		os.MkdirAll(p, 0o755)
		os.WriteFile(filepath.Join(p, "bottom"), []byte("bottom of the chain"), 0o644)
		os.Symlink("l1", filepath.Join(root, "l0", "jump"))
	case 3:
		os.MkdirAll(filepath.Join(root, "a/b/c"), 0o755)
		os.WriteFile(filepath.Join(root, "a/b/c/f"), []byte("x"), 0o644)
		os.Symlink("../b", filepath.Join(root, "a/b/self"))
		os.Link(filepath.Join(root, "a/b/c/f"), filepath.Join(root, "a/hl"))
		os.Mkdir(filepath.Join(root, "empty-dir"), 0o500)
		// special files (made only where the host lets us): a socket, a block and a character device
		syscall.Mknod(filepath.Join(root, "sock"), syscall.S_IFSOCK|0o644, 0)
		syscall.Mknod(filepath.Join(root, "blk"), syscall.S_IFBLK|0o600, 7<<8)
		syscall.Mknod(filepath.Join(root, "chr"), syscall.S_IFCHR|0o666, 1<<8|3)
		syscall.Mknod(filepath.Join(root, "a", "b", "sock2"), syscall.S_IFSOCK|0o600, 0)
	}
}

type c16Node struct {
	rel   []string // path elements from the root
	lstat os.FileInfo
}

func c16Nodes(root string) []c16Node {
	var out []c16Node
	filepath.Walk(root, func(p string, fi os.FileInfo, err error) error {
		if err != nil || p == root {
			return nil
		}
		rel, _ := filepath.Rel(root, p)
		out = append(out, c16Node{rel: strings.Split(rel, "/"), lstat: fi})
		return nil
	})
	// paths that go through a symlink to a directory resolve locally, so they are nodes too
	for _, n := range append([]c16Node{}, out...) {
		if n.lstat.Mode()&os.ModeSymlink == 0 {
			continue
		}
		p := filepath.Join(root, filepath.Join(n.rel...))
		if st, err := os.Stat(p); err != nil || !st.IsDir() {
			continue
		}
		ents, _ := os.ReadDir(p)
		for i, e := range ents {
			if i >= 3 {
				break
			}
			if fi, err := os.Lstat(filepath.Join(p, e.Name())); err == nil {
				out = append(out, c16Node{rel: append(append([]string{}, n.rel...), e.Name()), lstat: fi})
			}
		}
	}
	sort.Slice(out, func(i, j int) bool { return strings.Join(out[i].rel, "/") < strings.Join(out[j].rel, "/") })
	return out
}

func c16CheckStat(st *wire.Stat, fi os.FileInfo, name string, dotu bool) string {
	sys := fi.Sys().(*syscall.Stat_t)
	var probs []string
	wantT := uint8(0)
	if fi.IsDir() {
		wantT |= 0x80
	}
	if fi.Mode()&os.ModeSymlink != 0 {
		wantT |= 0x02
	}
	if st.Qid.Type != wantT {
		probs = append(probs, fmt.Sprintf("qid type %#x want %#x", st.Qid.Type, wantT))
	}
	if st.Qid.Path != sys.Ino {
		probs = append(probs, fmt.Sprintf("qid path %d want inode %d", st.Qid.Path, sys.Ino))
	}
	if st.Length != uint64(fi.Size()) {
		probs = append(probs, fmt.Sprintf("length %d want %d", st.Length, fi.Size()))
	}
	if st.Mode&0777 != uint32(fi.Mode()&0777) {
		probs = append(probs, fmt.Sprintf("permission bits %o want %o", st.Mode&0777, fi.Mode()&0777))
	}
	if (st.Mode&go9p.DMDIR != 0) != fi.IsDir() {
		probs = append(probs, "DMDIR bit wrong")
	}
	if dotu && (st.Mode&go9p.DMSYMLINK != 0) != (fi.Mode()&os.ModeSymlink != 0) {
		probs = append(probs, "DMSYMLINK bit wrong")
	}
	if st.Mtime != uint32(fi.ModTime().Unix()) {
		probs = append(probs, fmt.Sprintf("mtime %d want %d", st.Mtime, fi.ModTime().Unix()))
	}
	if st.Name != name {
		probs = append(probs, fmt.Sprintf("name %q want %q", st.Name, name))
	}
	return strings.Join(probs, "; ")
}

func c16Scenario(tree int, dotu bool, maxK int, ancestors bool) Scenario {
	name := fmt.Sprintf("tree=%d dotu=%v missing<=%d ancestors=%v", tree, dotu, maxK, ancestors)
	return Scenario{Name: name, Run: func(rc *RunCtx) *Result {
		res := &Result{Exhaustive: true}
		base, root := scratchDir("c16")
		defer os.RemoveAll(base)
		c16BuildTree(root, tree)
		nodes := c16Nodes(root)
		seen := map[string]bool{}
		fail := func(sig, msg string) {
			if !seen[sig] && len(res.Findings) < 10 {
				seen[sig] = true
				res.Findings = append(res.Findings, Finding{Sig: "C16/" + sig, Msg: msg + fmt.Sprintf(" (tree %d, dotu %v)", tree, dotu)})
			}
		}
		msize := uint32(8216)
		body := func() {
			h := newUfsH(root, msize, dotu)
			cl := h.Connect()
			ver := "9P2000"
			if dotu {
				ver = "9P2000.u"
			}
			cl.Version(msize, ver)
			cl.Rpc(tattach(1, 0, wire.NOFID, "", uint32(os.Geteuid()), dotu))
			rootFi, _ := os.Lstat(root)
			statOf := func(fid uint32) *wire.Msg { return cl.Rpc(&wire.Msg{Type: wire.Tstat, Tag: 9, Fid: fid}) }
			qidPaths := map[uint64]string{}
			for _, n := range nodes {
				if rc.Expired() {
					res.Exhaustive = false
					res.CapHit = "internal deadline"
					return
				}
				full := strings.Join(n.rel, "/")
				starts := []int{0}
				if ancestors {
					for a := 1; a < len(n.rel); a++ {
						starts = append(starts, a)
					}
				}
				for _, a := range starts {
					// fid 2 designates the ancestor the walk starts from
					if a > 0 {
						if len(n.rel[:a]) > 16 {
							continue
						}
						// a walk by name can only start at a directory fid (a symlink to one is not)
						if afi, err := os.Lstat(filepath.Join(root, filepath.Join(n.rel[:a]...))); err != nil || !afi.IsDir() {
							continue
						}
						r := cl.Rpc(twalk(3, 0, 2, n.rel[:a]...))
						if r == nil || r.Type != wire.Rwalk || len(r.Wqid) != a {
							continue
						}
					} else {
						cl.Rpc(twalk(3, 0, 2))
					}
					for k := 0; k <= maxK; k++ {
						names := append([]string{}, n.rel[a:]...)
						for j := 0; j < k; j++ {
							names = append(names, "missing-zz")
						}
						if len(names) > 16 || len(names) == 0 {
							continue
						}
						existing := len(n.rel) - a
						for _, inplace := range []bool{false, true} {
							res.Evals++
							src, dst := uint32(2), uint32(5)
							if inplace {
								cl.Rpc(twalk(4, 2, 6)) // clone, then walk the clone in place
								src, dst = 6, 6
							}
							r := cl.Rpc(twalk(4, src, dst, names...))
							if r == nil {
								fail("walk-no-reply", "no reply to Twalk "+full)
								continue
							}
							isLink := false
							// elements after a non-directory cannot exist: lstat tells
							if existing == 0 && k > 0 {
								if r.Type != wire.Rerror {
									fail("walk-first-missing-not-error", fmt.Sprintf("Twalk %v whose first element is missing answered by %s", names, r))
								}
							} else if r.Type != wire.Rwalk || len(r.Wqid) != existing {
								fail("walk-qid-count", fmt.Sprintf("Twalk %v from depth %d: %d leading elements exist, reply %s", names, a, existing, r))
								cl.Rpc(&wire.Msg{Type: wire.Tclunk, Tag: 4, Fid: dst})
								continue
							} else {
								// qids of the walked elements agree with lstat
								for i, q := range r.Wqid {
									fi, err := os.Lstat(filepath.Join(root, filepath.Join(n.rel[:a+i+1]...)))
									if err != nil {
										continue
									}
									if q.Path != fi.Sys().(*syscall.Stat_t).Ino || (q.Type&0x80 != 0) != fi.IsDir() {
										fail("walk-qid-mismatch", fmt.Sprintf("Twalk %v: qid %d %v does not match lstat of element %d", names, i, q, i))
									}
									isLink = fi.Mode()&os.ModeSymlink != 0
								}
							}
							_ = isLink
							complete := k == 0 && r.Type == wire.Rwalk
							// where are the fids now
							sd := statOf(dst)
							if complete {
								if sd == nil || sd.Type != wire.Rstat {
									fail("newfid-unusable-after-full-walk", fmt.Sprintf("after a complete Twalk %v the new fid answers %v", names, sd))
								} else if p := c16CheckStat(&sd.Stat, n.lstat, n.rel[len(n.rel)-1], dotu); p != "" {
									fail("stat-mismatch/"+sigWords(p), fmt.Sprintf("Tstat of %q after walking there (in place %v): %s", full, inplace, p))
								} else {
									if prev, ok := qidPaths[sd.Stat.Qid.Path]; ok && prev != full {
										fa, _ := os.Stat(filepath.Join(root, prev))
										fb, _ := os.Lstat(filepath.Join(root, full))
										if fa == nil || fb == nil || !os.SameFile(fa, fb) {
											la, _ := os.Lstat(filepath.Join(root, prev))
											if la == nil || !os.SameFile(la, fb) {
												fail("qid-path-shared", fmt.Sprintf("%q and %q are different files with the same qid path", prev, full))
											}
										}
									}
									qidPaths[sd.Stat.Qid.Path] = full
									// the fid can be cloned whatever it designates (a dangling symbolic link too)
									if !inplace {
										res.Evals++
										if rc2 := cl.Rpc(twalk(6, dst, 8)); rc2 == nil || rc2.Type != wire.Rwalk || len(rc2.Wqid) != 0 {
											fail("clone-of-walked-fid-refused", fmt.Sprintf("a Twalk with no names from the fid that designates %q answered %v", full, rc2))
										} else {
											if sc := statOf(8); sc == nil || sc.Type != wire.Rstat || sc.Stat.Qid.Path != sd.Stat.Qid.Path {
												fail("clone-designates-something-else", fmt.Sprintf("the clone of the fid that designates %q answers %v", full, sc))
											}
											cl.Rpc(&wire.Msg{Type: wire.Tclunk, Tag: 6, Fid: 8})
										}
									}
									// the fid keeps designating the same object once it is open (the open
									// follows a symbolic link, the fid does not)
									if a == 0 && !inplace && n.lstat.Mode()&(os.ModeDevice|os.ModeSocket|os.ModeNamedPipe|os.ModeCharDevice) == 0 {
										if ro := cl.Rpc(&wire.Msg{Type: wire.Topen, Tag: 5, Fid: dst, Mode: 0}); ro != nil && ro.Type == wire.Ropen {
											res.Evals++
											if so := statOf(dst); so == nil || so.Type != wire.Rstat {
												fail("open-fid-unusable", fmt.Sprintf("Tstat of %q after opening it answers %v", full, so))
											} else if p := c16CheckStat(&so.Stat, n.lstat, n.rel[len(n.rel)-1], dotu); p != "" {
												fail("stat-mismatch-once-open/"+sigWords(p), fmt.Sprintf("Tstat of %q after opening the fid: %s", full, p))
											} else if so.Stat.Qid.Path != sd.Stat.Qid.Path {
												fail("qid-changes-on-open", fmt.Sprintf("%q: qid path %d before, %d after opening the fid", full, sd.Stat.Qid.Path, so.Stat.Qid.Path))
											}
										}
									}
								}
							} else if inplace {
								// partial or failed walk in place: the fid stays where it was
								an := filepath.Base(root)
								afi := rootFi
								if a > 0 {
									an = n.rel[a-1]
									afi, _ = os.Lstat(filepath.Join(root, filepath.Join(n.rel[:a]...)))
								}
								if sd == nil || sd.Type != wire.Rstat {
									fail("fid-lost-after-partial-in-place-walk", fmt.Sprintf("after a partial in-place Twalk %v the fid answers %v", names, sd))
								} else if p := c16CheckStat(&sd.Stat, afi, an, dotu); p != "" {
									fail("fid-moved-by-partial-in-place-walk", fmt.Sprintf("after a partial in-place Twalk %v (%d of %d elements exist) the fid no longer designates %q: %s", names, existing, len(names), an, p))
								}
							} else if sd == nil || sd.Type != wire.Rerror {
								fail("newfid-valid-after-partial-walk", fmt.Sprintf("after a partial Twalk %v the new fid answers %v", names, sd))
							}
							if !inplace {
								// the source fid is unmoved
								ss := statOf(src)
								an := filepath.Base(root)
								afi := rootFi
								if a > 0 {
									an = n.rel[a-1]
									afi, _ = os.Lstat(filepath.Join(root, filepath.Join(n.rel[:a]...)))
								}
								if ss == nil || ss.Type != wire.Rstat || c16CheckStat(&ss.Stat, afi, an, dotu) != "" {
									fail("source-fid-moved", fmt.Sprintf("after Twalk %v to a new fid the source fid answers %v", names, ss))
								}
							}
							cl.Rpc(&wire.Msg{Type: wire.Tclunk, Tag: 4, Fid: dst})
						}
					}
					cl.Rpc(&wire.Msg{Type: wire.Tclunk, Tag: 4, Fid: 2})
				}
			}
		}
		x := vs.Run(nil, body, vs.Options{Horizon: 500000000})
		if len(x.Panics) > 0 {
			fail("panic/"+x.Panics[0].Frame, "panic: "+x.Panics[0].Value)
		}
		// through the client's path helpers (deep paths need several Twalks)
		bad := withUfsClient(root, msize, dotu, func(c *go9p.Clnt, h *SrvH) string {
			for _, n := range nodes {
				res.Evals++
				full := strings.Join(n.rel, "/")
				d, err := c.FStat(full)
				if err != nil {
					return fmt.Sprintf("FStat(%q): %v (the local path exists)", full, err)
				}
				ws := wire.Stat{Qid: wire.Qid{Type: d.Qid.Type, Vers: d.Qid.Version, Path: d.Qid.Path}, Mode: d.Mode, Mtime: d.Mtime, Length: d.Length, Name: d.Name}
				if p := c16CheckStat(&ws, n.lstat, n.rel[len(n.rel)-1], dotu); p != "" {
					return fmt.Sprintf("FStat(%q): %s", full, p)
				}
				if _, err := c.FStat(full + "/does-not-exist"); err == nil {
					return fmt.Sprintf("FStat of a missing child of %q succeeded", full)
				}
			}
			return ""
		})
		if bad != "" {
			fail("client-path/"+sigWords(bad), bad)
		}
		res.Nontrivial = res.Evals
		res.Samples = append(res.Samples, fmt.Sprintf("tree %d with %d nodes: every node x 0..%d missing trailing elements x {new fid, in place}, stat of every node, FStat of every path", tree, len(nodes), maxK))
		return res
	}}
}

// c16DotDot: '..' and '.' are resolved by the host, element by element: after a symbolic link to
// a directory it leads to the parent of the link's target, not back to where the link
// is. Every element list over {link-to-sub, link-to-dir, dir, sub, .., inner, deep} of
// length <= 4 that the host resolves, as one Twalk to a new fid and in place: the qids
// and the stat of the resulting fid are those of the host's own resolution.
func c16DotDot(dotu bool) Scenario {
	name := fmt.Sprintf("dotdot-through-links dotu=%v", dotu)
	return Scenario{Name: name, Run: func(rc *RunCtx) *Result {
		res := &Result{Exhaustive: true}
		base, root := scratchDir("c16")
		defer os.RemoveAll(base)
		c16BuildTree(root, 0)
		seen := map[string]bool{}
		fail := func(sig, msg string) {
			if !seen[sig] && len(res.Findings) < 6 {
				seen[sig] = true
				res.Findings = append(res.Findings, Finding{Sig: "C16/" + sig, Msg: msg})
			}
		}
		alpha := []string{"link-to-sub", "link-to-dir", "dir", "sub", "..", ".", "inner", "deep"}
		var lists [][]string
		var gen func(cur []string)
		gen = func(cur []string) {
			if len(cur) > 0 {
				lists = append(lists, append([]string{}, cur...))
			}
			if len(cur) == 4+c16Deeper {
				return
			}
			for _, a := range alpha {
				gen(append(cur, a))
			}
		}
		gen(nil)
		// ... and shorter lists over names at which the host's resolution stops although they exist
		alpha2 := []string{"loop", "cycle-a", "through-file", "dangling", "plain", "dir", "..", "inner"}
		for _, a := range alpha2 {
			lists = append(lists, []string{a})
			for _, b := range alpha2 {
				lists = append(lists, []string{a, b})
				for _, c := range alpha2 {
					lists = append(lists, []string{a, b, c})
				}
			}
		}
		rootFi, _ := os.Lstat(root)
		body := func() {
			h := newUfsH(root, 8216, dotu)
			cl := h.Connect()
			ver := "9P2000"
			if dotu {
				ver = "9P2000.u"
			}
			cl.Version(8216, ver)
			un := ""
			if !dotu {
				un = go9p.OsUsers.Uid2User(os.Geteuid()).Name()
			}
			cl.Rpc(tattach(1, 0, wire.NOFID, un, uint32(os.Geteuid()), dotu))
			for _, el := range lists {
				if rc.Expired() {
					res.Exhaustive = false
					res.CapHit = "internal deadline"
					return
				}
				// the host's resolution, element by element (lstat of the last element: a link stays a link)
				var fis []os.FileInfo
				path := root
				ok := true
				stopped := false // the host's resolution stops at an element (there is no such thing, or it cannot be reached)
				for _, e := range el {
					path += "/" + e
					fi, err := os.Lstat(path)
					if err != nil {
						ok = false
						stopped = true
						break
					}
					// '..' above the export stays at the root (checked by C18): skip lists that leave it
					// (a link that cannot be followed is still there: lstat describes it)
					if rp, err := filepath.EvalSymlinks(path); err == nil && rp != root && !strings.HasPrefix(rp, root+"/") {
						ok = false
						break
					}
					if e == ".." {
						// Lstat of "x/.." describes the directory it resolves to
						fi, _ = os.Stat(path)
					}
					fis = append(fis, fi)
				}
				if !ok && stopped {
					// a walk goes as far as the host does: an error if that is nowhere, else the qids
					// of the elements reached, and no new fid
					res.Evals++
					res.Nontrivial++
					r := cl.Rpc(twalk(2, 0, 5, el...))
					switch {
					case r == nil:
						fail("dotdot/no-reply", fmt.Sprintf("no reply to Twalk %v", el))
					case len(fis) == 0:
						if r.Type != wire.Rerror {
							fail("dotdot/first-element-unreachable-not-error", fmt.Sprintf("Twalk %v: the host resolves no element, the reply is %v", el, r))
						}
					case r.Type != wire.Rwalk || len(r.Wqid) != len(fis):
						fail("dotdot/walk-past-where-the-host-stops", fmt.Sprintf("Twalk %v: the host's resolution stops after %d elements (lstat of %q fails), the reply is %v", el, len(fis), strings.TrimPrefix(path, root+"/"), r))
					default:
						for i, q := range r.Wqid {
							if q.Path != fis[i].Sys().(*syscall.Stat_t).Ino {
								fail("dotdot/qid-mismatch", fmt.Sprintf("Twalk %v: qid %d has path %d, the host resolves element %d (%q) to inode %d", el, i, q.Path, i, el[i], fis[i].Sys().(*syscall.Stat_t).Ino))
								break
							}
						}
					}
					if r5 := cl.Rpc(&wire.Msg{Type: wire.Tstat, Tag: 3, Fid: 5}); r5 == nil || r5.Type != wire.Rerror {
						fail("dotdot/newfid-after-incomplete-walk", fmt.Sprintf("after Twalk %v, which the host resolves only for %d elements, the new fid exists: %v", el, len(fis), r5))
						cl.Rpc(&wire.Msg{Type: wire.Tclunk, Tag: 3, Fid: 5})
					}
					continue
				}
				if !ok {
					continue
				}
				res.Evals++
				res.Nontrivial++
				r := cl.Rpc(twalk(2, 0, 5, el...))
				if r == nil || r.Type != wire.Rwalk || len(r.Wqid) != len(el) {
					fail("dotdot/walk-short", fmt.Sprintf("Twalk %v: every element resolves on the host, the reply is %v", el, r))
					cl.Rpc(&wire.Msg{Type: wire.Tclunk, Tag: 3, Fid: 5})
					continue
				}
				for i, q := range r.Wqid {
					if q.Path != fis[i].Sys().(*syscall.Stat_t).Ino {
						fail("dotdot/qid-mismatch", fmt.Sprintf("Twalk %v: qid %d has path %d, the host resolves element %d (%q) to inode %d", el, i, q.Path, i, el[i], fis[i].Sys().(*syscall.Stat_t).Ino))
						break
					}
				}
				// the new fid designates that object: walking on from it agrees as well
				last := fis[len(fis)-1]
				if last.IsDir() {
					if r2 := cl.Rpc(twalk(4, 5, 6, "..")); r2 != nil && r2.Type == wire.Rwalk && len(r2.Wqid) == 1 {
						want := rootFi
						if rp, err := filepath.EvalSymlinks(path); err == nil && rp != root {
							want, _ = os.Stat(path + "/..")
						}
						if want != nil && r2.Wqid[0].Path != want.Sys().(*syscall.Stat_t).Ino {
							fail("dotdot/parent-of-result", fmt.Sprintf("after Twalk %v, '..' from the new fid has qid path %d, the host's parent of that directory is inode %d", el, r2.Wqid[0].Path, want.Sys().(*syscall.Stat_t).Ino))
						}
						cl.Rpc(&wire.Msg{Type: wire.Tclunk, Tag: 3, Fid: 6})
					}
				}
				cl.Rpc(&wire.Msg{Type: wire.Tclunk, Tag: 3, Fid: 5})
			}
		}
		x := vs.Run(nil, body, vs.Options{Horizon: 500000000})
		if len(x.Panics) > 0 {
			fail("panic/"+x.Panics[0].Frame, "panic: "+x.Panics[0].Value)
		}
		res.Samples = append(res.Samples, fmt.Sprintf("%d element lists of length <= 4 over %v, those the host resolves inside the export walked as one Twalk", len(lists), alpha))
		return res
	}}
}

// c16Deeper: additional elements of the enumerated element lists in the thorough tier
var c16Deeper int

// c16HostOddSizes: file systems of the host on which lstat reports sizes that say nothing
// about the content (procfs: symbolic links and files of size 0). The length in a stat
// reply is what lstat reports, whatever that is; in 9P2000.u the link's target is
// carried besides.
func c16HostOddSizes(dotu bool) Scenario {
	name := fmt.Sprintf("stat of /proc entries whose lstat size is 0 dotu=%v", dotu)
	return Scenario{Name: name, Run: func(rc *RunCtx) *Result {
		res := &Result{Exhaustive: true}
		var bad []string
		for _, exp := range []struct {
			root  string
			names []string
		}{{"/proc", []string{"self", "thread-self", "mounts", "version", "net"}}, {"/proc/self", []string{"cwd", "exe", "root", "status", "fd"}}} {
			if rp, err := filepath.EvalSymlinks(exp.root); err != nil {
				continue
			} else {
				exp.root = rp // (/proc/self is itself a link: the directory it leads to is exported)
			}
			exp := exp
			body := func() {
				h := newUfsH(exp.root, 8216, dotu)
				cl := h.Connect()
				ver := "9P2000"
				if dotu {
					ver = "9P2000.u"
				}
				cl.Version(8216, ver)
				cl.Rpc(tattach(1, 0, wire.NOFID, "", uint32(os.Geteuid()), dotu))
				for _, n := range exp.names {
					fi, err := os.Lstat(filepath.Join(exp.root, n))
					if err != nil {
						continue
					}
					r := cl.Rpc(twalk(2, 0, 1, n))
					if r == nil || r.Type != wire.Rwalk || len(r.Wqid) != 1 {
						bad = append(bad, fmt.Sprintf("walk to %s/%s answered %v", exp.root, n, r))
						continue
					}
					st := cl.Rpc(&wire.Msg{Type: wire.Tstat, Tag: 3, Fid: 1})
					cl.Rpc(&wire.Msg{Type: wire.Tclunk, Tag: 3, Fid: 1})
					res.Evals++
					if st == nil || st.Type != wire.Rstat {
						bad = append(bad, fmt.Sprintf("Tstat of %s/%s answered %v", exp.root, n, st))
						continue
					}
					if !fi.IsDir() && st.Stat.Length != uint64(fi.Size()) {
						bad = append(bad, fmt.Sprintf("Tstat of %s/%s reports length %d, lstat reports %d", exp.root, n, st.Stat.Length, fi.Size()))
					}
					if fi.Mode()&os.ModeSymlink != 0 {
						if dotu && st.Stat.Mode&go9p.DMSYMLINK == 0 {
							bad = append(bad, fmt.Sprintf("Tstat of the symbolic link %s/%s has mode %#x", exp.root, n, st.Stat.Mode))
						}
						if tgt, err := os.Readlink(filepath.Join(exp.root, n)); dotu && err == nil && st.Stat.Ext != tgt && n != "self" && n != "thread-self" {
							bad = append(bad, fmt.Sprintf("Tstat of the symbolic link %s/%s carries target %q, readlink gives %q", exp.root, n, st.Stat.Ext, tgt))
						}
					}
				}
			}
			x := vs.Run(nil, body, vs.Options{Horizon: 100000000})
			if len(x.Panics) > 0 {
				bad = append(bad, "panic: "+x.Panics[0].Value)
			}
		}
		res.Nontrivial = res.Evals
		if len(bad) > 0 {
			res.Findings = append(res.Findings, Finding{Sig: "C16/host-odd-sizes/" + sigWords(bad[0]), Msg: strings.Join(bad, "\n")})
		}
		return res
	}}
}

// c16SmallMsize: walks on a connection whose message size is so small that a reply for
// as many qids as names were asked for would not fit, though the reply that is due (one
// qid per element that exists) does.
func c16SmallMsize(msize uint32, dotu bool) Scenario {
	name := fmt.Sprintf("partial and full walks at msize=%d dotu=%v", msize, dotu)
	return Scenario{Name: name, Run: func(rc *RunCtx) *Result {
		res := &Result{Exhaustive: true}
		base, root := scratchDir("c16s")
		defer os.RemoveAll(base)
		chain := []string{"a", "b", "c", "d", "e", "f", "g", "h"}
		os.MkdirAll(filepath.Join(root, filepath.Join(chain...)), 0o755)
		seen := map[string]bool{}
		fail := func(sig, msg string) {
			if !seen[sig] && len(res.Findings) < 10 {
				seen[sig] = true
				res.Findings = append(res.Findings, Finding{Sig: "C16/small-msize/" + sig, Msg: msg + fmt.Sprintf(" (msize %d, dotu %v)", msize, dotu)})
			}
		}
		body := func() {
			h := newUfsH(root, msize, dotu)
			cl := h.Connect()
			ver := "9P2000"
			if dotu {
				ver = "9P2000.u"
			}
			cl.Version(msize, ver)
			cl.Rpc(tattach(1, 0, wire.NOFID, "", uint32(os.Geteuid()), dotu))
			for e := 0; e <= len(chain); e++ {
				for k := 0; e+k <= 16; k++ {
					if e+k == 0 || 9+13*e > int(msize) {
						continue
					}
					names := append([]string{}, chain[:e]...)
					for j := 0; j < k; j++ {
						names = append(names, "m")
					}
					if len(wire.Encode(twalk(4, 0, 5, names...), dotu)) > int(msize) {
						continue
					}
					for _, inplace := range []bool{false, true} {
						res.Evals++
						src, dst := uint32(0), uint32(5)
						if inplace {
							cl.Rpc(twalk(4, 0, 6))
							src, dst = 6, 6
						}
						r := cl.Rpc(twalk(4, src, dst, names...))
						switch {
						case r == nil:
							fail("no-reply", fmt.Sprintf("no reply to Twalk %v", names))
						case e == 0:
							if r.Type != wire.Rerror {
								fail("first-missing-not-error", fmt.Sprintf("Twalk %v whose first element is missing answered by %s", names, r))
							}
						case r.Type != wire.Rwalk || len(r.Wqid) != e:
							fail("walk-qid-count", fmt.Sprintf("Twalk %v (in place %v): %d leading elements exist and an Rwalk for them is %d bytes, reply %s", names, inplace, e, 9+13*e, r))
						default:
							for i, q := range r.Wqid {
								fi, err := os.Lstat(filepath.Join(root, filepath.Join(chain[:i+1]...)))
								if err == nil && q.Path != fi.Sys().(*syscall.Stat_t).Ino {
									fail("walk-qid-mismatch", fmt.Sprintf("Twalk %v: qid %d does not match lstat", names, i))
								}
							}
						}
						// where the fids are afterwards
						if r != nil && e > 0 {
							sd := cl.Rpc(&wire.Msg{Type: wire.Twalk, Tag: 9, Fid: dst, Newfid: 7})
							full := k == 0 && r.Type == wire.Rwalk
							switch {
							case full && !inplace, inplace:
								if sd == nil || sd.Type != wire.Rwalk {
									fail("fid-lost", fmt.Sprintf("after Twalk %v (in place %v) the fid answers %v", names, inplace, sd))
								} else {
									// it designates the target after a full walk, the start otherwise
									up := cl.Rpc(twalk(9, 7, 7, ".."))
									wantIno := uint64(0)
									where := root
									if full {
										where = filepath.Join(root, filepath.Join(chain[:e]...))
									}
									if fi, err := os.Lstat(filepath.Dir(where)); err == nil && where != root {
										wantIno = fi.Sys().(*syscall.Stat_t).Ino
									} else if fi, err := os.Lstat(root); err == nil {
										wantIno = fi.Sys().(*syscall.Stat_t).Ino
									}
									if up == nil || up.Type != wire.Rwalk || len(up.Wqid) != 1 || up.Wqid[0].Path != wantIno {
										fail("fid-elsewhere", fmt.Sprintf("after Twalk %v (in place %v, reply %s) the fid does not designate %s: its '..' answers %v", names, inplace, r, where, up))
									}
									cl.Rpc(&wire.Msg{Type: wire.Tclunk, Tag: 9, Fid: 7})
								}
							default:
								if sd == nil || sd.Type != wire.Rerror {
									fail("newfid-exists-after-partial-walk", fmt.Sprintf("after the partial Twalk %v the new fid answers %v", names, sd))
									cl.Rpc(&wire.Msg{Type: wire.Tclunk, Tag: 9, Fid: 7})
								}
							}
						}
						cl.Rpc(&wire.Msg{Type: wire.Tclunk, Tag: 4, Fid: dst})
					}
				}
			}
		}
		x := vs.Run(nil, body, vs.Options{Horizon: 500000000})
		res.States++
		res.Traces++
		res.Nontrivial = res.Evals
		if len(x.Panics) > 0 {
			fail("panic", "panic: "+x.Panics[0].Value)
		} else if len(x.Fails) > 0 {
			fail("harness", x.Fails[0])
		}
		return res
	}}
}

func c16Scenarios(tier string) []Scenario {
	var out []Scenario
	for i, ms := range []uint32{64, 100, 128, 216, 256} {
		out = append(out, c16SmallMsize(ms, i%2 == 0))
	}
	out = append(out, c16HostOddSizes(false), c16HostOddSizes(true))
	c16Deeper = 0
	if tier == "thorough" {
		c16Deeper = 1
	}
	out = append(out, c16DotDot(false), c16DotDot(true))
	out = append(out, c16Unprivileged(false), c16Unprivileged(true))
	for t := 0; t < 4; t++ {
		for _, dotu := range []bool{false, true} {
			k := 1
			if tier == "thorough" {
				k = 4
			}
			out = append(out, c16Scenario(t, dotu, k, tier == "thorough" || t == 0))
		}
	}
	return out
}

func init() {
	register(&Property{ID: "C16", Level: "exploration",
		Technique: "bounded-exhaustive enumeration of walks and stats over constructed trees against the real Ufs, compared with os.Lstat",
		Rule:      "4 constructed trees (files, directories, symlinks to file/dir/dangling, hard links, names with spaces, dots, non-ASCII and non-UTF-8 bytes, 255-byte names, a 40-level chain, a socket, a block and a character device node, modes 0000-0777, modification times before 1970 (with fractions of a second), at the epoch and beyond 2038, a >4 GiB sparse file); for every node and k in 0..1 (thorough 4) missing trailing elements: the walk from the root (and from every ancestor) as one Twalk (<= 16 elements) to a new fid and in place, Tstat of both fids afterwards and again once the new fid is open, stat of every node in both dialects, every element list of length <= 4 (thorough 5) with '..' behind symbolic links to directories compared with the host's own resolution, Clnt.FStat of every path and of a missing child; every element list of length <= 3 (thorough 4) over a tree with unsearchable and unlistable directories, served by an ordinary user, compared with that user's lstat. non-trivial = walks/stats compared ; partial and full walks of 1..16 names at msize 64..256; element lists over links that exist but cannot be followed (self-loop, cycle, through a regular file) ; stat of procfs entries whose lstat size is 0",
		Assumptions: []string{"the host file system and os.Lstat are the reference; one scenario serves a tree with unsearchable directories with the effective ids of an ordinary user, the others run as the sandbox user", "random trees of the quantifier are sampling and not claimed"},
		Scenarios:   c16Scenarios, QuickS: 100, ThoroughS: 600})
}

// c16Unprivileged: the server runs as an ordinary user and the tree has directories it
// may not search or list. A name "exists" for the walk exactly as far as lstat, done by
// that user, says so: every element list of length <= 3 over the names of the tree,
// from the root to a new fid and in place.
func c16Unprivileged(dotu bool) Scenario {
	name := fmt.Sprintf("ordinary-user tree with unsearchable directories dotu=%v", dotu)
	return Scenario{Name: name, Run: func(rc *RunCtx) *Result {
		res := &Result{Exhaustive: true}
		base, root := scratchDir("c16u")
		defer os.RemoveAll(base)
		openUp(base, root)
		os.MkdirAll(filepath.Join(root, "pub", "locked", "x"), 0o755)
		os.WriteFile(filepath.Join(root, "pub", "locked", "f"), []byte("f"), 0o644)
		os.MkdirAll(filepath.Join(root, "pub", "open", "x"), 0o755)
		os.MkdirAll(filepath.Join(root, "pub", "nolist", "x"), 0o755)
		os.MkdirAll(filepath.Join(root, "locked", "x"), 0o755)
		os.Chmod(filepath.Join(root, "pub", "locked"), 0)
		os.Chmod(filepath.Join(root, "pub", "nolist"), 0o311)
		os.Chmod(filepath.Join(root, "locked"), 0)
		defer func() {
			os.Chmod(filepath.Join(root, "pub", "locked"), 0o755)
			os.Chmod(filepath.Join(root, "pub", "nolist"), 0o755)
			os.Chmod(filepath.Join(root, "locked"), 0o755)
		}()
		restore := asOrdinaryUser()
		defer restore()
		if _, err := os.Lstat(filepath.Join(root, "pub", "locked", "x")); err == nil && os.Getenv("VERIF_NO_DROP") != "1" {
			res.Samples = append(res.Samples, "the host does not refuse this user anything: nothing to compare")
			return res
		}
		seen := map[string]bool{}
		fail := func(sig, msg string) {
			if !seen[sig] && len(res.Findings) < 10 {
				seen[sig] = true
				res.Findings = append(res.Findings, Finding{Sig: "C16/" + sig, Msg: msg + fmt.Sprintf(" (server run by uid %d, dotu %v)", os.Geteuid(), dotu)})
			}
		}
		alpha := []string{"pub", "locked", "open", "nolist", "x", "f", "nope"}
		var lists [][]string
		var rec func(cur []string)
		rec = func(cur []string) {
			if len(cur) > 0 {
				lists = append(lists, append([]string{}, cur...))
			}
			if len(cur) == 3+c16Deeper {
				return
			}
			for _, a := range alpha {
				rec(append(cur, a))
			}
		}
		rec(nil)
		body := func() {
			h := newUfsH(root, 8216, dotu)
			cl := h.Connect()
			ver := "9P2000"
			un := ""
			if dotu {
				ver = "9P2000.u"
			} else {
				un = go9p.OsUsers.Uid2User(os.Geteuid()).Name()
			}
			cl.Version(8216, ver)
			if r := cl.Rpc(tattach(1, 0, wire.NOFID, un, uint32(os.Geteuid()), dotu)); r == nil || r.Type != wire.Rattach {
				fail("attach", fmt.Sprintf("Tattach answered by %v", r))
				return
			}
			rootFi, _ := os.Lstat(root)
			for _, names := range lists {
				if rc.Expired() {
					res.Exhaustive = false
					res.CapHit = "internal deadline"
					return
				}
				var fis []os.FileInfo
				for i := range names {
					fi, err := os.Lstat(filepath.Join(root, filepath.Join(names[:i+1]...)))
					if err != nil {
						break
					}
					fis = append(fis, fi)
				}
				existing := len(fis)
				for _, inplace := range []bool{false, true} {
					res.Evals++
					src, dst := uint32(0), uint32(5)
					if inplace {
						cl.Rpc(twalk(4, 0, 6))
						src, dst = 6, 6
					}
					r := cl.Rpc(twalk(4, src, dst, names...))
					switch {
					case r == nil:
						fail("walk-no-reply", fmt.Sprintf("no reply to Twalk %v", names))
					case existing == 0 && r.Type != wire.Rerror:
						fail("walk-first-missing-not-error", fmt.Sprintf("Twalk %v whose first element cannot be looked up answered by %s", names, r))
					case existing > 0 && (r.Type != wire.Rwalk || len(r.Wqid) != existing):
						fail("walk-qid-count", fmt.Sprintf("Twalk %v: lstat by the same user succeeds for %d leading elements, reply %s", names, existing, r))
					case existing > 0:
						for i, q := range r.Wqid {
							if q.Path != fis[i].Sys().(*syscall.Stat_t).Ino || (q.Type&0x80 != 0) != fis[i].IsDir() {
								fail("walk-qid-mismatch", fmt.Sprintf("Twalk %v: qid %d %v does not match lstat", names, i, q))
							}
						}
					}
					sd := cl.Rpc(&wire.Msg{Type: wire.Tstat, Tag: 9, Fid: dst})
					complete := r != nil && r.Type == wire.Rwalk && existing == len(names)
					switch {
					case complete:
						if sd == nil || sd.Type != wire.Rstat {
							fail("newfid-unusable-after-full-walk", fmt.Sprintf("after a complete Twalk %v the fid answers %v", names, sd))
						} else if p := c16CheckStat(&sd.Stat, fis[existing-1], names[len(names)-1], dotu); p != "" {
							fail("stat-mismatch/"+sigWords(p), fmt.Sprintf("Tstat after Twalk %v: %s", names, p))
						}
					case inplace:
						if sd == nil || sd.Type != wire.Rstat || c16CheckStat(&sd.Stat, rootFi, filepath.Base(root), dotu) != "" {
							fail("fid-moved-by-partial-in-place-walk", fmt.Sprintf("after a partial in-place Twalk %v (%d elements can be looked up) the fid answers %v", names, existing, sd))
						}
					default:
						if sd == nil || sd.Type != wire.Rerror {
							fail("newfid-valid-after-partial-walk", fmt.Sprintf("after a partial Twalk %v the new fid answers %v", names, sd))
						}
					}
					cl.Rpc(&wire.Msg{Type: wire.Tclunk, Tag: 4, Fid: dst})
				}
			}
		}
		x := vs.Run(nil, body, vs.Options{Horizon: 500000000})
		if len(x.Panics) > 0 {
			fail("panic/"+x.Panics[0].Frame, "panic: "+x.Panics[0].Value)
		}
		res.Nontrivial = res.Evals
		res.Samples = append(res.Samples, fmt.Sprintf("%d element lists over %v, to a new fid and in place, server run by uid %d", len(lists), alpha, os.Geteuid()))
		return res
	}}
}
