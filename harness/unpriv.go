package main

import (
	"os"
	"path/filepath"
	"syscall"
)

// asOrdinaryUser: the file server (and the twin operations of the oracle) run as an
// ordinary user, so that the host refuses things (EACCES) -- the superuser is never
// refused. When the harness runs as root it gives up its effective ids for the time of
// the scenario (the whole process: a worker runs one scenario at a time) and takes them
// back afterwards; when it does not run as root there is nothing to do.
func asOrdinaryUser() (restore func()) {
	if os.Geteuid() != 0 || os.Getenv("VERIF_NO_DROP") == "1" {
		return func() {}
	}
	groups, _ := syscall.Getgroups()
	syscall.Setgroups([]int{65534})
	syscall.Setegid(65534)
	syscall.Seteuid(65534)
	return func() {
		syscall.Seteuid(0)
		syscall.Setegid(0)
		syscall.Setgroups(groups)
	}
}

// openUp makes the scratch directories leading to root searchable by everybody.
func openUp(base, root string) {
	for p := root; len(p) >= len(base); p = filepath.Dir(p) {
		os.Chmod(p, 0o755)
	}
}
