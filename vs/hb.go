package vs

import (
	"fmt"
	"sort"
	"unsafe"
)

// Happens-before monitor: a vector-clock data-race detector evaluated on every
// explored schedule. It mirrors the edges the Go race detector derives
// (mutexes, channels incl. the capacity edge, go statements, WaitGroup,
// atomics, and the standard library's global I/O synchronisation) and checks
// the memory accesses reported by the instrumented code.

type vclock []uint32

func (a vclock) join(b vclock) vclock {
	a = a.copyOf() // snapshots stored in sync objects are shared and immutable
	for len(a) < len(b) {
		a = append(a, 0)
	}
	for i, v := range b {
		if v > a[i] {
			a[i] = v
		}
	}
	return a
}

func (a vclock) copyOf() vclock { return append(vclock(nil), a...) }

type cell struct {
	g     int
	clk   uint32
	off   uint8
	size  uint8
	write bool
	atom  bool
	site  string
}

// Race is one detected data race.
type Race struct {
	SiteA, SiteB string
	WriteA, WriteB bool
	GA, GB int
	Addr uintptr
}

func (r Race) Key() string {
	a, b := r.SiteA, r.SiteB
	if a > b {
		a, b = b, a
	}
	return a + " <-> " + b
}

func (r Race) String() string {
	k := func(w bool) string {
		if w {
			return "write"
		}
		return "read"
	}
	return fmt.Sprintf("%s at %s (goroutine %d) races with %s at %s (goroutine %d)", k(r.WriteA), r.SiteA, r.GA, k(r.WriteB), r.SiteB, r.GB)
}

type hbState struct {
	vc      []vclock // per goroutine
	shadow  map[uintptr][]cell
	pins    []unsafe.Pointer
	ioSync  vclock
	atomics map[uintptr]vclock
	races   map[string]Race
	maps    map[unsafe.Pointer]uintptr
	Accesses int64
	fine     bool     // every tracked access of the instrumented code is a scheduling point of its own
	relCache []vclock // per goroutine: last released snapshot, valid while the goroutine neither accessed memory nor acquired
}

// EnableHB switches the monitor on for the execution that is starting (call
// first thing in the harness body).
func EnableHB() {
	e := ex
	if e == nil {
		return
	}
	e.hb = &hbState{shadow: map[uintptr][]cell{}, atomics: map[uintptr]vclock{}, races: map[string]Race{}, maps: map[unsafe.Pointer]uintptr{}}
	for range e.gs {
		e.hb.vc = append(e.hb.vc, vclock{})
	}
	e.hb.tick(e.cur.id)
}

// EnableHBFine switches the monitor on and, inside the exploration window, makes
// every tracked memory access of the instrumented code a scheduling point: two
// goroutines then interleave at the granularity of their accesses to shared data, so
// that the effect of an unsynchronised access (not only its existence) is explored.
// For small scenarios only.
func EnableHBFine() {
	EnableHB()
	if e := ex; e != nil && e.hb != nil {
		e.hb.fine = true
	}
}

func finePoint() {
	if e := ex; e != nil && e.hb != nil && e.hb.fine && !e.dead && e.window {
		e.point(op{kind: KYield})
	}
}

// Races returns the races found in the execution, sorted by site pair.
func (e *Exec) Races() []Race {
	if e.hb == nil {
		return nil
	}
	var ks []string
	for k := range e.hb.races {
		ks = append(ks, k)
	}
	sort.Strings(ks)
	var out []Race
	for _, k := range ks {
		out = append(out, e.hb.races[k])
	}
	return out
}

func (e *Exec) HBAccesses() int64 {
	if e.hb == nil {
		return 0
	}
	return e.hb.Accesses
}

func (h *hbState) clock(g int) vclock {
	for len(h.vc) <= g {
		h.vc = append(h.vc, vclock{})
	}
	return h.vc[g]
}

func (h *hbState) tick(g int) {
	c := h.clock(g)
	for len(c) <= g {
		c = append(c, 0)
	}
	c[g]++
	h.vc[g] = c
}

func (h *hbState) invalidate(g int) {
	if g < len(h.relCache) {
		h.relCache[g] = nil
	}
}

func (h *hbState) acquire(g int, from vclock) {
	if from == nil {
		return
	}
	h.vc[g] = h.clock(g).join(from)
	h.invalidate(g)
}

// release returns a snapshot of g's clock (to be stored in a sync object; never
// modified afterwards) and advances g. Consecutive releases without an access or
// acquire in between publish nothing new and share one snapshot.
func (h *hbState) release(g int) vclock {
	for len(h.relCache) <= g {
		h.relCache = append(h.relCache, nil)
	}
	if c := h.relCache[g]; c != nil {
		return c
	}
	c := h.clock(g).copyOf()
	h.tick(g)
	h.relCache[g] = c
	return c
}

func (h *hbState) fork(parent, child int) {
	c := h.clock(parent).copyOf()
	for len(h.vc) <= child {
		h.vc = append(h.vc, vclock{})
	}
	h.vc[child] = c
	h.tick(child)
	h.tick(parent)
}

func (h *hbState) happensBefore(c cell, g int) bool {
	vc := h.clock(g)
	return c.g < len(vc) && c.clk <= vc[c.g]
}

func (h *hbState) access(e *Exec, p unsafe.Pointer, size uintptr, write, atom bool, site string) {
	if size == 0 || p == nil {
		return
	}
	g := e.cur.id
	h.Accesses++
	h.invalidate(g)
	vc := h.clock(g)
	for len(vc) <= g {
		vc = append(vc, 0)
	}
	h.vc[g] = vc
	my := vc[g]
	if my == 0 {
		h.tick(g)
		my = h.vc[g][g]
	}
	addr := uintptr(p)
	end := addr + size
	pinned := false
	for gran := addr &^ 7; gran < end; gran += 8 {
		lo, hi := uintptr(0), uintptr(8)
		if gran < addr {
			lo = addr - gran
		}
		if gran+8 > end {
			hi = end - gran
		}
		cells, known := h.shadow[gran]
		if !known && !pinned {
			h.pin(p) // keep the object alive so that the address is not reused within the execution
			pinned = true
		}
		kept := cells[:0]
		for _, c := range cells {
			overlap := uintptr(c.off) < hi && lo < uintptr(c.off)+uintptr(c.size)
			if overlap && c.g != g && (write || c.write) && !(atom && c.atom) && !h.happensBefore(c, g) {
				r := Race{SiteA: site, SiteB: c.site, WriteA: write, WriteB: c.write, GA: g, GB: c.g, Addr: gran}
				if _, dup := h.races[r.Key()]; !dup {
					h.races[r.Key()] = r
				}
			}
			// drop cells this access supersedes: same goroutine, covered range, not stronger
			if c.g == g && uintptr(c.off) >= lo && uintptr(c.off)+uintptr(c.size) <= hi && (write || !c.write) {
				continue
			}
			// a write by g that happens after c makes c irrelevant for later conflicts
			if write && overlap && h.happensBefore(c, g) && uintptr(c.off) >= lo && uintptr(c.off)+uintptr(c.size) <= hi {
				continue
			}
			kept = append(kept, c)
		}
		if len(kept) >= 6 {
			kept = kept[1:]
		}
		kept = append(kept, cell{g: g, clk: my, off: uint8(lo), size: uint8(hi - lo), write: write, atom: atom, site: site})
		h.shadow[gran] = kept
	}
}

func (h *hbState) pin(p unsafe.Pointer) { h.pins = append(h.pins, p) }

// --- entry points used by instrumented code -----------------------------------

// Rd records a read of *p and returns p.
func Rd[T any](p *T, site string) *T {
	finePoint()
	if e := ex; e != nil && e.hb != nil && !e.dead && p != nil {
		e.hb.access(e, unsafe.Pointer(p), unsafe.Sizeof(*p), false, false, site)
	}
	return p
}

// Wr records a write of *p and returns p.
func Wr[T any](p *T, site string) *T {
	finePoint()
	if e := ex; e != nil && e.hb != nil && !e.dead && p != nil {
		e.hb.access(e, unsafe.Pointer(p), unsafe.Sizeof(*p), true, false, site)
	}
	return p
}

func mapID[K comparable, V any](m map[K]V) unsafe.Pointer {
	return *(*unsafe.Pointer)(unsafe.Pointer(&m))
}

// MR records a read of the map as a whole and returns it.
func MR[K comparable, V any](m map[K]V, site string) map[K]V {
	finePoint()
	if e := ex; e != nil && e.hb != nil && !e.dead && m != nil {
		p := mapID(m)
		e.hb.pin(p)
		e.hb.access(e, p, 8, false, false, "map@"+site)
	}
	return m
}

// MW records a write of the map as a whole and returns it.
func MW[K comparable, V any](m map[K]V, site string) map[K]V {
	finePoint()
	if e := ex; e != nil && e.hb != nil && !e.dead && m != nil {
		p := mapID(m)
		e.hb.pin(p)
		e.hb.access(e, p, 8, true, false, "map@"+site)
	}
	return m
}

func rangeAccess[T any](s []T, write bool, site string) {
	if e := ex; e != nil && e.hb != nil && !e.dead && len(s) > 0 {
		p := unsafe.Pointer(&s[0])
		e.hb.pin(p)
		var z T
		e.hb.access(e, p, uintptr(len(s))*unsafe.Sizeof(z), write, false, site)
	}
}

// RangeR / RangeW record an access to all elements of s and return s.
func RangeR[T any](s []T, site string) []T { rangeAccess(s, false, site); return s }
func RangeW[T any](s []T, site string) []T { rangeAccess(s, true, site); return s }

// StrOf converts bytes to a string, recording the read.
func StrOf(b []byte, site string) string { rangeAccess(b, false, site); return string(b) }

// Copy is the instrumented builtin copy.
func Copy[T any](dst, src []T, site string) int {
	n := len(dst)
	if len(src) < n {
		n = len(src)
	}
	rangeAccess(src[:n], false, site)
	rangeAccess(dst[:n], true, site)
	return copy(dst, src)
}

// CopyStr is copy(dst, string).
func CopyStr(dst []byte, src string, site string) int {
	n := len(dst)
	if len(src) < n {
		n = len(src)
	}
	rangeAccess(dst[:n], true, site)
	return copy(dst, src)
}

// IORead / IOWrite mirror the race annotations of syscall.Read / syscall.Write:
// a global acquire resp. release-merge, plus the access to the buffer.
func IORead[T any](s []T, site string) []T {
	if e := ex; e != nil && e.hb != nil && !e.dead {
		rangeAccess(s, true, site)
		e.hb.acquire(e.cur.id, e.hb.ioSync)
	}
	return s
}

func IOWrite[T any](s []T, site string) []T {
	if e := ex; e != nil && e.hb != nil && !e.dead {
		rangeAccess(s, false, site)
		e.hb.ioSync = e.hb.ioSync.join(e.hb.clock(e.cur.id))
		e.hb.tick(e.cur.id)
	}
	return s
}

// IOReadP / IOWriteP are used for file I/O (os.File and friends): a system call is a
// place where the Go scheduler switches goroutines, so it is a scheduling point of
// its own while the monitor is on. Without it everything between a goroutine's last
// lock operation and its file I/O would be atomic, and an unsynchronised access by
// another goroutine could never fall in between.
func IOReadP[T any](s []T, site string) []T {
	if e := ex; e != nil && e.hb != nil && !e.dead {
		e.point(op{kind: KYield})
	}
	return IORead(s, site)
}

func IOWriteP[T any](s []T, site string) []T {
	if e := ex; e != nil && e.hb != nil && !e.dead {
		e.point(op{kind: KYield})
	}
	return IOWrite(s, site)
}

// IORelease mirrors output through log / fmt (a write system call).
func IORelease() {
	if e := ex; e != nil && e.hb != nil && !e.dead {
		e.hb.ioSync = e.hb.ioSync.join(e.hb.clock(e.cur.id))
		e.hb.tick(e.cur.id)
	}
}

// --- hooks called by the scheduler ----------------------------------------------

func (e *Exec) hbAtomic(addr unsafe.Pointer, size uintptr, write bool) {
	h := e.hb
	if h == nil {
		return
	}
	g := e.cur.id
	a := uintptr(addr)
	h.acquire(g, h.atomics[a])
	h.access(e, addr, size, write, true, "atomic")
	h.atomics[a] = h.clock(g).copyOf().join(h.atomics[a])
	h.tick(g)
}
