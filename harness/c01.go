package main

import (
	"hash/adler32"
	"hash/crc32"
	"hash/fnv"
	"bytes"
	"fmt"
	"reflect"
	"strings"

	"github.com/rminnich/go9p"
	"harness/wire"
)

// C01: wire-format fidelity. Bounded-exhaustive enumeration of field values per
// message type and dialect against the independent codec.

var (
	dU8  = []any{uint8(0), uint8(1), uint8(0x7F), uint8(0x80), uint8(0xFF)}
	dU16 = []any{uint16(0), uint16(1), uint16(0x0102), uint16(0x7FFF), uint16(0x8000), uint16(0xFFFF)}
	dU32 = []any{uint32(0), uint32(1), uint32(0x01020304), uint32(0x7FFFFFFF), uint32(0x80000000), uint32(0xFFFFFFFF)}
	dU64 = []any{uint64(0), uint64(1), uint64(0x0102030405060708), uint64(0x7FFFFFFFFFFFFFFF), uint64(0x8000000000000000), uint64(0xFFFFFFFFFFFFFFFF)}
)

func strOf(n int, class int) string {
	b := make([]byte, n)
	for i := range b {
		switch class {
		case 0:
			b[i] = byte('a' + i%26)
		case 1:
			b[i] = 0
		case 2:
			b[i] = 0xFF
		case 3:
			b[i] = "héλ→"[i%len("héλ→")]
		case 4:
			b[i] = []byte{0xC3, 0x28, 0xA0, 0xE2, 0x82}[i%5]
		}
	}
	return string(b)
}

func dStr(thorough bool) []any {
	lens := []int{0, 1, 2, 3, 255, 256}
	if thorough {
		lens = append(lens, 65535)
	}
	var out []any
	for _, n := range lens {
		for c := 0; c < 5; c++ {
			if n == 0 && c > 0 {
				continue
			}
			if n == 65535 && c != 0 && c != 2 {
				continue
			}
			out = append(out, strOf(n, c))
		}
	}
	return out
}

func dQid() []any {
	var out []any
	for _, t := range []uint8{0, 0x80, 0xFF, 0x02} {
		for _, v := range []uint32{0, 0x01020304, 0xFFFFFFFF} {
			for _, p := range []uint64{0, 0x0102030405060708, 0xFFFFFFFFFFFFFFFF} {
				out = append(out, wire.Qid{Type: t, Vers: v, Path: p})
			}
		}
	}
	return out
}

// enumProduct calls f for the full product of the domains if it has at most
// cap elements; otherwise for every single-field deviation from three base
// vectors plus all pairs over the fields marked in pair (lengths interact
// through offsets). It returns the number of cases and whether it was the full product.
func enumProduct(doms [][]any, pair []bool, cap int, f func(v []any)) (int, bool) {
	total := 1
	for _, d := range doms {
		total *= len(d)
		if total > cap {
			break
		}
	}
	n := 0
	v := make([]any, len(doms))
	if total <= cap {
		var rec func(i int)
		rec = func(i int) {
			if i == len(doms) {
				f(v)
				n++
				return
			}
			for _, x := range doms[i] {
				v[i] = x
				rec(i + 1)
			}
		}
		rec(0)
		return n, true
	}
	bases := [][]int{}
	for _, sel := range []int{0, 1, 2} {
		b := make([]int, len(doms))
		for i, d := range doms {
			switch sel {
			case 0:
				b[i] = 0
			case 1:
				b[i] = len(d) / 2
			case 2:
				b[i] = len(d) - 1
			}
		}
		bases = append(bases, b)
	}
	for _, b := range bases {
		for i := range doms {
			for j := range doms[i] {
				for k := range doms {
					v[k] = doms[k][b[k]]
				}
				v[i] = doms[i][j]
				f(v)
				n++
			}
		}
	}
	for i := range doms {
		for j := i + 1; j < len(doms); j++ {
			if !pair[i] || !pair[j] {
				continue
			}
			for _, x := range doms[i] {
				for _, y := range doms[j] {
					for k := range doms {
						v[k] = doms[k][bases[1][k]]
					}
					v[i], v[j] = x, y
					f(v)
					n++
				}
			}
		}
	}
	return n, false
}

func toDir(s *wire.Stat) *go9p.Dir {
	return &go9p.Dir{Size: s.Size, Type: s.Type, Dev: s.Dev, Qid: go9p.Qid{Type: s.Qid.Type, Version: s.Qid.Vers, Path: s.Qid.Path}, Mode: s.Mode, Atime: s.Atime, Mtime: s.Mtime, Length: s.Length, Name: s.Name, Uid: s.Uid, Gid: s.Gid, Muid: s.Muid, Ext: s.Ext, Uidnum: s.NUid, Gidnum: s.NGid, Muidnum: s.NMuid}
}

func gq(q wire.Qid) go9p.Qid { return go9p.Qid{Type: q.Type, Version: q.Vers, Path: q.Path} }

// packWith calls the go9p constructor for m.
func packWith(fc *go9p.Fcall, m *wire.Msg, dotu bool) error {
	switch m.Type {
	case wire.Tversion:
		return go9p.PackTversion(fc, m.Msize, m.Version)
	case wire.Rversion:
		return go9p.PackRversion(fc, m.Msize, m.Version)
	case wire.Tauth:
		return go9p.PackTauth(fc, m.Afid, m.Uname, m.Aname, m.NUname, dotu)
	case wire.Rauth:
		q := gq(m.Qid)
		return go9p.PackRauth(fc, &q)
	case wire.Tattach:
		return go9p.PackTattach(fc, m.Fid, m.Afid, m.Uname, m.Aname, m.NUname, dotu)
	case wire.Rattach:
		q := gq(m.Qid)
		return go9p.PackRattach(fc, &q)
	case wire.Rerror:
		return go9p.PackRerror(fc, m.Ename, m.Errno, dotu)
	case wire.Tflush:
		return go9p.PackTflush(fc, m.Oldtag)
	case wire.Rflush:
		return go9p.PackRflush(fc)
	case wire.Twalk:
		return go9p.PackTwalk(fc, m.Fid, m.Newfid, m.Wname)
	case wire.Rwalk:
		qs := make([]go9p.Qid, len(m.Wqid))
		for i, q := range m.Wqid {
			qs[i] = gq(q)
		}
		return go9p.PackRwalk(fc, qs)
	case wire.Topen:
		return go9p.PackTopen(fc, m.Fid, m.Mode)
	case wire.Ropen:
		q := gq(m.Qid)
		return go9p.PackRopen(fc, &q, m.Iounit)
	case wire.Tcreate:
		return go9p.PackTcreate(fc, m.Fid, m.Name, m.Perm, m.Mode, m.Ext, dotu)
	case wire.Rcreate:
		q := gq(m.Qid)
		return go9p.PackRcreate(fc, &q, m.Iounit)
	case wire.Tread:
		return go9p.PackTread(fc, m.Fid, m.Offset, m.Count)
	case wire.Rread:
		return go9p.PackRread(fc, m.Data)
	case wire.Twrite:
		return go9p.PackTwrite(fc, m.Fid, m.Offset, uint32(len(m.Data)), m.Data)
	case wire.Rwrite:
		return go9p.PackRwrite(fc, m.Count)
	case wire.Tclunk:
		return go9p.PackTclunk(fc, m.Fid)
	case wire.Rclunk:
		return go9p.PackRclunk(fc)
	case wire.Tremove:
		return go9p.PackTremove(fc, m.Fid)
	case wire.Rremove:
		return go9p.PackRremove(fc)
	case wire.Tstat:
		return go9p.PackTstat(fc, m.Fid)
	case wire.Rstat:
		return go9p.PackRstat(fc, toDir(&m.Stat), dotu)
	case wire.Twstat:
		return go9p.PackTwstat(fc, m.Fid, toDir(&m.Stat), dotu)
	case wire.Rwstat:
		return go9p.PackRwstat(fc)
	}
	return fmt.Errorf("no constructor for type %d", m.Type)
}

func cmpDir(s *wire.Stat, d *go9p.Dir, dotu bool, checkSize bool) string {
	var diffs []string
	chk := func(n string, a, b any) {
		if !reflect.DeepEqual(a, b) {
			diffs = append(diffs, fmt.Sprintf("%s: want %v got %v", n, trunc(a), trunc(b)))
		}
	}
	if checkSize {
		chk("stat.size", s.Size, d.Size)
	}
	chk("stat.type", s.Type, d.Type)
	chk("stat.dev", s.Dev, d.Dev)
	chk("stat.qid", gq(s.Qid), d.Qid)
	chk("stat.mode", s.Mode, d.Mode)
	chk("stat.atime", s.Atime, d.Atime)
	chk("stat.mtime", s.Mtime, d.Mtime)
	chk("stat.length", s.Length, d.Length)
	chk("stat.name", s.Name, d.Name)
	chk("stat.uid", s.Uid, d.Uid)
	chk("stat.gid", s.Gid, d.Gid)
	chk("stat.muid", s.Muid, d.Muid)
	if dotu {
		chk("stat.ext", s.Ext, d.Ext)
		chk("stat.n_uid", s.NUid, d.Uidnum)
		chk("stat.n_gid", s.NGid, d.Gidnum)
		chk("stat.n_muid", s.NMuid, d.Muidnum)
	}
	return strings.Join(diffs, "; ")
}

func trunc(a any) string {
	s := fmt.Sprintf("%v", a)
	if len(s) > 60 {
		s = fmt.Sprintf("%.40q...(%d bytes)", s, len(s))
	}
	return s
}

// cmpFcall compares the decoded Fcall with the expected values, field by field
// as named by the wire layout.
func cmpFcall(m *wire.Msg, fc *go9p.Fcall, dotu bool) string {
	var diffs []string
	chk := func(n string, a, b any) {
		if !reflect.DeepEqual(a, b) {
			diffs = append(diffs, fmt.Sprintf("%s: want %v got %v", n, trunc(a), trunc(b)))
		}
	}
	chk("type", m.Type, fc.Type)
	chk("tag", m.Tag, fc.Tag)
	for _, f := range wire.Layout(m.Type, dotu) {
		switch f {
		case "Msize":
			chk(f, m.Msize, fc.Msize)
		case "Version":
			chk(f, m.Version, fc.Version)
		case "Afid":
			chk(f, m.Afid, fc.Afid)
		case "Fid":
			chk(f, m.Fid, fc.Fid)
		case "Newfid":
			chk(f, m.Newfid, fc.Newfid)
		case "Uname":
			chk(f, m.Uname, fc.Uname)
		case "Aname":
			chk(f, m.Aname, fc.Aname)
		case "NUname":
			chk(f, m.NUname, fc.Unamenum)
		case "Qid":
			chk(f, gq(m.Qid), fc.Qid)
		case "Ename":
			chk(f, m.Ename, fc.Error)
		case "Errno":
			chk(f, m.Errno, fc.Errornum)
		case "Oldtag":
			chk(f, m.Oldtag, fc.Oldtag)
		case "Wname":
			if len(m.Wname) != len(fc.Wname) {
				chk(f+".len", len(m.Wname), len(fc.Wname))
			} else {
				for i := range m.Wname {
					chk(fmt.Sprintf("%s[%d]", f, i), m.Wname[i], fc.Wname[i])
				}
			}
		case "Wqid":
			if len(m.Wqid) != len(fc.Wqid) {
				chk(f+".len", len(m.Wqid), len(fc.Wqid))
			} else {
				for i := range m.Wqid {
					chk(fmt.Sprintf("%s[%d]", f, i), gq(m.Wqid[i]), fc.Wqid[i])
				}
			}
		case "Mode":
			chk(f, m.Mode, fc.Mode)
		case "Iounit":
			chk(f, m.Iounit, fc.Iounit)
		case "Name":
			chk(f, m.Name, fc.Name)
		case "Perm":
			chk(f, m.Perm, fc.Perm)
		case "Ext":
			chk(f, m.Ext, fc.Ext)
		case "Offset":
			chk(f, m.Offset, fc.Offset)
		case "Count":
			chk(f, m.Count, fc.Count)
		case "Data":
			chk("count", uint32(len(m.Data)), fc.Count)
			if !bytes.Equal(m.Data, fc.Data) {
				diffs = append(diffs, fmt.Sprintf("data: want %d bytes got %d bytes (or contents differ)", len(m.Data), len(fc.Data)))
			}
		case "Stat":
			if d := cmpDir(&m.Stat, &fc.Dir, dotu, false); d != "" {
				diffs = append(diffs, d)
			}
		}
	}
	return strings.Join(diffs, "; ")
}

type c01Gen struct {
	typ  uint8
	doms func(th bool) ([][]any, []bool)
	mk   func(v []any) *wire.Msg
}

func statDoms(th bool) ([][]any, []bool) {
	s := dStr(false)
	if th {
		s = append(s, strOf(5000, 0))
	}
	short := []any{"", "x", strOf(255, 3)}
	return [][]any{dU16, dU32, dQid()[:6], dU32, dU32[:3], dU32[:3], dU64, s, short, short, s, short, dU32, dU32[:2], dU32[:2]},
		[]bool{false, false, false, false, false, false, false, true, true, true, true, true, false, false, false}
}

func mkStat(v []any, dotu bool) wire.Stat {
	st := wire.Stat{Type: v[0].(uint16), Dev: v[1].(uint32), Qid: v[2].(wire.Qid), Mode: v[3].(uint32), Atime: v[4].(uint32), Mtime: v[5].(uint32), Length: v[6].(uint64), Name: v[7].(string), Uid: v[8].(string), Gid: v[9].(string), Muid: v[10].(string)}
	if dotu {
		st.Ext, st.NUid, st.NGid, st.NMuid = v[11].(string), v[12].(uint32), v[13].(uint32), v[14].(uint32)
	}
	return st
}

func walkNames(th bool) []any {
	var out []any
	ns := []int{0, 1, 2, 3, 16, 17}
	if th {
		ns = []int{0, 1, 2, 3, 4, 5, 6, 7, 8, 9, 10, 11, 12, 13, 14, 15, 16, 17, 300}
	}
	for _, n := range ns {
		for cls := 0; cls < 3; cls++ {
			w := make([]string, n)
			for i := range w {
				switch cls {
				case 0:
					w[i] = fmt.Sprintf("n%d", i)
				case 1:
					w[i] = strOf(i%4, i%5)
				case 2:
					w[i] = strOf(255-(i%3), 2)
				}
			}
			out = append(out, w)
			if n == 0 {
				break
			}
		}
	}
	return out
}

func walkQids(th bool) []any {
	var out []any
	ns := []int{0, 1, 2, 16, 17}
	if th {
		ns = []int{0, 1, 2, 3, 4, 5, 6, 7, 8, 9, 10, 11, 12, 13, 14, 15, 16, 17, 300}
	}
	q := dQid()
	for _, n := range ns {
		w := make([]wire.Qid, n)
		for i := range w {
			w[i] = q[(i*7+n)%len(q)].(wire.Qid)
		}
		out = append(out, w)
	}
	return out
}

func payloads(th bool) []any {
	lens := []int{0, 1, 2, 7, 255, 256, 4096}
	if th {
		lens = append(lens, 65535, 65536, 1<<20)
	}
	var out []any
	for _, n := range lens {
		b := make([]byte, n)
		for i := range b {
			b[i] = byte(i*31 + n)
		}
		out = append(out, b)
	}
	return out
}

func c01Gens() []c01Gen {
	str := func(th bool) []any { return dStr(th) }
	none := func(bool) ([][]any, []bool) { return nil, nil }
	fidOnly := func(bool) ([][]any, []bool) { return [][]any{dU32}, []bool{false} }
	return []c01Gen{
		{wire.Tversion, func(th bool) ([][]any, []bool) { return [][]any{dU32, str(th)}, []bool{false, true} }, func(v []any) *wire.Msg { return &wire.Msg{Msize: v[0].(uint32), Version: v[1].(string)} }},
		{wire.Rversion, func(th bool) ([][]any, []bool) { return [][]any{dU32, str(th)}, []bool{false, true} }, func(v []any) *wire.Msg { return &wire.Msg{Msize: v[0].(uint32), Version: v[1].(string)} }},
		{wire.Tauth, func(th bool) ([][]any, []bool) {
			return [][]any{dU32, str(th), str(th), dU32}, []bool{false, true, true, false}
		}, func(v []any) *wire.Msg {
			return &wire.Msg{Afid: v[0].(uint32), Uname: v[1].(string), Aname: v[2].(string), NUname: v[3].(uint32), HasNUname: true}
		}},
		{wire.Rauth, func(bool) ([][]any, []bool) { return [][]any{dQid()}, []bool{false} }, func(v []any) *wire.Msg { return &wire.Msg{Qid: v[0].(wire.Qid)} }},
		{wire.Tattach, func(th bool) ([][]any, []bool) {
			return [][]any{dU32, dU32, str(th), str(th), dU32}, []bool{false, false, true, true, false}
		}, func(v []any) *wire.Msg {
			return &wire.Msg{Fid: v[0].(uint32), Afid: v[1].(uint32), Uname: v[2].(string), Aname: v[3].(string), NUname: v[4].(uint32), HasNUname: true}
		}},
		{wire.Rattach, func(bool) ([][]any, []bool) { return [][]any{dQid()}, []bool{false} }, func(v []any) *wire.Msg { return &wire.Msg{Qid: v[0].(wire.Qid)} }},
		{wire.Rerror, func(th bool) ([][]any, []bool) { return [][]any{str(th), dU32}, []bool{true, false} }, func(v []any) *wire.Msg { return &wire.Msg{Ename: v[0].(string), Errno: v[1].(uint32)} }},
		{wire.Tflush, func(bool) ([][]any, []bool) { return [][]any{dU16}, []bool{false} }, func(v []any) *wire.Msg { return &wire.Msg{Oldtag: v[0].(uint16)} }},
		{wire.Rflush, none, func(v []any) *wire.Msg { return &wire.Msg{} }},
		{wire.Twalk, func(th bool) ([][]any, []bool) { return [][]any{dU32, dU32, walkNames(th)}, []bool{false, false, true} }, func(v []any) *wire.Msg {
			return &wire.Msg{Fid: v[0].(uint32), Newfid: v[1].(uint32), Wname: v[2].([]string)}
		}},
		{wire.Rwalk, func(th bool) ([][]any, []bool) { return [][]any{walkQids(th)}, []bool{true} }, func(v []any) *wire.Msg { return &wire.Msg{Wqid: v[0].([]wire.Qid)} }},
		{wire.Topen, func(bool) ([][]any, []bool) { return [][]any{dU32, dU8}, []bool{false, false} }, func(v []any) *wire.Msg { return &wire.Msg{Fid: v[0].(uint32), Mode: v[1].(uint8)} }},
		{wire.Ropen, func(bool) ([][]any, []bool) { return [][]any{dQid(), dU32}, []bool{false, false} }, func(v []any) *wire.Msg { return &wire.Msg{Qid: v[0].(wire.Qid), Iounit: v[1].(uint32)} }},
		{wire.Tcreate, func(th bool) ([][]any, []bool) {
			return [][]any{dU32, str(th), dU32, dU8, str(th)}, []bool{false, true, false, false, true}
		}, func(v []any) *wire.Msg {
			return &wire.Msg{Fid: v[0].(uint32), Name: v[1].(string), Perm: v[2].(uint32), Mode: v[3].(uint8), Ext: v[4].(string)}
		}},
		{wire.Rcreate, func(bool) ([][]any, []bool) { return [][]any{dQid(), dU32}, []bool{false, false} }, func(v []any) *wire.Msg { return &wire.Msg{Qid: v[0].(wire.Qid), Iounit: v[1].(uint32)} }},
		{wire.Tread, func(bool) ([][]any, []bool) { return [][]any{dU32, dU64, dU32}, []bool{false, false, false} }, func(v []any) *wire.Msg {
			return &wire.Msg{Fid: v[0].(uint32), Offset: v[1].(uint64), Count: v[2].(uint32)}
		}},
		{wire.Rread, func(th bool) ([][]any, []bool) { return [][]any{payloads(th)}, []bool{true} }, func(v []any) *wire.Msg { return &wire.Msg{Data: v[0].([]byte)} }},
		{wire.Twrite, func(th bool) ([][]any, []bool) { return [][]any{dU32, dU64, payloads(th)}, []bool{false, false, true} }, func(v []any) *wire.Msg {
			return &wire.Msg{Fid: v[0].(uint32), Offset: v[1].(uint64), Data: v[2].([]byte)}
		}},
		{wire.Rwrite, func(bool) ([][]any, []bool) { return [][]any{dU32}, []bool{false} }, func(v []any) *wire.Msg { return &wire.Msg{Count: v[0].(uint32)} }},
		{wire.Tclunk, fidOnly, func(v []any) *wire.Msg { return &wire.Msg{Fid: v[0].(uint32)} }},
		{wire.Rclunk, none, func(v []any) *wire.Msg { return &wire.Msg{} }},
		{wire.Tremove, fidOnly, func(v []any) *wire.Msg { return &wire.Msg{Fid: v[0].(uint32)} }},
		{wire.Rremove, none, func(v []any) *wire.Msg { return &wire.Msg{} }},
		{wire.Tstat, fidOnly, func(v []any) *wire.Msg { return &wire.Msg{Fid: v[0].(uint32)} }},
		{wire.Rstat, statDoms, nil},
		{wire.Twstat, func(th bool) ([][]any, []bool) {
			d, p := statDoms(th)
			return append([][]any{dU32}, d...), append([]bool{false}, p...)
		}, nil},
		{wire.Rwstat, none, func(v []any) *wire.Msg { return &wire.Msg{} }},
	}
}

func c01Scenario(g c01Gen, dotu bool) Scenario {
	name := fmt.Sprintf("%s dotu=%v", wire.Names[g.typ], dotu)
	return Scenario{Name: name, Run: func(c *RunCtx) *Result {
		res := &Result{Exhaustive: true, Bounds: map[string]any{}}
		th := c.Thorough()
		doms, pair := g.doms(th)
		capN := 100000
		if th {
			capN = 3000000
		}
		seen := map[string]bool{}
		junk := []byte{0xAA, 0x55, 0, 0xFF, 1, 2, 3, 4, 5, 6, 7, 8}
		tags := []uint16{0, 1, 0x0102, 0xFFFF}
		fail := func(sig, msg string, m *wire.Msg) {
			if seen[sig] {
				return
			}
			seen[sig] = true
			res.Findings = append(res.Findings, Finding{Sig: sig, Msg: msg + "\ncase: " + trunc(m.String())})
		}
		ncase := 0
		one := func(v []any) {
			if len(res.Findings) > 8 {
				return
			}
			var m *wire.Msg
			switch g.typ {
			case wire.Rstat:
				m = &wire.Msg{Stat: mkStat(v, dotu)}
			case wire.Twstat:
				m = &wire.Msg{Fid: v[0].(uint32), Stat: mkStat(v[1:], dotu)}
			default:
				m = g.mk(v)
			}
			m.Type = g.typ
			m.Tag = wire.NOTAG
			if !dotu {
				m.HasNUname = false
				m.Ext = ""
			}
			want := wire.Encode(m, dotu)
			if (g.typ == wire.Rstat || g.typ == wire.Twstat) && len(wire.EncodeStat(&m.Stat, dotu)) > 65535 {
				return // not representable
			}
			m.Stat.Size = uint16(len(wire.EncodeStat(&m.Stat, dotu)) - 2)
			ncase++
			if len(res.Samples) < 2 && ncase%97 == 5 {
				res.Samples = append(res.Samples, trunc(m.String()))
			}
			tname := wire.Names[g.typ]
			// buffer one byte too small must be refused
			if len(want) > 0 {
				fc := go9p.NewFcall(uint32(len(want) - 1))
				if err := packWith(fc, m, dotu); err == nil {
					fail("C01/pack/"+tname+"/small-buffer-accepted", fmt.Sprintf("constructor accepted a buffer of %d bytes for a %d-byte packet", len(want)-1, len(want)), m)
				}
			}
			for bi, extra := range []int{0, 1, 512} {
				fc := go9p.NewFcall(uint32(len(want) + extra))
				if err := packWith(fc, m, dotu); err != nil {
					fail("C01/pack/"+tname+"/error", fmt.Sprintf("constructor failed with a %d-byte buffer for a %d-byte packet: %v", len(want)+extra, len(want), err), m)
					continue
				}
				if !bytes.Equal(fc.Pkt, want) {
					fail("C01/pack/"+tname+"/bytes", fmt.Sprintf("packet differs from the protocol layout at byte %d (len got %d want %d)", firstDiff(fc.Pkt, want), len(fc.Pkt), len(want)), m)
					continue
				}
				if fc.Size != uint32(len(want)) {
					fail("C01/pack/"+tname+"/size-field", fmt.Sprintf("Fcall.Size %d != packet length %d", fc.Size, len(want)), m)
				}
				if bi != 0 {
					continue
				}
				// decode (with trailing junk that must not be consumed)
				in := append(append([]byte{}, fc.Pkt...), junk...)
				got, n, err := go9p.Unpack(in, dotu)
				if err != nil {
					fail("C01/unpack/"+tname+"/rejected", fmt.Sprintf("Unpack rejects the packet its own constructor built: %v", err), m)
				} else {
					if n != len(want) {
						fail("C01/unpack/"+tname+"/consumed", fmt.Sprintf("Unpack consumed %d of a %d-byte packet", n, len(want)), m)
					}
					if d := cmpFcall(m, got, dotu); d != "" {
						fail("C01/unpack/"+tname+"/fields", "decoded fields differ: "+d, m)
					}
				}
				// SetTag
				for _, tg := range tags {
					go9p.SetTag(fc, tg)
					m2 := *m
					m2.Tag = tg
					if w2 := wire.Encode(&m2, dotu); !bytes.Equal(fc.Pkt, w2) {
						fail("C01/settag/"+tname, fmt.Sprintf("after SetTag(%#x) packet differs at byte %d", tg, firstDiff(fc.Pkt, w2)), m)
					}
				}
			}
		}
		n, full := enumProduct(doms, pair, capN, one)
		if len(doms) == 0 {
			one(nil)
			n, full = 1, true
		}
		res.Evals = int64(n)
		res.Nontrivial = int64(ncase)
		if res.Evals < res.Nontrivial {
			res.Evals = res.Nontrivial
		}
		res.Bounds["full_product_"+name] = full
		return res
	}}
}

func firstDiff(a, b []byte) int {
	for i := 0; i < len(a) && i < len(b); i++ {
		if a[i] != b[i] {
			return i
		}
	}
	if len(a) < len(b) {
		return len(a)
	}
	return len(b)
}

// stat records on their own, concatenated; and the InitRread/SetRreadCount two-step.
func c01StatScenario(dotu bool) Scenario {
	return Scenario{Name: fmt.Sprintf("stat-records dotu=%v", dotu), Run: func(c *RunCtx) *Result {
		res := &Result{Exhaustive: true}
		doms, pair := statDoms(c.Thorough())
		seen := map[string]bool{}
		fail := func(sig, msg string) {
			if !seen[sig] {
				seen[sig] = true
				res.Findings = append(res.Findings, Finding{Sig: sig, Msg: msg})
			}
		}
		var prev [][]byte
		var prevS []wire.Stat
		capN := 20000
		if c.Thorough() {
			capN = 300000
		}
		n, _ := enumProduct(doms, pair, capN, func(v []any) {
			st := mkStat(v, dotu)
			want := wire.EncodeStat(&st, dotu)
			if len(want) > 65535 {
				return
			}
			st.Size = uint16(len(want) - 2)
			res.Nontrivial++
			got := go9p.PackDir(toDir(&st), dotu)
			if !bytes.Equal(got, want) {
				fail("C01/packdir/bytes", fmt.Sprintf("PackDir differs from the stat layout at byte %d for %+v", firstDiff(got, want), trunc(st)))
				return
			}
			// alone, and concatenated with the two previous records
			in := append([]byte{}, got...)
			recs := []wire.Stat{st}
			for i := len(prev) - 1; i >= 0 && i >= len(prev)-2; i-- {
				in = append(in, prev[i]...)
				recs = append(recs, prevS[i])
			}
			rest := in
			for k, rs := range recs {
				d, b, amt, err := go9p.UnpackDir(rest, dotu)
				if err != nil {
					fail("C01/unpackdir/rejected", fmt.Sprintf("UnpackDir rejects record %d of a concatenation PackDir built: %v", k, err))
					break
				}
				wl := int(rs.Size) + 2
				if amt != wl || len(b) != len(rest)-wl {
					fail("C01/unpackdir/consumed", fmt.Sprintf("UnpackDir consumed %d (rest %d) for a %d-byte record in a %d-byte buffer", amt, len(b), wl, len(rest)))
					break
				}
				if df := cmpDir(&rs, d, dotu, true); df != "" {
					fail("C01/unpackdir/fields", "decoded stat differs: "+df)
				}
				rest = b
			}
			prev = append(prev, got)
			prevS = append(prevS, st)
			if len(prev) > 2 {
				prev, prevS = prev[1:], prevS[1:]
			}
		})
		res.Evals = int64(n)
		if res.Evals < res.Nontrivial {
			res.Evals = res.Nontrivial // enumProduct counts tuples, the callback counts the stat records they yield
		}
		// InitRread / SetRreadCount
		for total := 0; total <= 24; total++ {
			for cnt := 0; cnt <= total; cnt++ {
				fc := go9p.NewFcall(uint32(11 + total))
				if err := go9p.InitRread(fc, uint32(total)); err != nil {
					fail("C01/initrread/error", fmt.Sprintf("InitRread(%d) with an exact buffer: %v", total, err))
					continue
				}
				if len(fc.Data) != total {
					fail("C01/initrread/data-len", fmt.Sprintf("InitRread(%d) gives Data of %d bytes", total, len(fc.Data)))
					continue
				}
				for i := range fc.Data {
					fc.Data[i] = byte(i*5 + total)
				}
				go9p.SetRreadCount(fc, uint32(cnt))
				d := make([]byte, cnt)
				for i := range d {
					d[i] = byte(i*5 + total)
				}
				want := wire.Encode(&wire.Msg{Type: wire.Rread, Tag: wire.NOTAG, Data: d}, dotu)
				if !bytes.Equal(fc.Pkt, want) || fc.Size != uint32(len(want)) || fc.Count != uint32(cnt) || !bytes.Equal(fc.Data, d) {
					fail("C01/setrreadcount/bytes", fmt.Sprintf("InitRread(%d)+SetRreadCount(%d): packet % x want % x", total, cnt, fc.Pkt, want))
				}
				res.Evals++
				res.Nontrivial++
				// every order of the two-step form with tag settings: the tag is set before
				// the count, after it, or both; the count may be lowered a second time
				for order := 0; order < 16; order++ {
					before, after, twice, grow := order&1 != 0, order&2 != 0, order&4 != 0, order&8 != 0
					if twice && cnt == 0 || grow && !twice {
						continue
					}
					fc := go9p.NewFcall(uint32(11 + total))
					if go9p.InitRread(fc, uint32(total)) != nil {
						continue
					}
					for i := range fc.Data {
						fc.Data[i] = byte(i*5 + total)
					}
					tag := uint16(wire.NOTAG)
					if before {
						tag = 0x1234
						go9p.SetTag(fc, tag)
					}
					final := cnt
					if grow {
						// a provisional smaller count (0 included) first, the real one afterwards
						go9p.SetRreadCount(fc, uint32(cnt/2))
						go9p.SetRreadCount(fc, uint32(cnt))
					} else {
						go9p.SetRreadCount(fc, uint32(cnt))
						if twice {
							final = cnt / 2
							go9p.SetRreadCount(fc, uint32(final))
						}
					}
					if after {
						tag = 0x00fe
						go9p.SetTag(fc, tag)
					}
					want := wire.Encode(&wire.Msg{Type: wire.Rread, Tag: tag, Data: d[:final]}, dotu)
					if !bytes.Equal(fc.Pkt, want) || fc.Tag != tag || fc.Size != uint32(len(want)) || fc.Count != uint32(final) || !bytes.Equal(fc.Data, d[:final]) {
						fail("C01/setrreadcount/order", fmt.Sprintf("InitRread(%d), tag before=%v, SetRreadCount(%d), again=%v, tag after=%v: packet % x (Tag %#x) want % x", total, before, cnt, twice, after, fc.Pkt, fc.Tag, want))
					}
					back, n, err := go9p.Unpack(append([]byte(nil), fc.Pkt...), dotu)
					if err != nil || n != len(want) || back.Tag != tag || !bytes.Equal(back.Data, d[:final]) {
						fail("C01/setrreadcount/decode", fmt.Sprintf("two-step Rread does not decode to what was built (err %v, consumed %d of %d)", err, n, len(want)))
					}
					res.Evals++
					res.Nontrivial++
				}
			}
		}
		// stat records at the limit of the 16-bit size field: total length 65534..65537
		// bytes (size field 65532..65535), alone and followed by a small record
		{
			base := wire.Stat{Type: 1, Dev: 2, Qid: wire.Qid{Type: 0x80, Vers: 3, Path: 4}, Mode: 0x800001ed, Atime: 5, Mtime: 6, Length: 7, Uid: "u", Gid: "g", Muid: "m", NUid: 8, NGid: 9, NMuid: 10}
			empty := len(wire.EncodeStat(&base, dotu))
			small := base
			small.Name = "next"
			smallB := wire.EncodeStat(&small, dotu)
			small.Size = uint16(len(smallB) - 2)
			for total := 65534; total <= 65537; total++ {
				for _, field := range []string{"name", "muid"} {
					st := base
					long := strings.Repeat("L", total-empty)
					if field == "name" {
						st.Name = long
					} else {
						st.Muid = "m" + long
					}
					want := wire.EncodeStat(&st, dotu)
					st.Size = uint16(len(want) - 2)
					res.Evals++
					res.Nontrivial++
					got := go9p.PackDir(toDir(&st), dotu)
					if !bytes.Equal(got, want) {
						fail("C01/packdir/bytes-at-size-limit", fmt.Sprintf("PackDir of a %d-byte stat record differs from the layout at byte %d", len(want), firstDiff(got, want)))
						continue
					}
					in := append(append([]byte{}, got...), smallB...)
					d, b, amt, err := go9p.UnpackDir(in, dotu)
					if err != nil {
						fail("C01/unpackdir/rejected-at-size-limit", fmt.Sprintf("UnpackDir rejects a %d-byte stat record PackDir built: %v", len(want), err))
						continue
					}
					if amt != len(want) || len(b) != len(smallB) {
						fail("C01/unpackdir/consumed-at-size-limit", fmt.Sprintf("UnpackDir consumed %d bytes (rest %d) for a %d-byte record followed by a %d-byte one", amt, len(b), len(want), len(smallB)))
						continue
					}
					if df := cmpDir(&st, d, dotu, true); df != "" {
						fail("C01/unpackdir/fields-at-size-limit", "decoded stat differs: "+df)
					}
					if d2, b2, amt2, err := go9p.UnpackDir(b, dotu); err != nil || amt2 != len(smallB) || len(b2) != 0 || cmpDir(&small, d2, dotu, true) != "" {
						fail("C01/unpackdir/next-record-at-size-limit", fmt.Sprintf("the record behind a %d-byte one does not decode (err %v, consumed %d)", len(want), err, amt2))
					}
				}
			}
		}
		// payloads that already live in the message's own buffer (a file server reading
		// straight into the reply buffer, a client building a Twrite in place): at the
		// payload's final position, and further on in the buffer
		for _, n := range []int{0, 1, 7, 100} {
			for _, shift := range []int{0, 1, 50, 100} {
				for _, kind := range []string{"Rread", "Twrite", "Rread-after-InitRread"} {
					pos := 11
					if kind == "Twrite" {
						pos = 23
					}
					fc := go9p.NewFcall(uint32(pos + 300))
					if kind == "Rread-after-InitRread" {
						if go9p.InitRread(fc, 200) != nil {
							continue
						}
					}
					src := fc.Buf[pos+shift : pos+shift+n]
					d := make([]byte, n)
					for i := range d {
						d[i] = byte(i*7 + n + shift)
					}
					copy(src, d)
					var err error
					var want []byte
					if kind == "Twrite" {
						err = go9p.PackTwrite(fc, 5, 77, uint32(n), src)
						want = wire.Encode(&wire.Msg{Type: wire.Twrite, Tag: wire.NOTAG, Fid: 5, Offset: 77, Data: d}, dotu)
					} else {
						err = go9p.PackRread(fc, src)
						want = wire.Encode(&wire.Msg{Type: wire.Rread, Tag: wire.NOTAG, Data: d}, dotu)
					}
					if err != nil || !bytes.Equal(fc.Pkt, want) {
						fail("C01/payload-in-own-buffer/"+kind, fmt.Sprintf("%s with a %d-byte payload taken from the message's own buffer %d bytes behind its final position: err %v, packet % x want % x", kind, n, shift, err, fc.Pkt, want))
					}
					res.Evals++
					res.Nontrivial++
				}
			}
		}
		// element lists that are part of the recycled message's own fields: continuing a
		// partial walk with the rest of the names the Fcall already carries, answering
		// with a part of its qid list
		for _, k0 := range []int{1, 2, 5, 16} {
			for a := 0; a <= k0; a++ {
				for b := a; b <= k0; b++ {
					names := make([]string, k0)
					qids := make([]go9p.Qid, k0)
					wq := make([]wire.Qid, k0)
					for i := range names {
						names[i] = fmt.Sprintf("n%d-%s", i, strings.Repeat("x", i%4))
						qids[i] = go9p.Qid{Type: uint8(i), Version: uint32(i * 3), Path: uint64(1000 + i)}
						wq[i] = wire.Qid{Type: uint8(i), Vers: uint32(i * 3), Path: uint64(1000 + i)}
					}
					fc := go9p.NewFcall(1024)
					if go9p.PackTwalk(fc, 1, 2, names) != nil {
						continue
					}
					err := go9p.PackTwalk(fc, 3, 4, fc.Wname[a:b])
					want := wire.Encode(&wire.Msg{Type: wire.Twalk, Tag: wire.NOTAG, Fid: 3, Newfid: 4, Wname: names[a:b]}, dotu)
					if err != nil || !bytes.Equal(fc.Pkt, want) || strings.Join(fc.Wname, "/") != strings.Join(names[a:b], "/") {
						fail("C01/elements-from-own-fields/Twalk", fmt.Sprintf("PackTwalk on an Fcall that carried %d names, with its own Wname[%d:%d] as the new names: err %v, Wname %v, packet % x want % x", k0, a, b, err, fc.Wname, fc.Pkt, want))
					}
					fr := go9p.NewFcall(1024)
					if go9p.PackRwalk(fr, qids) != nil {
						continue
					}
					err = go9p.PackRwalk(fr, fr.Wqid[a:b])
					want = wire.Encode(&wire.Msg{Type: wire.Rwalk, Tag: wire.NOTAG, Wqid: wq[a:b]}, dotu)
					if err != nil || !bytes.Equal(fr.Pkt, want) {
						fail("C01/elements-from-own-fields/Rwalk", fmt.Sprintf("PackRwalk on an Fcall that carried %d qids, with its own Wqid[%d:%d]: err %v, packet % x want % x", k0, a, b, err, fr.Pkt, want))
					}
					res.Evals += 2
					res.Nontrivial += 2
				}
			}
		}
		res.Samples = append(res.Samples, "PackDir/UnpackDir over the stat domains alone and in concatenations of up to 3; payloads aliasing the message's own buffer; walk element lists taken from the recycled message's own fields; stat records of 65534..65537 bytes; InitRread(n)+SetRreadCount(c) for all c<=n<=24, in every order with SetTag before/after and a second lower or higher count")
		return res
	}}
}

// collidingNames returns, for each of the 32-bit hashes of the standard library, two
// different names of equal length with the same hash (found by search; a few tens of
// thousands of candidates suffice for 32 bits).
func collidingNames() [][2]string {
	hashes := []func([]byte) uint32{
		func(b []byte) uint32 { h := fnv.New32a(); h.Write(b); return h.Sum32() },
		func(b []byte) uint32 { h := fnv.New32(); h.Write(b); return h.Sum32() },
		crc32.ChecksumIEEE,
		func(b []byte) uint32 { return crc32.Checksum(b, crc32.MakeTable(crc32.Castagnoli)) },
		adler32.Checksum,
		func(b []byte) uint32 { h := fnv.New64a(); h.Write(b); return uint32(h.Sum64()) },
		func(b []byte) uint32 { h := fnv.New64a(); h.Write(b); v := h.Sum64(); return uint32(v ^ v>>32) },
	}
	var out [][2]string
	for _, hf := range hashes {
		seen := map[uint32]string{}
		buf := []byte("aaaaaaaa")
		x := uint64(88172645463325252)
		for i := 0; i < 1000000; i++ {
			// (a fixed pseudo-random walk through the 8-letter names: neighbouring names rarely collide)
			for k := range buf {
				x ^= x << 13
				x ^= x >> 7
				x ^= x << 17
				buf[k] = byte('a' + (x>>20)%26)
			}
			h := hf(buf)
			if prev, ok := seen[h]; ok {
				out = append(out, [2]string{prev, string(buf)})
				break
			}
			seen[h] = string(buf)
		}
	}
	return out
}

// c01HistoryScenario: decoding does not depend on what was decoded before. Sequences of
// two and three stat records (on their own, in Rstat, in Twstat) and of messages with
// strings, in one process, where a later record shares something with an earlier one:
// the same numeric ids under other names, the same names under other ids, names of the
// same length with the same 32-bit hash.
func c01HistoryScenario(dotu bool) Scenario {
	name := fmt.Sprintf("decodes one after the other, later ones resembling earlier ones dotu=%v", dotu)
	return Scenario{Name: name, Run: func(rc *RunCtx) *Result {
		res := &Result{Exhaustive: true}
		seen := map[string]bool{}
		fail := func(sig, msg string) {
			if !seen[sig] && len(res.Findings) < 8 {
				seen[sig] = true
				res.Findings = append(res.Findings, Finding{Sig: "C01/history/" + sig, Msg: msg})
			}
		}
		base := wire.Stat{Type: 1, Dev: 2, Qid: wire.Qid{Type: 0, Vers: 3, Path: 4}, Mode: 0644, Atime: 5, Mtime: 6, Length: 7, Name: "file", Uid: "alice", Gid: "staff", Muid: "bob", Ext: "", NUid: 1000, NGid: 100, NMuid: 1001}
		decodeAll := func(st wire.Stat, what string) {
			res.Evals++
			b := wire.EncodeStat(&st, dotu)
			if d, _, _, err := go9p.UnpackDir(b, dotu); err != nil {
				fail("unpackdir-error", what+": UnpackDir: "+err.Error())
			} else if diff := cmpDir(&st, d, dotu, false); diff != "" {
				fail("unpackdir/"+sigWords(diff), what+": UnpackDir of a stat record differs from its bytes: "+diff)
			} else {
				// a decoded record is an ordinary Dir: changed and encoded again (in the same dialect,
				// or a .u record in the plain one) it is laid out from its fields, whatever its Size says
				for _, nm := range []string{st.Name + "-renamed", "", "n"} {
					d2, st2 := *d, st
					d2.Name, st2.Name = nm, nm
					dialects := []bool{dotu}
					if dotu {
						dialects = append(dialects, false)
					}
					for _, du := range dialects {
						res.Evals++
						want := wire.EncodeStat(&st2, du)
						if got := go9p.PackDir(&d2, du); !bytes.Equal(got, want) {
							fail("reencode-after-change/packdir", fmt.Sprintf("%s: the record decoded (dotu %v), renamed to %q and packed again (dotu %v) with PackDir is %d bytes %x, the layout of its fields is %d bytes %x", what, dotu, nm, du, len(got), trunc(got), len(want), trunc(want)))
						}
						for _, t := range []uint8{wire.Rstat, wire.Twstat} {
							fc := go9p.NewFcall(8192)
							var err error
							if t == wire.Rstat {
								err = go9p.PackRstat(fc, &d2, du)
							} else {
								err = go9p.PackTwstat(fc, 3, &d2, du)
							}
							wm := wire.Encode(&wire.Msg{Type: t, Tag: wire.NOTAG, Fid: 3, Stat: st2}, du)
							if err != nil || !bytes.Equal(fc.Pkt, wm) {
								fail("reencode-after-change/"+wire.Names[t], fmt.Sprintf("%s: the record decoded (dotu %v), renamed to %q and packed into a %s (dotu %v): err %v, %d bytes, the layout of its fields is %d bytes", what, dotu, nm, wire.Names[t], du, err, len(fc.Pkt), len(wm)))
							}
						}
					}
				}
				// ... and so is a Dir whose Size field holds anything at all
				for _, sz := range []uint16{1, 47, 65535} {
					d3 := toDir(&st)
					d3.Size = sz
					res.Evals++
					if got, want := go9p.PackDir(d3, dotu), wire.EncodeStat(&st, dotu); !bytes.Equal(got, want) {
						fail("stale-size/packdir", fmt.Sprintf("%s: PackDir of a Dir whose Size field is %d gives %d bytes, the layout of its fields is %d bytes", what, sz, len(got), len(want)))
					}
				}
			}
			for _, t := range []uint8{wire.Rstat, wire.Twstat} {
				m := &wire.Msg{Type: t, Tag: 9, Fid: 3, Stat: st}
				fc, _, err := go9p.Unpack(wire.Encode(m, dotu), dotu)
				if err != nil {
					fail("unpack-error", what+": Unpack: "+err.Error())
				} else if diff := cmpDir(&st, &fc.Dir, dotu, false); diff != "" {
					fail("unpack/"+sigWords(diff), what+": Unpack of "+wire.Names[t]+" differs from its bytes: "+diff)
				}
			}
		}
		pairs := collidingNames()
		pairs = append(pairs, [2]string{"alice", "carol"}, [2]string{"a", "b"}, [2]string{"", "x"}, [2]string{"alice", "alicf"})
		for _, pr := range pairs {
			for _, order := range [][2]string{{pr[0], pr[1]}, {pr[1], pr[0]}} {
				for field := 0; field < 5; field++ {
					for _, sameIds := range []bool{true, false} {
						var seq []wire.Stat
						for k, nm := range []string{order[0], order[1], order[0]} {
							st := base
							switch field {
							case 0:
								st.Uid = nm
							case 1:
								st.Gid = nm
							case 2:
								st.Muid = nm
							case 3:
								st.Name = nm
							case 4:
								st.Ext = nm
							}
							if !sameIds {
								st.NUid, st.NGid, st.NMuid = uint32(2000+k), uint32(3000+k), uint32(4000+k)
							}
							seq = append(seq, st)
						}
						for k, st := range seq {
							decodeAll(st, fmt.Sprintf("record %d of a sequence whose field %d is %q, %q, %q (same numeric ids: %v)", k, field, order[0], order[1], order[0], sameIds))
						}
					}
				}
				// the same name under another id, the same id under another name
				a, b := base, base
				a.Uid, b.Uid = order[0], order[0]
				b.NUid = 77
				decodeAll(a, "same owner name, first id")
				decodeAll(b, "same owner name, second id")
				// strings of other messages
				for _, ms := range [][2]*wire.Msg{
					{{Type: wire.Tversion, Tag: 0xFFFF, Msize: 8192, Version: order[0]}, {Type: wire.Tversion, Tag: 0xFFFF, Msize: 8192, Version: order[1]}},
					{{Type: wire.Rerror, Tag: 1, Ename: order[0], Errno: 5}, {Type: wire.Rerror, Tag: 1, Ename: order[1], Errno: 5}},
					{twalk(1, 2, 3, order[0], order[1]), twalk(1, 2, 3, order[1], order[0])},
					{tattach(1, 2, wire.NOFID, order[0], 7, dotu), tattach(1, 2, wire.NOFID, order[1], 7, dotu)},
					{{Type: wire.Tcreate, Tag: 1, Fid: 2, Name: order[0], Perm: 0644, Mode: 1, Ext: order[1]}, {Type: wire.Tcreate, Tag: 1, Fid: 2, Name: order[1], Perm: 0644, Mode: 1, Ext: order[0]}},
				} {
					for _, m := range ms {
						res.Evals++
						fc, _, err := go9p.Unpack(wire.Encode(m, dotu), dotu)
						if err != nil {
							fail("unpack-error", "Unpack of "+m.String()+": "+err.Error())
						} else if diff := cmpFcall(m, fc, dotu); diff != "" {
							fail("unpack-msg/"+sigWords(diff), "Unpack of "+m.String()+" after a similar message differs from its bytes: "+diff)
						}
					}
				}
			}
		}
		res.Nontrivial = res.Evals
		res.Samples = append(res.Samples, fmt.Sprintf("%d name pairs (of which %d collide under a 32-bit hash of the standard library): %v", len(pairs), len(pairs)-4, pairs))
		return res
	}}
}

func c01Scenarios(tier string) []Scenario {
	var out []Scenario
	out = append(out, c01HistoryScenario(false), c01HistoryScenario(true))
	for _, g := range c01Gens() {
		for _, dotu := range []bool{false, true} {
			out = append(out, c01Scenario(g, dotu))
		}
	}
	out = append(out, c01StatScenario(false), c01StatScenario(true))
	return out
}

func init() {
	register(&Property{ID: "C01", Level: "exploration",
		Technique: "bounded-exhaustive enumeration of field-value products against an independent table-driven codec",
		Rule:      "per message type and dialect: full Cartesian product of per-field boundary domains when it fits the cap (quick 1e5, thorough 3e6 cases), otherwise every single-field deviation from three base vectors plus all pairs of variable-length fields; each case packed into exact, +1 and large buffers, decoded with trailing junk, re-tagged with 4 tag values; non-trivial = representable cases actually packed and compared ; decode histories: stat records and messages decoded one after the other in one process, later ones sharing numeric ids, names, or 32-bit hashes of names (colliding pairs found by search for 7 hash families) with earlier ones",
		Assumptions: []string{"the independent codec (harness/wire) is a correct reading of intro(5) and the 9P2000.u note"},
		Scenarios:   c01Scenarios, QuickS: 100, ThoroughS: 900})
}
