package main

import (
	"bytes"
	"fmt"

	"github.com/rminnich/go9p/vs"
)

// client side of C13: the same reply stream parsed under every segmentation
func c13ClientScenario(msize uint32, dotu bool, ncalls int) Scenario {
	name := fmt.Sprintf("client msize=%d dotu=%v calls=%d", msize, dotu, ncalls)
	return Scenario{Name: name, Run: func(rc *RunCtx) *Result {
		res := &Result{Exhaustive: true, Bounds: map[string]any{"D": 1}}
		seen := map[string]bool{}
		total := 0
		// run: sequential calls (one outstanding) then a final batch of three concurrent ones
		run := func(cuts []int, chunk int, shift int) string {
			bad := ""
			body := func() {
				c, peer := newClientPair(msize, dotu)
				ce := peerClientEnd
				ci := 0
				ce.Seg = func(avail, want int) int {
					off := ce.ReadOffset()
					if chunk > 0 {
						return chunk - off%chunk
					}
					for ci < len(cuts) && cuts[ci] <= off {
						ci++
					}
					if ci < len(cuts) {
						return cuts[ci] - off
					}
					return avail
				}
				var kept []*callRes
				for i := 0; i < ncalls; i++ {
					sp := callSpec{[]string{"read", "stat", "write", "walk", "clunk"}[(i+shift)%5], uint32(10 + i)}
					r := doCall(c, sp)
					kept = append(kept, r)
					if msg := r.verify("ok", dotu, nil); msg != "" {
						bad = fmt.Sprintf("call %d (%s fid %d): %s", i, sp.Kind, sp.Fid, msg)
						return
					}
				}
				peer.Batch = 3
				peer.OneWrite = true
				out := make([]*callRes, 3)
				for i := 0; i < 3; i++ {
					i := i
					vs.Go("caller", func() { out[i] = doCall(c, callSpec{[]string{"read", "stat", "walk"}[i], uint32(200 + i)}) })
				}
				vs.Idle()
				for i, r := range out {
					if r == nil {
						bad = fmt.Sprintf("concurrent call %d never returned", i)
						return
					}
					if msg := r.verify("ok", dotu, nil); msg != "" {
						bad = fmt.Sprintf("concurrent call %d: %s", i, msg)
						return
					}
				}
				kept = append(kept, out...)
				// payloads handed out earlier are not disturbed by the bytes that arrived later
				for i, r := range kept {
					if r.spec.Kind == "read" && !bytes.Equal(r.raw, r.data) {
						bad = fmt.Sprintf("the data returned by call %d (read fid %d) was overwritten by reply bytes that arrived later: now %x, was %x", i, r.spec.Fid, r.raw, r.data)
						return
					}
				}
				total = ce.ReadOffset()
			}
			x := vs.Run(nil, body, vs.Options{})
			if len(x.Panics) > 0 {
				return "panic: " + x.Panics[0].Value
			}
			return bad
		}
		if b := run(nil, 0, 0); b != "" {
			res.Findings = append(res.Findings, Finding{Sig: "C13/client/reference-run-failed", Msg: b})
			return res
		}
		try := func(cuts []int, chunk, shift int, what string) {
			if rc.Expired() {
				res.Exhaustive = false
				res.CapHit = "internal deadline"
				return
			}
			b := run(cuts, chunk, shift)
			res.Evals++
			res.Nontrivial++
			res.States++
			res.Traces++
			res.Transitions += int64(len(cuts) + 1)
			if b != "" {
				sig := "C13/client/" + sigWords(b)
				if !seen[sig] {
					seen[sig] = true
					res.Findings = append(res.Findings, Finding{Sig: sig, Msg: fmt.Sprintf("%s, %s: %s", name, what, b)})
				}
			}
		}
		N := total
		for k := 1; k < N; k++ {
			try([]int{k}, 0, 0, fmt.Sprintf("reply stream split at %d", k))
		}
		m := int(msize)
		for _, ch := range []int{1, 2, 3, 5, 7, 11, m - 1, m, m + 1, 8*m - 1, 8 * m, 8*m + 1} {
			for shift := 0; shift < 5; shift++ {
				try(nil, ch, shift, fmt.Sprintf("chunks of %d, call mix %d", ch, shift))
			}
		}
		res.Samples = append(res.Samples, fmt.Sprintf("%d sequential calls + 3 concurrent ones, reply stream of %d bytes: every single split, 12 chunk sizes x 5 call mixes", ncalls, N))
		return res
	}}
}

func c13ClientScenarios(tier string) []Scenario {
	out := []Scenario{c13ClientScenario(96, false, 40), c13ClientScenario(128, true, 40)}
	if tier == "thorough" {
		out = append(out, c13ClientScenario(256, false, 80), c13ClientScenario(8192, true, 30))
	}
	return out
}
