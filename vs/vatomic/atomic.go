// Package atomic is the scheduler-aware stand-in for sync/atomic: every
// operation is preceded by a scheduling point and then performed for real.
package atomic

import (
	real "sync/atomic"
	"unsafe"

	"github.com/rminnich/go9p/vs"
)

func LoadUint32(a *uint32) uint32 { vs.AtomicPoint(unsafe.Pointer(a), 4, false); return real.LoadUint32(a) }
func LoadInt32(a *int32) int32    { vs.AtomicPoint(unsafe.Pointer(a), 4, false); return real.LoadInt32(a) }
func LoadUint64(a *uint64) uint64 { vs.AtomicPoint(unsafe.Pointer(a), 8, false); return real.LoadUint64(a) }
func LoadInt64(a *int64) int64    { vs.AtomicPoint(unsafe.Pointer(a), 8, false); return real.LoadInt64(a) }
func StoreUint32(a *uint32, v uint32) {
	vs.AtomicPoint(unsafe.Pointer(a), 4, true)
	real.StoreUint32(a, v)
}
func StoreInt32(a *int32, v int32)    { vs.AtomicPoint(unsafe.Pointer(a), 4, true); real.StoreInt32(a, v) }
func StoreUint64(a *uint64, v uint64) { vs.AtomicPoint(unsafe.Pointer(a), 8, true); real.StoreUint64(a, v) }
func StoreInt64(a *int64, v int64)    { vs.AtomicPoint(unsafe.Pointer(a), 8, true); real.StoreInt64(a, v) }
func AddUint32(a *uint32, d uint32) uint32 {
	vs.AtomicPoint(unsafe.Pointer(a), 4, true)
	return real.AddUint32(a, d)
}
func AddInt32(a *int32, d int32) int32 { vs.AtomicPoint(unsafe.Pointer(a), 4, true); return real.AddInt32(a, d) }
func AddUint64(a *uint64, d uint64) uint64 {
	vs.AtomicPoint(unsafe.Pointer(a), 8, true)
	return real.AddUint64(a, d)
}
func AddInt64(a *int64, d int64) int64 { vs.AtomicPoint(unsafe.Pointer(a), 8, true); return real.AddInt64(a, d) }
func SwapUint32(a *uint32, v uint32) uint32 {
	vs.AtomicPoint(unsafe.Pointer(a), 4, true)
	return real.SwapUint32(a, v)
}
func SwapInt32(a *int32, v int32) int32 { vs.AtomicPoint(unsafe.Pointer(a), 4, true); return real.SwapInt32(a, v) }
func CompareAndSwapUint32(a *uint32, o, n uint32) bool {
	vs.AtomicPoint(unsafe.Pointer(a), 4, true)
	return real.CompareAndSwapUint32(a, o, n)
}
func CompareAndSwapInt32(a *int32, o, n int32) bool {
	vs.AtomicPoint(unsafe.Pointer(a), 4, true)
	return real.CompareAndSwapInt32(a, o, n)
}
func CompareAndSwapUint64(a *uint64, o, n uint64) bool {
	vs.AtomicPoint(unsafe.Pointer(a), 8, true)
	return real.CompareAndSwapUint64(a, o, n)
}
func CompareAndSwapInt64(a *int64, o, n int64) bool {
	vs.AtomicPoint(unsafe.Pointer(a), 8, true)
	return real.CompareAndSwapInt64(a, o, n)
}

type Bool struct{ v real.Bool }

func (b *Bool) Load() bool   { vs.AtomicPoint(unsafe.Pointer(b), 1, false); return b.v.Load() }
func (b *Bool) Store(x bool) { vs.AtomicPoint(unsafe.Pointer(b), 1, true); b.v.Store(x) }

type Int32 struct{ v real.Int32 }

func (b *Int32) Load() int32         { vs.AtomicPoint(unsafe.Pointer(b), 4, false); return b.v.Load() }
func (b *Int32) Store(x int32)       { vs.AtomicPoint(unsafe.Pointer(b), 4, true); b.v.Store(x) }
func (b *Int32) Add(x int32) int32   { vs.AtomicPoint(unsafe.Pointer(b), 4, true); return b.v.Add(x) }

type Uint32 struct{ v real.Uint32 }

func (b *Uint32) Load() uint32        { vs.AtomicPoint(unsafe.Pointer(b), 4, false); return b.v.Load() }
func (b *Uint32) Store(x uint32)      { vs.AtomicPoint(unsafe.Pointer(b), 4, true); b.v.Store(x) }
func (b *Uint32) Add(x uint32) uint32 { vs.AtomicPoint(unsafe.Pointer(b), 4, true); return b.v.Add(x) }

type Int64 struct{ v real.Int64 }

func (b *Int64) Load() int64       { vs.AtomicPoint(unsafe.Pointer(b), 8, false); return b.v.Load() }
func (b *Int64) Store(x int64)     { vs.AtomicPoint(unsafe.Pointer(b), 8, true); b.v.Store(x) }
func (b *Int64) Add(x int64) int64 { vs.AtomicPoint(unsafe.Pointer(b), 8, true); return b.v.Add(x) }

type Uint64 struct{ v real.Uint64 }

func (b *Uint64) Load() uint64        { vs.AtomicPoint(unsafe.Pointer(b), 8, false); return b.v.Load() }
func (b *Uint64) Store(x uint64)      { vs.AtomicPoint(unsafe.Pointer(b), 8, true); b.v.Store(x) }
func (b *Uint64) Add(x uint64) uint64 { vs.AtomicPoint(unsafe.Pointer(b), 8, true); return b.v.Add(x) }

func (b *Bool) Swap(x bool) bool { vs.AtomicPoint(unsafe.Pointer(b), 1, true); return b.v.Swap(x) }
func (b *Bool) CompareAndSwap(o, n bool) bool {
	vs.AtomicPoint(unsafe.Pointer(b), 1, true)
	return b.v.CompareAndSwap(o, n)
}
func (b *Int32) Swap(x int32) int32 { vs.AtomicPoint(unsafe.Pointer(b), 4, true); return b.v.Swap(x) }
func (b *Int32) CompareAndSwap(o, n int32) bool {
	vs.AtomicPoint(unsafe.Pointer(b), 4, true)
	return b.v.CompareAndSwap(o, n)
}
func (b *Uint32) Swap(x uint32) uint32 { vs.AtomicPoint(unsafe.Pointer(b), 4, true); return b.v.Swap(x) }
func (b *Uint32) CompareAndSwap(o, n uint32) bool {
	vs.AtomicPoint(unsafe.Pointer(b), 4, true)
	return b.v.CompareAndSwap(o, n)
}
func (b *Int64) Swap(x int64) int64 { vs.AtomicPoint(unsafe.Pointer(b), 8, true); return b.v.Swap(x) }
func (b *Int64) CompareAndSwap(o, n int64) bool {
	vs.AtomicPoint(unsafe.Pointer(b), 8, true)
	return b.v.CompareAndSwap(o, n)
}
func (b *Uint64) Swap(x uint64) uint64 { vs.AtomicPoint(unsafe.Pointer(b), 8, true); return b.v.Swap(x) }
func (b *Uint64) CompareAndSwap(o, n uint64) bool {
	vs.AtomicPoint(unsafe.Pointer(b), 8, true)
	return b.v.CompareAndSwap(o, n)
}

// Pointer is sync/atomic.Pointer with every operation a scheduling point.
type Pointer[T any] struct{ v real.Pointer[T] }

func (p *Pointer[T]) Load() *T   { vs.AtomicPoint(unsafe.Pointer(p), 8, false); return p.v.Load() }
func (p *Pointer[T]) Store(x *T) { vs.AtomicPoint(unsafe.Pointer(p), 8, true); p.v.Store(x) }
func (p *Pointer[T]) Swap(x *T) *T {
	vs.AtomicPoint(unsafe.Pointer(p), 8, true)
	return p.v.Swap(x)
}
func (p *Pointer[T]) CompareAndSwap(o, n *T) bool {
	vs.AtomicPoint(unsafe.Pointer(p), 8, true)
	return p.v.CompareAndSwap(o, n)
}

// Value is sync/atomic.Value.
type Value struct{ v real.Value }

func (a *Value) Load() any   { vs.AtomicPoint(unsafe.Pointer(a), 8, false); return a.v.Load() }
func (a *Value) Store(x any) { vs.AtomicPoint(unsafe.Pointer(a), 8, true); a.v.Store(x) }
func (a *Value) Swap(x any) any {
	vs.AtomicPoint(unsafe.Pointer(a), 8, true)
	return a.v.Swap(x)
}
func (a *Value) CompareAndSwap(o, n any) bool {
	vs.AtomicPoint(unsafe.Pointer(a), 8, true)
	return a.v.CompareAndSwap(o, n)
}

type Uintptr struct{ v real.Uintptr }

func (b *Uintptr) Load() uintptr         { vs.AtomicPoint(unsafe.Pointer(b), 8, false); return b.v.Load() }
func (b *Uintptr) Store(x uintptr)       { vs.AtomicPoint(unsafe.Pointer(b), 8, true); b.v.Store(x) }
func (b *Uintptr) Add(x uintptr) uintptr { vs.AtomicPoint(unsafe.Pointer(b), 8, true); return b.v.Add(x) }

func LoadPointer(a *unsafe.Pointer) unsafe.Pointer {
	vs.AtomicPoint(unsafe.Pointer(a), 8, false)
	return real.LoadPointer(a)
}
func StorePointer(a *unsafe.Pointer, v unsafe.Pointer) {
	vs.AtomicPoint(unsafe.Pointer(a), 8, true)
	real.StorePointer(a, v)
}
func SwapUint64(a *uint64, v uint64) uint64 {
	vs.AtomicPoint(unsafe.Pointer(a), 8, true)
	return real.SwapUint64(a, v)
}
func SwapInt64(a *int64, v int64) int64 {
	vs.AtomicPoint(unsafe.Pointer(a), 8, true)
	return real.SwapInt64(a, v)
}
