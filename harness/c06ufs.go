package main

import (
	"bytes"
	"github.com/rminnich/go9p"
	"github.com/rminnich/go9p/vs"
	"fmt"
	"os"
	"path/filepath"
	"strings"

	"harness/wire"
)

func c06UfsDirScenarios(tier string) []Scenario {
	var out []Scenario
	for _, dotu := range []bool{false, true} {
		for _, primed := range []bool{true, false} {
			dotu, primed := dotu, primed
			out = append(out, Scenario{Name: fmt.Sprintf("ufs-dir-reads dotu=%v primed=%v", dotu, primed), Run: func(rc *RunCtx) *Result {
				res := &Result{Exhaustive: true}
				base, root := scratchDir("c06d")
				defer os.RemoveAll(base)
				makeStdTree(root)
				os.MkdirAll(filepath.Join(root, "many"), 0o755)
				for i, n := range []string{"a", "bb", strings.Repeat("c", 17), "dddd"} {
					os.WriteFile(filepath.Join(root, "many", n), []byte(strings.Repeat("x", i)), 0o644)
				}
				c := c06Cfg{Backend: "ufs", Msize: 1024, Dotu: dotu}
				setup := []mevent{{Op: "attach", Fid: 0, Afid: wire.NOFID, Uid: 0, Uname: "root"}, {Op: "walk", Fid: 0, Newfid: 1, Names: []string{"many"}}, {Op: "open", Fid: 1, Mode: 0}}
				total := 4 * 70 // upper bound of the listing size
				entry := 60
				seen := map[string]bool{}
				for off := 0; off <= total+2; off++ {
					for _, cnt := range []uint32{0, 1, uint32(entry - 1), uint32(entry), uint32(entry + 1), 1000} {
						if rc.Expired() {
							res.Exhaustive = false
							res.CapHit = "internal deadline"
							return res
						}
						var hostile [][]byte
						if primed {
							hostile = append(hostile, wire.Encode(&wire.Msg{Type: wire.Tread, Tag: 50, Fid: 1, Offset: 0, Count: 1000}, dotu))
						}
						hostile = append(hostile, wire.Encode(&wire.Msg{Type: wire.Tread, Tag: 51, Fid: 1, Offset: uint64(off), Count: cnt}, dotu))
						bad, sig := c06Run(c, root, setup, hostile)
						res.Evals++
						res.Nontrivial++
						if bad != "" && !seen[sig] {
							seen[sig] = true
							res.Findings = append(res.Findings, Finding{Sig: sig, Msg: fmt.Sprintf("%s\ndirectory Tread offset=%d count=%d (after a read at offset 0: %v)", bad, off, cnt, primed), Detail: map[string]any{"offset": off, "count": cnt, "primed": primed}})
						}
					}
				}
				res.Samples = append(res.Samples, "Ufs directory of 4 entries: Tread at every offset 0..282 x counts {0,1,59,60,61,1000}, with and without a preceding read at offset 0")
				return res
			}})
		}
	}
	return out
}

// msize renegotiated in the middle of a session, after a burst of pipelined
// requests has populated the pool of reply buffers, followed by large reads and writes
func c06RenegotiateScenarios(tier string) []Scenario {
	var out []Scenario
	for _, be := range []string{"ufs", "script"} {
		for _, dotu := range []bool{false, true} {
			be, dotu := be, dotu
			out = append(out, Scenario{Name: fmt.Sprintf("renegotiate backend=%s dotu=%v", be, dotu), Run: func(rc *RunCtx) *Result {
				res := &Result{Exhaustive: true}
				base, root := "", ""
				if be == "ufs" {
					base, root = scratchDir("c06r")
					defer os.RemoveAll(base)
					makeStdTree(root)
				}
				seen := map[string]bool{}
				for _, ms1 := range []uint32{64, 256, 1024} {
					for _, burst := range []int{0, 4, 24, 70} {
						for _, ms2 := range []uint32{ms1 / 2, ms1, 4 * ms1, 8216} {
							if ms2 < 48 || rc.Expired() {
								continue
							}
							var hostile [][]byte
							var b []byte
							for i := 0; i < burst; i++ {
								b = append(b, wire.Encode(&wire.Msg{Type: wire.Tclunk, Tag: uint16(100 + i), Fid: uint32(500 + i)}, dotu)...)
							}
							if len(b) > 0 {
								hostile = append(hostile, b)
							}
							ver := "9P2000"
							if dotu {
								ver = "9P2000.u"
							}
							hostile = append(hostile, wire.Encode(&wire.Msg{Type: wire.Tversion, Tag: wire.NOTAG, Msize: ms2, Version: ver}, false))
							for _, cnt := range []uint32{1, ms1 - 24, ms1, ms2 - 24, 4096} {
								for _, fid := range []uint32{1, 0} {
									m := &wire.Msg{Type: wire.Tread, Tag: 60, Fid: fid, Offset: 0, Count: cnt}
									if uint32(len(wire.Encode(m, dotu))) <= ms2 {
										hostile = append(hostile, wire.Encode(m, dotu))
									}
								}
							}
							hostile = append(hostile, wire.Encode(&wire.Msg{Type: wire.Tstat, Tag: 61, Fid: 0}, dotu))
							c := c06Cfg{Backend: be, Msize: 8216, Dotu: dotu}
							setup := []mevent{{Op: "attach", Fid: 0, Afid: wire.NOFID, Uid: 0, Uname: "root"}, {Op: "walk", Fid: 0, Newfid: 1, Names: []string{"d"}}, {Op: "open", Fid: 1, Mode: 0}}
							// the session first negotiates ms1: c06Run negotiates c.Msize, so send Tversion(ms1) as the first hostile frame
							first := wire.Encode(&wire.Msg{Type: wire.Tversion, Tag: wire.NOTAG, Msize: ms1, Version: ver}, false)
							bad, sig := c06Run(c, root, setup, append([][]byte{first}, hostile...))
							res.Evals++
							res.Nontrivial++
							if bad != "" && !seen[sig] {
								seen[sig] = true
								res.Findings = append(res.Findings, Finding{Sig: sig, Msg: fmt.Sprintf("%s\nsession: attach, open a directory, Tversion(msize %d), %d pipelined requests, Tversion(msize %d), reads with counts 1, %d, %d, %d, 4096", bad, ms1, burst, ms2, ms1-24, ms1, ms2-24)})
							}
						}
					}
				}
				res.Samples = append(res.Samples, "Tversion(ms1) ; burst of 0/4/24/70 pipelined requests ; Tversion(ms2 in ms1/2, ms1, 4*ms1, 8216) ; Treads with counts around both limits on a directory and on the root ; liveness probes")
				return res
			}})
		}
	}
	return out
}

// a client may disconnect with requests in flight: the server must not touch a Go
// map from two goroutines without synchronisation (the runtime aborts the process)
func c06MapMonitorScenarios(tier string) []Scenario {
	var out []Scenario
	D := 1
	if tier == "thorough" {
		D = 2
	}
	i := 0
	for _, parked := range [][]string{{"clunk"}, {"remove"}, {"walk"}, {"stat"}, {"clunk", "read"}} {
		for _, cl := range []string{"boundary", "afterwrite"} {
			i++
			idx := make([]int, len(parked))
			for k := range idx {
				idx[k] = k
			}
			out = append(out, vsScenario(c11Spec(c11Params{Prefix: 5, Parked: parked, Release: idx, Close: cl, Maxpend: i % 3, Dotu: i%2 == 0, P: D}, true)))
		}
	}
	out = append(out, c06UfsUserTableScenario(D, false), c06UfsUserTableScenario(D, true))
	for i, sec := range []string{"walk", "clone", "stat", "open", "create", "remove", "clunk", "wstat"} {
		out = append(out, c06PipelinedDependents(sec, i%2 == 0, D))
		if i < 4 {
			out = append(out, c06PipelinedDependentsFirst("attach", sec, i%2 == 1, D))
		}
	}
	for i, how := range []string{"removed-by-host", "renamed-by-another-fid", "replaced-by-other-kind", "made-unreadable-dir-emptied"} {
		out = append(out, c06UfsStale(how, i%2 == 0))
	}
	if tier == "thorough" {
		// (each never-seen user id costs a look-up in the host's user database: minutes in all)
		out = append(out, c06ManyUsers(70000))
	}
	for i, k := range []string{"readdir", "readfile", "stat", "walk"} {
		out = append(out, c06BehindVersion(k, 300, 8216, i%2 == 0, D+1), c06BehindVersion(k, 8216, 300, i%2 == 1, D+1))
	}
	return out
}

// the bundled Unix file server with its process-wide user and group tables: requests
// in flight at once that name users the process has not looked up before
func c06UfsUserTableScenario(D int, two bool) Scenario {
	var base, root string
	name := fmt.Sprintf("map-monitor ufs fresh users in flight two-connections=%v", two)
	body := func() {
		vs.EnableHB()
		os.RemoveAll(root)
		os.MkdirAll(root, 0o755)
		os.WriteFile(filepath.Join(root, "f"), []byte("x"), 0o644)
		os.Chown(filepath.Join(root, "f"), 1234, 2345)
		h := newUfsH(root, 8216, true)
		c := h.Connect()
		c.Version(8216, "9P2000.u")
		c2 := c
		if two {
			c2 = h.Connect()
			c2.Version(8216, "9P2000.u")
		}
		vs.Window(true)
		c.Send(true, tattach(1, 0, wire.NOFID, "", uint32(os.Geteuid()), true), tattach(2, 1, wire.NOFID, "", 1, true))
		c2.Send(true, tattach(3, 2, wire.NOFID, "", 2, true))
		vs.Idle()
		c.Send(true, twalk(4, 0, 5, "f"), &wire.Msg{Type: wire.Tstat, Tag: 5, Fid: 0})
		vs.Idle()
		c.Send(true, &wire.Msg{Type: wire.Tstat, Tag: 6, Fid: 5})
		c2.Send(true, tattach(7, 9, wire.NOFID, "", 3, true))
		vs.Idle()
		vs.Window(false)
	}
	check := func(x *vs.Exec) *Viol {
		for _, p := range x.Panics {
			return &Viol{Sig: "C06/panic/" + p.Frame + "/" + panicClass(p.Value), Msg: "panic: " + p.Value + "\n" + trimStack(p.Stack)}
		}
		for _, r := range x.Races() {
			if strings.HasPrefix(r.SiteA, "map@") && strings.HasPrefix(r.SiteB, "map@") && (r.WriteA || r.WriteB) {
				a, b := r.SiteA, r.SiteB
				if a > b {
					a, b = b, a
				}
				return &Viol{Sig: "C06/concurrent-map-access/" + a + "/" + b, Msg: "unsynchronised concurrent access to a Go map by two requests in flight - the Go runtime aborts the whole process with 'fatal error: concurrent map read and map write': " + r.String()}
			}
		}
		return nil
	}
	return Scenario{Name: name, Run: func(rc *RunCtx) *Result {
		base, root = scratchDir("c06")
		defer os.RemoveAll(base)
		return runVs(rc, &VsSpec{Name: name, Body: body, Check: check, P: D, Delay: true})
	}}
}

// a client that pipelines requests which depend on each other (it does not wait for the
// Rwalk before using the new fid): the second request may meet the new fid at any
// moment of its creation. Explored with every access of the library to shared data as a
// scheduling point, so that half-made state is visible to the other request as it is on
// real hardware.
func c06PipelinedDependents(second string, dotu bool, D int) Scenario {
	return c06PipelinedDependentsFirst("walk", second, dotu, D)
}

// first: the request that creates fid 5 - a Twalk from the attached root, or a Tattach
func c06PipelinedDependentsFirst(first, second string, dotu bool, D int) Scenario {
	var base, root string
	name := fmt.Sprintf("ufs pipelined dependent requests (access-level schedules) second=%s dotu=%v", second, dotu)
	if first != "walk" {
		name += " first=" + first
	}
	body := func() {
		vs.EnableHBFine()
		os.RemoveAll(root)
		makeStdTree(root)
		h := newUfsH(root, 8216, dotu)
		c := h.Connect()
		ver := "9P2000"
		if dotu {
			ver = "9P2000.u"
		}
		c.Version(8216, ver)
		un := ""
		if !dotu {
			un = go9p.OsUsers.Uid2User(os.Geteuid()).Name()
		}
		c.Rpc(tattach(1, 0, wire.NOFID, un, uint32(os.Geteuid()), dotu))
		var m2 *wire.Msg
		switch second {
		case "walk":
			m2 = twalk(3, 5, 6, "h")
		case "clone":
			m2 = twalk(3, 5, 6)
		case "stat":
			m2 = &wire.Msg{Type: wire.Tstat, Tag: 3, Fid: 5}
		case "open":
			m2 = &wire.Msg{Type: wire.Topen, Tag: 3, Fid: 5, Mode: 0}
		case "create":
			m2 = &wire.Msg{Type: wire.Tcreate, Tag: 3, Fid: 5, Name: "made", Perm: 0644, Mode: 1}
		case "remove":
			m2 = &wire.Msg{Type: wire.Tremove, Tag: 3, Fid: 5}
		case "clunk":
			m2 = &wire.Msg{Type: wire.Tclunk, Tag: 3, Fid: 5}
		case "wstat":
			m2 = &wire.Msg{Type: wire.Twstat, Tag: 3, Fid: 5, Stat: wire.Stat{Type: 0xFFFF, Dev: 0xFFFFFFFF, Qid: wire.Qid{Type: 0xFF, Vers: 0xFFFFFFFF, Path: ^uint64(0)}, Mode: 0xFFFFFFFF, Atime: 0xFFFFFFFF, Mtime: 0xFFFFFFFF, Length: ^uint64(0), NUid: 0xFFFFFFFF, NGid: 0xFFFFFFFF, NMuid: 0xFFFFFFFF}}
		}
		m1 := twalk(2, 0, 5, "d")
		if first == "attach" {
			m1 = tattach(2, 5, wire.NOFID, un, uint32(os.Geteuid()), dotu)
		}
		vs.Window(true)
		c.Send(dotu, m1, m2)
		vs.Idle()
		vs.Window(false)
		// the server is still there
		if r := c.Rpc(&wire.Msg{Type: wire.Tstat, Tag: 9, Fid: 0}); r == nil || r.Type != wire.Rstat {
			vs.Fail("the connection no longer answers: %v", r)
		}
	}
	check := func(x *vs.Exec) *Viol {
		for _, p := range x.Panics {
			return &Viol{Sig: "C06/panic/" + p.Frame + "/" + panicClass(p.Value), Msg: "two well-formed requests pipelined by a client (a Twalk and a request on its new fid) make the server panic: " + p.Value + "\n" + trimStack(p.Stack)}
		}
		if len(x.Fails) > 0 {
			return &Viol{Sig: "C06/liveness/" + sigWords(x.Fails[0]), Msg: x.Fails[0]}
		}
		return nil
	}
	return Scenario{Name: name, Run: func(rc *RunCtx) *Result {
		base, root = scratchDir("c06")
		defer os.RemoveAll(base)
		return runVs(rc, &VsSpec{Name: name, Body: body, Check: check, P: D, Delay: true})
	}}
}

// c06BehindVersion: a request pipelined directly in front of a Tversion that asks for
// another msize than the session had (bigger or smaller): every schedule of the
// request's goroutine against the receive loop executing the Tversion.
func c06BehindVersion(kind string, msize0, msize1 uint32, dotu bool, D int) Scenario {
	var base, root string
	name := fmt.Sprintf("ufs %s pipelined in front of a Tversion msize %d->%d dotu=%v", kind, msize0, msize1, dotu)
	body := func() {
		os.RemoveAll(root)
		makeStdTree(root)
		h := newUfsH(root, 8216, dotu)
		c := h.Connect()
		ver := "9P2000"
		if dotu {
			ver = "9P2000.u"
		}
		c.Version(msize0, ver)
		un := ""
		if !dotu {
			un = go9p.OsUsers.Uid2User(os.Geteuid()).Name()
		}
		att := tattach(1, 0, wire.NOFID, un, uint32(os.Geteuid()), dotu)
		c.Rpc(att)
		var m *wire.Msg
		big := msize1
		if msize0 > big {
			big = msize0
		}
		switch kind {
		case "readdir":
			c.Rpc(twalk(2, 0, 5))
			c.Rpc(&wire.Msg{Type: wire.Topen, Tag: 2, Fid: 5, Mode: 0})
			m = &wire.Msg{Type: wire.Tread, Tag: 3, Fid: 5, Offset: 0, Count: big - 24}
		case "readfile":
			c.Rpc(twalk(2, 0, 5, "f"))
			c.Rpc(&wire.Msg{Type: wire.Topen, Tag: 2, Fid: 5, Mode: 0})
			m = &wire.Msg{Type: wire.Tread, Tag: 3, Fid: 5, Offset: 0, Count: big - 24}
		case "stat":
			c.Rpc(twalk(2, 0, 5, "d"))
			m = &wire.Msg{Type: wire.Tstat, Tag: 3, Fid: 5}
		case "walk":
			m = twalk(3, 0, 5, "d", "h")
		}
		vs.Window(true)
		c.Send(dotu, m, &wire.Msg{Type: wire.Tversion, Tag: wire.NOTAG, Msize: msize1, Version: ver})
		vs.Idle()
		vs.Window(false)
		// the server is still there: the new session works, and so does a new connection
		att.Tag, att.Fid = 7, 9 // (the library keeps the fids of the old session)
		if r := c.Rpc(att); r == nil || r.Type != wire.Rattach {
			vs.Fail("after the Tversion the connection no longer answers a Tattach: %v", r)
		}
		c2 := h.Connect()
		if r := c2.Version(8216, ver); r == nil || r.Type != wire.Rversion {
			vs.Fail("a new connection is not served: %v", r)
		}
	}
	check := func(x *vs.Exec) *Viol {
		for _, p := range x.Panics {
			return &Viol{Sig: "C06/panic/" + p.Frame + "/" + panicClass(p.Value), Msg: "a well-formed request pipelined in front of a Tversion makes the server panic: " + p.Value + "\n" + trimStack(p.Stack)}
		}
		if len(x.Fails) > 0 {
			return &Viol{Sig: "C06/liveness/" + sigWords(x.Fails[0]), Msg: x.Fails[0]}
		}
		return nil
	}
	return Scenario{Name: name, Run: func(rc *RunCtx) *Result {
		base, root = scratchDir("c06")
		defer os.RemoveAll(base)
		return runVs(rc, &VsSpec{Name: name, Body: body, Check: check, P: D})
	}}
}

// c06UfsStale: a fid whose file has changed under it - removed, renamed away, replaced
// by something of another kind - by another fid of the client or by the host, after the
// fid was opened and partly read. Every sequence of up to three further requests on the
// stale fid: the server answers (with errors, mostly) and stays up.
// c06ManyUsers: a client may name any 32-bit user id in Tattach and Tauth, as often as it
// likes. After n distinct ones (more than 2^16, more than any table of a plausible
// size) the server still answers a stat and a directory read of files owned by a user
// it has not looked up before, and nothing panics.
func c06ManyUsers(n int) Scenario {
	name := fmt.Sprintf("ufs after %d distinct user ids named in Tattach and Tauth", n)
	return Scenario{Name: name, Run: func(rc *RunCtx) *Result {
		res := &Result{Exhaustive: true}
		base, root := scratchDir("c06u")
		defer os.RemoveAll(base)
		os.MkdirAll(filepath.Join(root, "d"), 0o755)
		os.WriteFile(filepath.Join(root, "d", "f"), []byte("x"), 0o644)
		os.Chown(filepath.Join(root, "d", "f"), 4242, 4243) // an owner nobody attached as
		var bad string
		body := func() {
			h := newUfsH(root, 8216, true)
			cl := h.Connect()
			cl.Version(8216, "9P2000.u")
			// (sent in batches: the requests do not depend on each other)
			for i := 0; i < n; {
				var batch []*wire.Msg
				for k := 0; k < 500 && i < n; k, i = k+1, i+1 {
					uid := uint32(100000 + i)
					if i%2 == 0 {
						batch = append(batch, &wire.Msg{Type: wire.Tauth, Tag: uint16(1000 + k), Afid: 9, Uname: "", Aname: "", NUname: uid, HasNUname: true})
					} else {
						batch = append(batch, tattach(uint16(1000+k), uint32(5000+k), wire.NOFID, "", uid, true), &wire.Msg{Type: wire.Tclunk, Tag: uint16(2000 + k), Fid: uint32(5000 + k)})
					}
					res.Evals++
				}
				cl.Send(true, batch...)
				vs.Idle()
			}
			r := cl.Rpc(tattach(6, 0, wire.NOFID, "", 100001, true))
			if r == nil || r.Type != wire.Rattach {
				bad = fmt.Sprintf("an attach as a user named before is answered %v", r)
				return
			}
			if r := cl.Rpc(twalk(6, 0, 2, "d", "f")); r == nil || r.Type != wire.Rwalk || len(r.Wqid) != 2 {
				bad = fmt.Sprintf("walk answered %v", r)
				return
			}
			if r := cl.Rpc(&wire.Msg{Type: wire.Tstat, Tag: 7, Fid: 2}); r == nil || r.Type != wire.Rstat || r.Stat.NUid != 4242 {
				bad = fmt.Sprintf("Tstat of a file owned by uid 4242 is answered %v", r)
				return
			}
			cl.Rpc(twalk(6, 0, 3, "d"))
			cl.Rpc(&wire.Msg{Type: wire.Topen, Tag: 7, Fid: 3, Mode: 0})
			if r := cl.Rpc(&wire.Msg{Type: wire.Tread, Tag: 7, Fid: 3, Offset: 0, Count: 4000}); r == nil || r.Type != wire.Rread || len(r.Data) == 0 {
				bad = fmt.Sprintf("reading the directory is answered %v", r)
			}
		}
		x := vs.Run(nil, body, vs.Options{Horizon: 2000000000})
		res.Nontrivial = res.Evals
		res.States = 1
		res.Traces = 1
		if len(x.Panics) > 0 {
			p := x.Panics[0]
			res.Findings = append(res.Findings, Finding{Sig: "C06/panic/" + p.Frame, Msg: "after " + fmt.Sprint(n) + " distinct user ids: server goroutine panicked: " + p.Value + "\n" + trimStack(p.Stack)})
		} else if bad != "" {
			res.Findings = append(res.Findings, Finding{Sig: "C06/many-users/" + sigWords(bad), Msg: bad})
		}
		if x.HitHorizon {
			res.Exhaustive = false
			res.CapHit = "step horizon"
		}
		return res
	}}
}

func c06UfsStale(how string, dotu bool) Scenario {
	name := fmt.Sprintf("ufs stale fid (%s) dotu=%v: every sequence of <= 3 requests on it", how, dotu)
	return Scenario{Name: name, Run: func(rc *RunCtx) *Result {
		res := &Result{Exhaustive: true}
		base, root := scratchDir("c06s")
		defer os.RemoveAll(base)
		wst := wire.Stat{Type: 0xFFFF, Dev: 0xFFFFFFFF, Qid: wire.Qid{Type: 0xFF, Vers: 0xFFFFFFFF, Path: ^uint64(0)}, Mode: 0xFFFFFFFF, Atime: 0xFFFFFFFF, Mtime: 0xFFFFFFFF, Length: ^uint64(0), NUid: 0xFFFFFFFF, NGid: 0xFFFFFFFF, NMuid: 0xFFFFFFFF}
		reqs := []func() *wire.Msg{
			func() *wire.Msg { return &wire.Msg{Type: wire.Tstat, Fid: 1} },
			func() *wire.Msg { return &wire.Msg{Type: wire.Tread, Fid: 1, Offset: 0, Count: 200} },
			func() *wire.Msg { return &wire.Msg{Type: wire.Tread, Fid: 1, Offset: 0, Count: 4000} },
			func() *wire.Msg { return &wire.Msg{Type: wire.Tread, Fid: 1, Offset: 0, Count: 4000, Tag: 1} }, // marker: offset replaced by the last returned
			func() *wire.Msg { return &wire.Msg{Type: wire.Tread, Fid: 1, Offset: 77, Count: 300} },
			func() *wire.Msg { return &wire.Msg{Type: wire.Twrite, Fid: 1, Offset: 3, Data: []byte("xyz")} },
			func() *wire.Msg { st := wst; st.Mode = 0640; return &wire.Msg{Type: wire.Twstat, Fid: 1, Stat: st} },
			func() *wire.Msg { st := wst; st.Name = "again"; return &wire.Msg{Type: wire.Twstat, Fid: 1, Stat: st} },
			func() *wire.Msg { return twalk(0, 1, 2) },
			func() *wire.Msg { return twalk(0, 1, 2, "e1") },
			func() *wire.Msg { return twalk(0, 1, 2, "..") },
			func() *wire.Msg { return &wire.Msg{Type: wire.Tcreate, Fid: 1, Name: "n", Perm: 0644, Mode: 1} },
		}
		seen := map[string]bool{}
		var seqs [][]int
		for a := range reqs {
			seqs = append(seqs, []int{a})
			for b := range reqs {
				seqs = append(seqs, []int{a, b})
				for c := range reqs {
					seqs = append(seqs, []int{a, b, c})
				}
			}
		}
		for _, target := range []string{"d", "f"} {
			for _, seq := range seqs {
				if rc.Expired() {
					res.Exhaustive = false
					res.CapHit = "internal deadline"
					return res
				}
				os.RemoveAll(root)
				os.MkdirAll(filepath.Join(root, "d", "sub"), 0o755)
				for i := 0; i < 6; i++ {
					os.WriteFile(filepath.Join(root, "d", fmt.Sprintf("e%d", i)), []byte("entry"), 0o644)
				}
				os.WriteFile(filepath.Join(root, "f"), bytes.Repeat([]byte("file contents "), 40), 0o644)
				var bad string
				body := func() {
					h := newUfsH(root, 8216, dotu)
					cl := h.Connect()
					ver := "9P2000"
					un := ""
					if dotu {
						ver = "9P2000.u"
					} else {
						un = go9p.OsUsers.Uid2User(os.Geteuid()).Name()
					}
					cl.Version(8216, ver)
					tag := uint16(10)
					rpc := func(m *wire.Msg) *wire.Msg { tag++; m.Tag = tag; return cl.Rpc(m) }
					rpc(tattach(0, 0, wire.NOFID, un, uint32(os.Geteuid()), dotu))
					rpc(twalk(0, 0, 1, target))
					rpc(twalk(0, 0, 5, target))
					rpc(&wire.Msg{Type: wire.Topen, Fid: 1, Mode: 0})
					last := uint64(0)
					if r := rpc(&wire.Msg{Type: wire.Tread, Fid: 1, Offset: 0, Count: 200}); r != nil && r.Type == wire.Rread {
						last = uint64(len(r.Data))
					}
					p := filepath.Join(root, target)
					switch how {
					case "removed-by-host":
						os.RemoveAll(p)
					case "renamed-by-another-fid":
						st := wst
						st.Name = "elsewhere"
						rpc(&wire.Msg{Type: wire.Twstat, Fid: 5, Stat: st})
					case "replaced-by-other-kind":
						os.RemoveAll(p)
						if target == "d" {
							os.WriteFile(p, []byte("now a file"), 0o644)
						} else {
							os.Mkdir(p, 0o755)
						}
					case "made-unreadable-dir-emptied":
						if target == "d" {
							ents, _ := os.ReadDir(p)
							for _, e := range ents {
								os.RemoveAll(filepath.Join(p, e.Name()))
							}
						} else {
							os.Truncate(p, 0)
						}
					}
					for _, i := range seq {
						m := reqs[i]()
						if m.Type == wire.Tread && m.Tag == 1 {
							m.Offset = last
						}
						if r := rpc(m); r == nil {
							bad = fmt.Sprintf("%s was never answered", m)
							return
						} else if r.Type == wire.Rread && m.Offset == 0 {
							last = uint64(len(r.Data))
						}
					}
					if r := rpc(&wire.Msg{Type: wire.Tstat, Fid: 0}); r == nil || r.Type != wire.Rstat {
						bad = fmt.Sprintf("the connection no longer answers: %v", r)
						return
					}
					c2 := h.Connect()
					if r := c2.Version(8216, ver); r == nil || r.Type != wire.Rversion {
						bad = "a new connection is not served"
					}
				}
				x := vs.Run(nil, body, vs.Options{Horizon: 100000000})
				res.Evals++
				res.Nontrivial++
				res.States++
				res.Traces++
				res.Transitions += int64(len(seq))
				sig := ""
				if len(x.Panics) > 0 {
					sig = "C06/panic/" + x.Panics[0].Frame + "/" + panicClass(x.Panics[0].Value)
					bad = "panic: " + x.Panics[0].Value + "\n" + trimStack(x.Panics[0].Stack)
				} else if bad != "" {
					sig = "C06/liveness/stale-fid/" + sigWords(bad)
				}
				if sig != "" && !seen[sig] && len(res.Findings) < 6 {
					seen[sig] = true
					res.Findings = append(res.Findings, Finding{Sig: sig, Msg: fmt.Sprintf("%s, fid on %q, requests %v: %s", name, target, seq, bad)})
				}
			}
		}
		return res
	}}
}
