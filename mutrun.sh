#!/bin/bash
# usage: mutrun.sh <repo-dir-with-change-applied> <Cnn> [tier] [extra args]
# Runs a check against a modified copy of the repository without touching /verif/evidence.
d=$1; shift
mkdir -p /dev/shm/mutout
VERIF_REPO=$d VERIF_OUT_DIR=/dev/shm/mutout "$(dirname "$0")/check" "$@"
