#!/bin/bash
# Builds the instrumenter and warms the Go build cache with one instrumented build. Offline.
set -e
VERIF="$(cd "$(dirname "$0")" && pwd)"
GOROOT123=/root/go/pkg/mod/golang.org/toolchain@v0.0.1-go1.23.12.linux-amd64
if [ -x "$GOROOT123/bin/go" ]; then GO="$GOROOT123/bin/go"; export GOTOOLCHAIN=local; else GO=go; fi
unset GOSUMDB
export GOFLAGS=-mod=mod GOPROXY=off CGO_ENABLED=0
cd "$VERIF"
mkdir -p bin evidence replays
"$GO" build -o bin/vinst ./cmd/vinst
./check C03 quick --list >/dev/null
echo "setup ok"
