// Package sync is the scheduler-aware stand-in for the standard sync package
// used by the instrumented copy of go9p. Outside a controlled execution every
// type behaves exactly like the real one.
package sync

import (
	real "sync"

	"github.com/rminnich/go9p/vs"
)

type Locker = real.Locker
// Pool is a deterministic stand-in for sync.Pool. The real one may drop any idle
// item at any time (every garbage collection does); which items survive is an
// environment answer, so it is owned here: by default nothing is dropped, with
// PoolForgets set everything put back is dropped at once - both are behaviours the
// sync.Pool contract allows, and code that relies on either one is wrong.
type Pool struct {
	New   func() any
	mu    real.Mutex
	items []any
}

// PoolForgets makes every Pool forget what is put back (a collection between
// any Put and the next Get). Set by harnesses, reset by them.
var PoolForgets bool

func (p *Pool) Get() any {
	p.mu.Lock()
	if n := len(p.items); n > 0 && !PoolForgets {
		x := p.items[n-1]
		p.items = p.items[:n-1]
		p.mu.Unlock()
		return x
	}
	p.items = nil
	p.mu.Unlock()
	if p.New != nil {
		return p.New()
	}
	return nil
}

func (p *Pool) Put(x any) {
	if x == nil || PoolForgets {
		return
	}
	p.mu.Lock()
	p.items = append(p.items, x)
	p.mu.Unlock()
}
type Map = real.Map

type Mutex struct {
	st vs.MutexState
	mu real.Mutex
}

func (m *Mutex) Lock() {
	if !vs.MutexLock(&m.st) {
		m.mu.Lock()
	}
}

func (m *Mutex) Unlock() {
	if !vs.MutexUnlock(&m.st) {
		m.mu.Unlock()
	}
}

func (m *Mutex) TryLock() bool {
	if h, ok := vs.MutexTryLock(&m.st); h {
		return ok
	}
	return m.mu.TryLock()
}

type RWMutex struct {
	st vs.MutexState
	mu real.RWMutex
}

func (m *RWMutex) Lock() {
	if !vs.MutexLock(&m.st) {
		m.mu.Lock()
	}
}

func (m *RWMutex) Unlock() {
	if !vs.MutexUnlock(&m.st) {
		m.mu.Unlock()
	}
}

func (m *RWMutex) RLock() {
	if !vs.MutexRLock(&m.st) {
		m.mu.RLock()
	}
}

func (m *RWMutex) RUnlock() {
	if !vs.MutexRUnlock(&m.st) {
		m.mu.RUnlock()
	}
}

func (m *RWMutex) RLocker() Locker { return (*rlocker)(m) }

type rlocker RWMutex

func (r *rlocker) Lock()   { (*RWMutex)(r).RLock() }
func (r *rlocker) Unlock() { (*RWMutex)(r).RUnlock() }

// Once: the first caller runs f while holding an internal scheduler mutex, so
// later callers block until f has returned, as with the real Once.
type Once struct {
	m    Mutex
	done bool
	st   vs.OnceState
}

func (o *Once) Do(f func()) {
	if o.done {
		// the fast path of the real Once: a flag is loaded, nothing is published
		vs.OnceObserve(&o.st)
		return
	}
	o.m.Lock()
	defer o.m.Unlock()
	if !o.done {
		defer func() { o.done = true; vs.OncePublish(&o.st) }()
		f()
	}
}

type WaitGroup struct {
	st vs.WGState
	wg real.WaitGroup
}

func (w *WaitGroup) Add(d int) {
	if !vs.WGAdd(&w.st, d) {
		w.wg.Add(d)
	}
}

func (w *WaitGroup) Done() { w.Add(-1) }

func (w *WaitGroup) Wait() {
	if !vs.WGWait(&w.st) {
		w.wg.Wait()
	}
}
