package main

import (
	"fmt"
	"os"
	"strings"

	go9p "github.com/rminnich/go9p"
	"github.com/rminnich/go9p/vs"
	"harness/wire"
)

// The library's own tree-of-synthetic-files server (Fsrv) is an implementation of the
// request operations that calls the per-file operations supplied by its user. A request
// blocked inside one of those is "blocked inside the implementation" just as well, and
// the tree is shared by every connection.

// newOf allocates a value of the (unexported) file type from a nil pointer to it.
func newOf[T any](*T) *T { return new(T) }

type fsrvOps struct {
	name string
	hold map[string]*vs.Sem // "<op> <file>": the first such call waits here
	log  *[]string
}

func (o *fsrvOps) enter(op string) {
	k := op + " " + o.name
	*o.log = append(*o.log, "call "+k)
	if g := o.hold[k]; g != nil {
		delete(o.hold, k)
		g.Acquire()
		*o.log = append(*o.log, "released "+k)
	}
}
func (o *fsrvOps) Stat(fid *go9p.FFid) error                  { o.enter("stat"); return nil }
func (o *fsrvOps) Wstat(fid *go9p.FFid, d *go9p.Dir) error    { o.enter("wstat"); return nil }
func (o *fsrvOps) Open(fid *go9p.FFid, mode uint8) error      { o.enter("open"); return nil }
func (o *fsrvOps) Clunk(fid *go9p.FFid) error                 { o.enter("clunk"); return nil }
func (o *fsrvOps) Remove(fid *go9p.FFid) error                { o.enter("remove"); return nil }
func (o *fsrvOps) FidDestroy(fid *go9p.FFid)                  { o.enter("destroy") }
func (o *fsrvOps) Read(fid *go9p.FFid, b []byte, off uint64) (int, error) {
	o.enter("read")
	return copy(b, "contents of "+o.name), nil
}
func (o *fsrvOps) Write(fid *go9p.FFid, b []byte, off uint64) (int, error) {
	o.enter("write")
	return len(b), nil
}

// c08Fsrv: one request is held inside a per-file operation of the synthetic-tree server;
// requests with other tags that touch the same file, its directory, its children, and a
// second connection's attach and walk, are all answered meanwhile.
func c08Fsrv(op, file string, dotu bool, maxpend, P int) Scenario {
	var h *SrvH
	var c0, c1 *Cli
	var log []string
	var setup0 int
	var victims []uint16
	name := fmt.Sprintf("fsrv hold=%s(%s) maxpend=%d dotu=%v", op, file, maxpend, dotu)
	body := func() {
		log = nil
		victims = nil
		hold := map[string]*vs.Sem{}
		users := newUsers()
		u := users.Uid2User(7)
		var ff go9p.FFid
		mk := func(n string) *fsrvOps { return &fsrvOps{name: n, hold: hold, log: &log} }
		root := newOf(ff.F)
		if err := root.Add(nil, "/", u, nil, go9p.DMDIR|0777, mk("/")); err != nil {
			vs.Fail("setup: %v", err)
		}
		d := newOf(ff.F)
		d.Add(root, "d", u, nil, go9p.DMDIR|0777, mk("d"))
		f := newOf(ff.F)
		f.Add(d, "f", u, nil, 0666, mk("f"))
		g := newOf(ff.F)
		g.Add(d, "g", u, nil, 0666, mk("g"))
		fsrv := go9p.NewsrvFileSrv(root)
		fsrv.Msize, fsrv.Dotu, fsrv.Maxpend = 256, dotu, maxpend
		fsrv.Id = "fsrv"
		fsrv.Upool = users
		if !fsrv.Start(fsrv) {
			vs.Fail("setup: Fsrv refused")
		}
		h = &SrvH{Srv: &fsrv.Srv}
		c0, c1 = h.Connect(), h.Connect()
		ver := "9P2000"
		if dotu {
			ver = "9P2000.u"
		}
		tag := uint16(0)
		ok := func(c *Cli, m *wire.Msg, want uint8) {
			tag++
			m.Tag = tag
			if r := c.Rpc(m); r == nil || r.Type != want {
				vs.Fail("setup: %s answered by %v", m, r)
			}
		}
		for _, c := range []*Cli{c0, c1} {
			if r := c.Version(256, ver); r == nil || r.Type != wire.Rversion {
				vs.Fail("setup: version answered by %v", r)
			}
		}
		ok(c0, tattach(0, 0, wire.NOFID, "glenda", 7, dotu), wire.Rattach)
		path := map[string][]string{"/": nil, "d": {"d"}, "f": {"d", "f"}, "g": {"d", "g"}}
		ok(c0, twalk(0, 0, 10, path[file]...), wire.Rwalk) // the fid of the held request
		ok(c0, twalk(0, 0, 11, path[file]...), wire.Rwalk) // a second fid on the same file
		ok(c0, twalk(0, 0, 12, "d"), wire.Rwalk)
		var held *wire.Msg
		switch op {
		case "stat":
			held = &wire.Msg{Type: wire.Tstat, Fid: 10}
		case "wstat":
			st := wire.Stat{Type: 0xFFFF, Dev: 0xFFFFFFFF, Qid: wire.Qid{Type: 0xFF, Vers: 0xFFFFFFFF, Path: ^uint64(0)}, Mode: 0xFFFFFFFF, Atime: 0xFFFFFFFF, Mtime: 0xFFFFFFFF, Length: ^uint64(0), NUid: 0xFFFFFFFF, NGid: 0xFFFFFFFF, NMuid: 0xFFFFFFFF}
			held = &wire.Msg{Type: wire.Twstat, Fid: 10, Stat: st}
		case "open":
			held = &wire.Msg{Type: wire.Topen, Fid: 10, Mode: 0}
		case "read":
			ok(c0, &wire.Msg{Type: wire.Topen, Fid: 10, Mode: 0}, wire.Ropen)
			held = &wire.Msg{Type: wire.Tread, Fid: 10, Count: 32}
		case "write":
			ok(c0, &wire.Msg{Type: wire.Topen, Fid: 10, Mode: 1}, wire.Ropen)
			held = &wire.Msg{Type: wire.Twrite, Fid: 10, Data: []byte("abc")}
		case "clunk":
			held = &wire.Msg{Type: wire.Tclunk, Fid: 10}
		case "remove":
			held = &wire.Msg{Type: wire.Tremove, Fid: 10}
		}
		held.Tag = 100
		gate := vs.NewSem(0)
		hold[op+" "+file] = gate
		setup0 = len(c0.Collect())
		c1.Collect()
		c0.Send(dotu, held)
		vs.Idle()
		vs.Window(P > 0) // P == 0: the default schedule only, with more requests
		send := func(c *Cli, m *wire.Msg) {
			tag++
			m.Tag = 200 + tag
			if c == c0 {
				victims = append(victims, m.Tag)
			}
			c.Send(dotu, m)
		}
		send(c0, twalk(0, 0, 20, "d", "f"))
		send(c0, &wire.Msg{Type: wire.Tstat, Fid: 11})
		if P == 0 {
			send(c0, twalk(0, 0, 21, "d", "g"))
			send(c0, &wire.Msg{Type: wire.Tstat, Fid: 12})
			send(c0, &wire.Msg{Type: wire.Tstat, Fid: 0})
			send(c0, &wire.Msg{Type: wire.Tcreate, Fid: 12, Name: "new", Perm: 0644, Mode: 1})
			send(c0, twalk(0, 11, 22, ".."))
		}
		if P > 0 {
			vs.Idle()
			vs.Window(false)
		}
		send(c1, tattach(0, 0, wire.NOFID, "glenda", 7, dotu))
		vs.Idle()
		send(c1, twalk(0, 0, 20, "d", "f"))
		vs.Idle()
		vs.Window(false)
		c0.Collect()
		c1.Collect()
		log = append(log, "-- victims done")
		gate.Release()
		vs.Idle()
		c0.Collect()
	}
	check := stdCheck("C08", func(x *vs.Exec) *Viol {
		frames := c0.Frames[setup0:]
		detail := map[string]any{"wire": strings.Split(framesString(frames), "\n"), "ops": log, "parked": x.Parked}
		cut := len(frames)
		answered := map[uint16]bool{}
		var heldAt = -1
		for i, f := range frames {
			if f.Msg == nil {
				return &Viol{Sig: "C08/malformed-frame", Msg: f.Err, Detail: detail}
			}
			if f.Msg.Tag == 100 {
				heldAt = i
				if i < cut {
					cut = i
				}
				continue
			}
			if heldAt < 0 {
				answered[f.Msg.Tag] = true
			}
		}
		if heldAt < 0 {
			return &Viol{Sig: "C08/held-never-answered/fsrv", Msg: fmt.Sprintf("the request held in %s(%s) was never answered after its release\n%s", op, file, framesString(frames)), Detail: detail}
		}
		var missing []string
		for _, t := range victims {
			if !answered[t] {
				missing = append(missing, fmt.Sprint(t))
			}
		}
		if len(missing) > 0 {
			return &Viol{Sig: "C08/blocked-by-parked/fsrv", Msg: fmt.Sprintf("with a request held inside the %s operation of file %q of the synthetic-tree server, the requests with tags [%s] were not answered until it was released\n%s\nops: %v\nparked: %+v", op, file, strings.Join(missing, " "), framesString(frames), log, x.Parked), Detail: detail}
		}
		n1 := 0
		for _, f := range c1.Frames {
			if f.Msg != nil && f.Msg.Tag > 200 && f.Msg.Tag != 0xFFFF {
				n1++
			}
		}
		if n1 != 2 {
			return &Viol{Sig: "C08/blocked-by-parked/fsrv-other-connection", Msg: fmt.Sprintf("with a request held inside the %s operation of file %q, a second connection got %d of 2 replies (attach, walk to d/f)\nops: %v\nparked: %+v", op, file, n1, log, x.Parked), Detail: detail}
		}
		return nil
	}, nil)
	return vsScenario(&VsSpec{Name: name, Body: body, Check: check, P: P})
}

func c08FsrvScenarios(P int) []Scenario {
	var out []Scenario
	i := 0
	for _, file := range []string{"/", "d", "f"} {
		for _, op := range []string{"stat", "wstat", "open", "clunk", "read", "write", "remove"} {
			if (op == "read" || op == "write") && file != "f" {
				continue
			}
			if op == "remove" && file != "f" {
				continue
			}
			i++
			out = append(out, c08Fsrv(op, file, i%2 == 0, i%3, P))
		}
	}
	return out
}

// c08UfsSlowHost: the Unix file server blocked in the host - the open of one file does
// not return (a FIFO nobody writes to, a slow network file system; the seam is
// vs.OpenFile). Requests with other tags go on being answered meanwhile: on the fid
// being opened, on other fids of the connection, and on another connection.
func c08UfsSlowHost(held string, dotu bool, maxpend, P int) Scenario {
	var base, root string
	var c0, c1 *Cli
	var setup0 int
	var victims []uint16
	name := fmt.Sprintf("ufs host blocks in open of %s maxpend=%d dotu=%v", held, maxpend, dotu)
	body := func() {
		victims = nil
		os.RemoveAll(root)
		makeStdTree(root)
		gate := vs.NewSem(0)
		first := true
		vs.OpenFileHook = func(path string, flag int) {
			if first && strings.HasSuffix(path, "/"+held) {
				first = false
				gate.Acquire()
			}
		}
		h := newUfsH(root, 8216, dotu)
		h.Srv.Maxpend = maxpend
		c0, c1 = h.Connect(), h.Connect()
		ver := "9P2000"
		if dotu {
			ver = "9P2000.u"
		}
		c0.Version(8216, ver)
		c1.Version(8216, ver)
		un := ""
		if !dotu {
			un = go9p.OsUsers.Uid2User(os.Geteuid()).Name()
		}
		c0.Rpc(tattach(1, 0, wire.NOFID, un, uint32(os.Geteuid()), dotu))
		c0.Rpc(twalk(2, 0, 1, held))
		c0.Rpc(twalk(3, 0, 3, "d"))
		setup0 = len(c0.Collect())
		c1.Collect()
		c0.Send(dotu, &wire.Msg{Type: wire.Topen, Tag: 100, Fid: 1, Mode: 0})
		vs.Idle()
		vs.Window(P > 0)
		tag := uint16(200)
		send := func(c *Cli, m *wire.Msg) {
			tag++
			m.Tag = tag
			if c == c0 {
				victims = append(victims, tag)
			}
			c.Send(dotu, m)
		}
		send(c0, &wire.Msg{Type: wire.Tstat, Fid: 1}) // the fid being opened
		send(c0, twalk(0, 0, 5, "g"))
		if P == 0 {
			vs.Idle()
			send(c0, &wire.Msg{Type: wire.Topen, Fid: 5, Mode: 0})
			vs.Idle()
			send(c0, &wire.Msg{Type: wire.Tread, Fid: 5, Count: 16})
			send(c0, twalk(0, 1, 6)) // a clone of the fid being opened
			send(c0, &wire.Msg{Type: wire.Tstat, Fid: 3})
			// reads and writes that name the fid being opened (it is not open yet: they are
			// answered, with an error, without waiting for the host)
			send(c0, &wire.Msg{Type: wire.Tread, Fid: 1, Count: 16})
			send(c0, &wire.Msg{Type: wire.Twrite, Fid: 1, Data: []byte("w")})
		}
		vs.Idle()
		vs.Window(false)
		send(c1, tattach(0, 0, wire.NOFID, un, uint32(os.Geteuid()), dotu))
		vs.Idle()
		send(c1, twalk(0, 0, 5, held))
		vs.Idle()
		c0.Collect()
		c1.Collect()
		gate.Release()
		vs.Idle()
		c0.Collect()
	}
	check := stdCheck("C08", func(x *vs.Exec) *Viol {
		frames := c0.Frames[setup0:]
		detail := map[string]any{"wire": strings.Split(framesString(frames), "\n"), "parked": x.Parked}
		answered := map[uint16]bool{}
		heldAt := -1
		for i, f := range frames {
			if f.Msg == nil {
				return &Viol{Sig: "C08/malformed-frame", Msg: f.Err, Detail: detail}
			}
			if f.Msg.Tag == 100 {
				heldAt = i
				continue
			}
			if heldAt < 0 {
				answered[f.Msg.Tag] = true
			}
		}
		if heldAt < 0 {
			return &Viol{Sig: "C08/held-never-answered/ufs-slow-host", Msg: fmt.Sprintf("the Topen of %s was never answered after the host let it go\n%s", held, framesString(frames)), Detail: detail}
		}
		var missing []string
		for _, t := range victims {
			if !answered[t] {
				missing = append(missing, fmt.Sprint(t))
			}
		}
		if len(missing) > 0 {
			return &Viol{Sig: "C08/blocked-by-parked/ufs-slow-host", Msg: fmt.Sprintf("with a Topen of %s blocked in the host, the requests with tags [%s] were not answered until it returned\n%s\nparked: %+v", held, strings.Join(missing, " "), framesString(frames), x.Parked), Detail: detail}
		}
		n1 := 0
		for _, f := range c1.Frames {
			if f.Msg != nil && f.Msg.Tag > 200 && f.Msg.Tag != 0xFFFF {
				n1++
			}
		}
		if n1 != 2 {
			return &Viol{Sig: "C08/blocked-by-parked/ufs-slow-host-other-connection", Msg: fmt.Sprintf("with a Topen of %s blocked in the host, a second connection got %d of 2 replies (attach, walk)\nparked: %+v", held, n1, x.Parked), Detail: detail}
		}
		return nil
	}, nil)
	return Scenario{Name: name, Run: func(rc *RunCtx) *Result {
		base, root = scratchDir("c08")
		defer os.RemoveAll(base)
		defer func() { vs.OpenFileHook = nil }()
		return runVs(rc, &VsSpec{Name: name, Body: body, Check: check, P: P})
	}}
}

// c08ClunkRacingUse: a Tclunk (or Tremove) of a fid is written together with other
// requests that name the same fid under tags of their own, and with a request on
// another fid: in every schedule all of them are answered, and the connection and a
// second one go on being served.
func c08ClunkRacingUse(drop, use string, dotu bool, maxpend, P int) Scenario {
	var s *sess
	var c1 *Cli
	var after, other *wire.Msg
	name := fmt.Sprintf("%s of a fid written together with a %s on it maxpend=%d dotu=%v", drop, use, maxpend, dotu)
	body := func() {
		s = newSess(SrvOpt{Msize: 256, Dotu: dotu, Maxpend: maxpend})
		c1 = s.h.Connect()
		ver := "9P2000"
		if dotu {
			ver = "9P2000.u"
		}
		c1.Version(256, ver)
		c1.Rpc(tattach(1, 0, wire.NOFID, "glenda", 7, dotu))
		s.rpcOK(twalk(s.tag(), 0, 1, "d", "h"), wire.Rwalk)
		var d, u *wire.Msg
		if drop == "clunk" {
			d = &wire.Msg{Type: wire.Tclunk, Tag: 50, Fid: 1}
		} else {
			d = &wire.Msg{Type: wire.Tremove, Tag: 50, Fid: 1}
		}
		switch use {
		case "stat":
			u = &wire.Msg{Type: wire.Tstat, Tag: 51, Fid: 1}
		case "clone":
			u = twalk(51, 1, 2)
		case "open":
			u = &wire.Msg{Type: wire.Topen, Tag: 51, Fid: 1, Mode: 0}
		}
		s.setupN = len(s.c.Collect())
		vs.Window(true)
		s.c.Send(dotu, u, d, &wire.Msg{Type: wire.Tstat, Tag: 52, Fid: 0})
		vs.Idle()
		vs.Window(false)
		after = s.c.Rpc(&wire.Msg{Type: wire.Tstat, Tag: 60, Fid: 0})
		other = c1.Rpc(&wire.Msg{Type: wire.Tstat, Tag: 61, Fid: 0})
	}
	check := stdCheck("C08", func(x *vs.Exec) *Viol {
		frames := s.c.Frames[s.setupN:]
		got := map[uint16]int{}
		for _, f := range frames {
			if f.Msg != nil {
				got[f.Msg.Tag]++
			}
		}
		detail := map[string]any{"wire": strings.Split(framesString(frames), "\n"), "parked": x.Parked}
		for _, t := range []uint16{50, 51, 52} {
			if got[t] != 1 {
				return &Viol{Sig: "C08/unanswered/clunk-racing-use", Msg: fmt.Sprintf("a %s of fid 1 (tag 50), a %s on it (tag 51) and a Tstat of another fid (tag 52) were written together: tag %d got %d replies\n%s\nparked: %+v", drop, use, t, got[t], framesString(frames), x.Parked), Detail: detail}
			}
		}
		if after == nil || other == nil {
			return &Viol{Sig: "C08/server-stalled/clunk-racing-use", Msg: fmt.Sprintf("after a %s of a fid raced with a %s on it, later requests are not answered (same connection: %v, another connection: %v)\nparked: %+v", drop, use, after, other, x.Parked), Detail: detail}
		}
		return nil
	}, nil)
	return vsScenario(&VsSpec{Name: name, Body: body, Check: check, P: P})
}
