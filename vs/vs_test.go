package vs

import (
	"testing"
)

func TestLostUpdate(t *testing.T) {
	body := func() {
		x := 0
		done := make(chan bool)
		for i := 0; i < 2; i++ {
			Go("w", func() {
				Window(true)
				Yield()
				v := x
				Yield()
				x = v + 1
				Send(done, true)
			})
		}
		Recv(done)
		Recv(done)
		if x != 2 {
			Fail("lost update x=%d", x)
		}
	}
	chk := func(x *Exec) string {
		if len(x.Fails) > 0 {
			return x.Fails[0]
		}
		if len(x.Panics) > 0 {
			return x.Panics[0].Value
		}
		return ""
	}
	st, v := Explore(body, chk, Bounds{P: 0})
	if v != nil {
		t.Fatalf("P=0 should pass, got %v", v)
	}
	t.Logf("P0 execs=%d", st.Execs)
	st, v = Explore(body, chk, Bounds{P: 1})
	if v == nil {
		t.Fatalf("P=1 should find lost update; execs=%d", st.Execs)
	}
	t.Logf("found %s picks=%v after %d execs", v.Msg, v.Picks, st.Execs)
}

func TestChannels(t *testing.T) {
	body := func() {
		Window(true)
		c := make(chan int)
		b := make(chan int, 2)
		res := make(chan int, 10)
		Go("p", func() {
			Send(c, 1)
			Send(b, 2)
			Send(b, 3)
			Send(b, 4)
			Close(b)
		})
		Go("q", func() {
			v := Recv(c)
			Send(res, v)
			for {
				v, ok := Recv2(b)
				if !ok {
					break
				}
				Send(res, v)
			}
			Close(res)
		})
		sum := 0
		n := 0
		for {
			v, ok := Recv2(res)
			if !ok {
				break
			}
			sum += v
			n++
		}
		if sum != 10 || n != 4 {
			Fail("sum=%d n=%d", sum, n)
		}
	}
	chk := func(x *Exec) string {
		if len(x.Fails) > 0 {
			return x.Fails[0]
		}
		if len(x.Panics) > 0 {
			return x.Panics[0].Value + x.Panics[0].Stack
		}
		if len(x.Parked) > 0 {
			return "parked"
		}
		return ""
	}
	st, v := Explore(body, chk, Bounds{P: 3})
	if v != nil {
		t.Fatalf("violation %v", v)
	}
	t.Logf("execs=%d distinct=%d exhaustive=%v", st.Execs, len(st.Distinct), st.Exhaustive)
	if err := SelfTest(body, 0); err != nil {
		t.Fatal(err)
	}
}

func TestSelectAndDeadlock(t *testing.T) {
	// select picks both cases; deadlock detected when nobody sends
	seen := map[int]bool{}
	body := func() {
		Window(true)
		a := make(chan int, 1)
		b := make(chan int, 1)
		Send(a, 1)
		Send(b, 2)
		s := NewSel(false)
		AddRecv(s, a)
		AddRecv(s, b)
		switch RunSel(s) {
		case 0:
			seen[Got(s, a)] = true
		case 1:
			seen[Got(s, b)] = true
		}
	}
	chk := func(x *Exec) string { return "" }
	st, _ := Explore(body, chk, Bounds{})
	if !seen[1] || !seen[2] || st.Execs != 2 {
		t.Fatalf("select alternatives: %v execs=%d", seen, st.Execs)
	}
	dl := func() {
		c := make(chan int)
		Go("r", func() { Recv(c) })
		Idle()
	}
	x := Run(nil, dl, Options{})
	if !x.Quiescent || len(x.Parked) != 1 || x.Parked[0].Op != "recv" {
		t.Fatalf("expected one parked receiver: %+v", x.Parked)
	}
	// panic capture
	pn := func() {
		Go("p", func() { var m map[int]int; m[1] = 1 })
		Idle()
	}
	x = Run(nil, pn, Options{})
	if len(x.Panics) != 1 {
		t.Fatalf("expected panic, got %+v", x)
	}
	t.Log(x.Panics[0].Value, "|", x.Panics[0].Frame)
}

func TestScheduleCount(t *testing.T) {
	// two goroutines with k yields each: number of interleavings = C(2k,k) unbounded
	k := 3
	body := func() {
		d := NewSem(0)
		for i := 0; i < 2; i++ {
			Go("w", func() {
				for j := 0; j < k; j++ {
					Yield()
				}
				d.Release()
			})
		}
		Window(true)
		d.Acquire()
		d.Acquire()
	}
	st, _ := Explore(body, func(*Exec) string { return "" }, Bounds{P: 100})
	t.Logf("execs=%d distinct=%d", st.Execs, len(st.Distinct))
}

func TestVnet(t *testing.T) {
	body := func() {
		Window(true)
		a, b := Pipe("a", "b")
		Go("w", func() {
			a.Write([]byte("hello"))
			a.Write([]byte("world"))
			a.Close()
		})
		var got []byte
		buf := make([]byte, 4)
		for {
			n, err := b.Read(buf)
			got = append(got, buf[:n]...)
			if err != nil {
				break
			}
		}
		if string(got) != "helloworld" {
			Fail("got %q", got)
		}
	}
	chk := func(x *Exec) string {
		if len(x.Fails) > 0 {
			return x.Fails[0]
		}
		if len(x.Panics) > 0 {
			return x.Panics[0].Value
		}
		return ""
	}
	st, v := Explore(body, chk, Bounds{P: 3})
	if v != nil {
		t.Fatal(v)
	}
	t.Logf("execs=%d", st.Execs)
}

func TestRendezvousBothMovers(t *testing.T) {
	// every value sent on an unbuffered channel is received exactly once, whichever side moves
	body := func() {
		Window(true)
		c := make(chan int)
		out := make(chan int, 8)
		Go("s", func() { Send(c, 1); Send(c, 2) })
		Go("r", func() {
			for i := 0; i < 2; i++ {
				s := NewSel(false)
				AddRecv(s, c)
				RunSel(s)
				Send(out, Got(s, c))
			}
		})
		Idle()
		if Len(out) != 2 {
			Fail("received %d values", Len(out))
		}
	}
	chk := func(x *Exec) string {
		if len(x.Fails) > 0 {
			return x.Fails[0]
		}
		if len(x.Parked) > 0 {
			return "parked"
		}
		return ""
	}
	st, v := Explore(body, chk, Bounds{P: 4})
	if v != nil {
		t.Fatal(v)
	}
	t.Logf("execs=%d", st.Execs)
}

func hbRaces(t *testing.T, body func()) map[string]bool {
	found := map[string]bool{}
	chk := func(x *Exec) string {
		for _, r := range x.Races() {
			found[r.Key()] = true
		}
		if len(x.Panics) > 0 {
			return x.Panics[0].Value + x.Panics[0].Stack
		}
		return ""
	}
	_, v := Explore(body, chk, Bounds{P: 2})
	if v != nil {
		t.Fatal(v.Msg)
	}
	return found
}

type hbT struct {
	a, b int
	m    MutexState
}

func TestHBMonitor(t *testing.T) {
	// unsynchronised write/write
	r := hbRaces(t, func() {
		EnableHB()
		Window(true)
		x := &hbT{}
		d := NewSem(0)
		for i := 0; i < 2; i++ {
			Go("w", func() { *Wr(&x.a, "site-w") = 1; d.Release() })
		}
		d.Acquire()
		d.Acquire()
	})
	if len(r) != 1 {
		t.Fatalf("expected one race, got %v", r)
	}
	// different fields of one struct: no race
	r = hbRaces(t, func() {
		EnableHB()
		Window(true)
		x := &hbT{}
		Go("w1", func() { *Wr(&x.a, "a") = 1 })
		Go("w2", func() { *Wr(&x.b, "b") = 1 })
		Idle()
	})
	if len(r) != 0 {
		t.Fatalf("disjoint fields must not race: %v", r)
	}
	// mutex protected
	r = hbRaces(t, func() {
		EnableHB()
		Window(true)
		x := &hbT{}
		for i := 0; i < 2; i++ {
			Go("w", func() { MutexLock(&x.m); *Wr(&x.a, "locked") = *Rd(&x.a, "locked-r") + 1; MutexUnlock(&x.m) })
		}
		Idle()
	})
	if len(r) != 0 {
		t.Fatalf("mutex-protected accesses must not race: %v", r)
	}
	// channel hand-off, buffered and unbuffered
	for _, cp := range []int{0, 1} {
		r = hbRaces(t, func() {
			EnableHB()
			Window(true)
			x := &hbT{}
			c := make(chan int, cp)
			Go("p", func() { *Wr(&x.a, "before-send") = 1; Send(c, 1) })
			Go("q", func() { Recv(c); *Wr(&x.a, "after-recv") = 2 })
			Idle()
		})
		if len(r) != 0 {
			t.Fatalf("cap %d: send happens before receive: %v", cp, r)
		}
	}
	// write after send races with the receiver's read
	r = hbRaces(t, func() {
		EnableHB()
		Window(true)
		x := &hbT{}
		c := make(chan int, 1)
		Go("p", func() { Send(c, 1); *Wr(&x.a, "after-send") = 1 })
		Go("q", func() { Recv(c); _ = *Rd(&x.a, "after-recv") })
		Idle()
	})
	if len(r) != 1 {
		t.Fatalf("expected the after-send race, got %v", r)
	}
	// go statement orders parent's earlier writes before the child
	r = hbRaces(t, func() {
		EnableHB()
		Window(true)
		x := &hbT{}
		*Wr(&x.a, "parent") = 1
		Go("c", func() { _ = *Rd(&x.a, "child") })
		Idle()
	})
	if len(r) != 0 {
		t.Fatalf("go statement edge missing: %v", r)
	}
	// capacity edge: with cap 1, the 2nd send happens after the 1st receive
	r = hbRaces(t, func() {
		EnableHB()
		Window(true)
		x := &hbT{}
		c := make(chan int, 1)
		Go("q", func() { _ = *Rd(&x.a, "reader-before-recv"); Recv(c); Recv(c) })
		Go("p", func() { Send(c, 1); Send(c, 2); *Wr(&x.a, "writer-after-2nd-send") = 1 })
		Idle()
	})
	if len(r) != 0 {
		t.Fatalf("capacity edge missing: %v", r)
	}
}

func TestStatePruning(t *testing.T) {
	// the same verdicts and the same set of distinct behaviours with and without pruning
	mk := func() (func(), *[]string) {
		outs := &[]string{}
		body := func() {
			Window(true)
			x := 0
			var m MutexState
			c := make(chan int, 1)
			d := NewSem(0)
			for i := 0; i < 3; i++ {
				i := i
				Go("w", func() {
					MutexLock(&m)
					x = x*3 + i
					MutexUnlock(&m)
					if i == 0 {
						Send(c, x)
					}
					d.Release()
				})
			}
			d.Acquire()
			d.Acquire()
			d.Acquire()
			v := Recv(c)
			*outs = append(*outs, string(rune('a'+x%26))+string(rune('a'+v%26)))
		}
		return body, outs
	}
	b1, o1 := mk()
	s1, _ := Explore(b1, func(*Exec) string { return "" }, Bounds{P: 50})
	b2, o2 := mk()
	s2, _ := Explore(b2, func(*Exec) string { return "" }, Bounds{P: 50, Prune: true})
	set := func(xs []string) map[string]bool {
		m := map[string]bool{}
		for _, x := range xs {
			m[x] = true
		}
		return m
	}
	a, b := set(*o1), set(*o2)
	if len(a) != len(b) {
		t.Fatalf("pruned search saw %d outcomes, full search %d", len(b), len(a))
	}
	for k := range a {
		if !b[k] {
			t.Fatalf("outcome %s missed by the pruned search", k)
		}
	}
	if len(s1.Distinct) != len(s2.Distinct) {
		t.Fatalf("distinct behaviours %d vs %d", len(s1.Distinct), len(s2.Distinct))
	}
	t.Logf("full: %d execs; pruned: %d execs (%d choice points pruned); %d outcomes, %d behaviours", s1.Execs, s2.Execs, s2.Pruned, len(a), len(s1.Distinct))
}
