package main

import (
	"time"
	"bytes"
	"fmt"
	"os"
	"path/filepath"
	"sort"
	"strings"

	"github.com/rminnich/go9p"
	"github.com/rminnich/go9p/vs"
	"harness/wire"
)

// C19: no data races when concurrent requests operate on different fids.
// The package is built with memory-access tracking (vinst -hb); every explored
// schedule is analysed by the happens-before monitor in vs/hb.go.

func c19Check(x *vs.Exec) *Viol {
	for _, p := range x.Panics {
		return &Viol{Sig: "C19/panic/" + p.Frame + "/" + panicClass(p.Value), Msg: "panic: " + p.Value + "\n" + trimStack(p.Stack)}
	}
	rs := x.Races()
	if len(x.Fails) > 0 && len(rs) == 0 {
		if strings.HasPrefix(x.Fails[0], "payload overwritten during the write") {
			return &Viol{Sig: "C19/race-effect/request-payload-overwritten-while-in-use", Msg: "a request's payload was overwritten by another goroutine while the file server was using it (the happens-before monitor did not flag this schedule because a lock handed over in between orders the two accesses here; with the two goroutines running freely they are concurrent): " + x.Fails[0]}
		}
		return &Viol{Sig: "C19/harness/" + sigWords(x.Fails[0]), Msg: x.Fails[0]}
	}
	if len(rs) == 0 {
		return nil
	}
	var all []string
	for _, r := range rs {
		all = append(all, r.String())
	}
	r := rs[0]
	a, b := r.SiteA, r.SiteB
	if a > b {
		a, b = b, a
	}
	return &Viol{Sig: "C19/race/" + a + "/" + b, Msg: "data race inside the library: " + strings.Join(all, "\n"), Detail: all}
}

// (a) one client shared by several goroutines against Ufs
func c19UfsScenario(nworkers int, dotu bool, D int) Scenario {
	var root, base string
	var results []string
	body := func() {
		vs.EnableHB()
		resetClientGlobals()
		os.RemoveAll(root)
		os.MkdirAll(filepath.Join(root, "sub"), 0o755)
		for i := 0; i < nworkers; i++ {
			os.WriteFile(filepath.Join(root, "sub", fmt.Sprintf("f%d", i)), []byte(fmt.Sprintf("content of file %d", i)), 0o644)
			// distinct owners: every stat looks up a user id nobody has asked for before (the user cache is reset per execution)
			os.Chown(filepath.Join(root, "sub", fmt.Sprintf("f%d", i)), 1000+i, 2000+i)
		}
		h := newUfsH(root, 8216, dotu)
		ce, se := vs.Pipe("clnt", "ufs")
		h.Srv.NewConn(se)
		c, err := go9p.Connect(ce, 8216, dotu)
		if err != nil {
			vs.Fail("Connect: %v", err)
		}
		fid, err := c.Attach(nil, go9p.OsUsers.Uid2User(os.Geteuid()), "")
		if err != nil {
			vs.Fail("Attach: %v", err)
		}
		c.Root = fid
		results = make([]string, nworkers)
		vs.Window(true)
		for i := 0; i < nworkers; i++ {
			i := i
			vs.Go("worker", func() {
				f, err := c.FOpen(fmt.Sprintf("sub/f%d", i), go9p.ORDWR)
				if err != nil {
					results[i] = "open: " + err.Error()
					return
				}
				buf := make([]byte, 64)
				n, _ := f.Read(buf)
				if _, err := f.WriteAt([]byte("W"), 0); err != nil {
					results[i] = "write: " + err.Error()
				}
				if _, err := c.Stat(f.Fid); err != nil {
					results[i] = "stat: " + err.Error()
				}
				f.Close()
				if results[i] == "" {
					results[i] = string(buf[:n])
				}
			})
		}
		vs.Idle()
		vs.Window(false)
		for i, r := range results {
			if r != fmt.Sprintf("content of file %d", i) {
				vs.Fail("worker %d: %q", i, r)
			}
		}
	}
	name := fmt.Sprintf("shared-client-ufs workers=%d dotu=%v", nworkers, dotu)
	return Scenario{Name: name, Run: func(rc *RunCtx) *Result {
		base, root = scratchDir("c19")
		defer os.RemoveAll(base)
		return runVs(rc, &VsSpec{Name: name, Body: body, Check: c19Check, P: D, Delay: true, Sample: func() any { return results }})
	}}
}

// (e) Ufs behind raw frames at a small msize: writes on distinct fids pipelined with
// enough further traffic (on yet other fids) for the 8 x msize receive buffer to be used
// up while the writes are still being carried out; the transport hands the server one
// bounded piece per read
func c19UfsPipelineScenario(msize uint32, piece int, dotu bool, D int) Scenario {
	var root, base string
	name := fmt.Sprintf("ufs-pipelined-writes msize=%d piece=%d dotu=%v", msize, piece, dotu)
	body := func() {
		vs.EnableHB()
		os.RemoveAll(root)
		os.MkdirAll(root, 0o755)
		for i := 0; i < 3; i++ {
			os.WriteFile(filepath.Join(root, fmt.Sprintf("w%d", i)), []byte("old"), 0o644)
		}
		h := newUfsH(root, msize, dotu)
		c := h.Connect()
		ver := "9P2000"
		if dotu {
			ver = "9P2000.u"
		}
		c.Version(msize, ver)
		un := ""
		if !dotu {
			un = go9p.OsUsers.Uid2User(os.Geteuid()).Name()
		}
		if r := c.Rpc(tattach(1, 0, wire.NOFID, un, uint32(os.Geteuid()), dotu)); r == nil || r.Type != wire.Rattach {
			vs.Fail("attach answered by %v", r)
		}
		for i := 0; i < 3; i++ {
			c.Rpc(twalk(2, 0, uint32(1+i), fmt.Sprintf("w%d", i)))
			if r := c.Rpc(&wire.Msg{Type: wire.Topen, Tag: 3, Fid: uint32(1 + i), Mode: 1}); r == nil || r.Type != wire.Ropen {
				vs.Fail("open answered by %v", r)
			}
		}
		var ms []*wire.Msg
		tag := uint16(20)
		payload := func(i int) []byte { return bytes.Repeat([]byte{byte('A' + i)}, int(msize)-24-i) }
		for i := 0; i < 3; i++ {
			ms = append(ms, &wire.Msg{Type: wire.Twrite, Tag: tag, Fid: uint32(1 + i), Offset: 0, Data: payload(i)})
			tag++
		}
		// about 8 x msize of further requests on other fids
		// (walks from the shared root fid, each to a fid of its own, as the precondition allows)
		// long (missing) names keep the number of requests, and with it the schedule space, small
		long := strings.Repeat("n", int(msize)-24)
		for n := 0; n < int(msize)*8; n += int(msize) - 5 {
			ms = append(ms, twalk(tag, 0, uint32(100+int(tag)), long))
			tag++
		}
		// piece > 0: bounded pieces; piece == 0: exactly one frame per read, so that the
		// buffer runs out on a frame boundary
		var ends []int
		off := c.SrvEnd.ReadOffset()
		for _, m := range ms {
			off += len(wire.Encode(m, dotu))
			ends = append(ends, off)
		}
		c.SrvEnd.Seg = func(avail, want int) int {
			if piece > 0 {
				return piece
			}
			at := c.SrvEnd.ReadOffset()
			for _, e := range ends {
				if e > at {
					return e - at
				}
			}
			return avail
		}
		vs.Window(true)
		c.Send(dotu, ms...)
		vs.Idle()
		vs.Window(false)
		for i := 0; i < 3; i++ {
			got, _ := os.ReadFile(filepath.Join(root, fmt.Sprintf("w%d", i)))
			if !bytes.Equal(got, payload(i)) {
				// only another goroutine writing the request's payload while the write was being
				// carried out can do this: the race itself, seen through its effect
				vs.Fail("payload overwritten during the write: file w%d holds %q, the client sent %q", i, got, payload(i))
			}
		}
	}
	return Scenario{Name: name, Run: func(rc *RunCtx) *Result {
		base, root = scratchDir("c19")
		defer os.RemoveAll(base)
		return runVs(rc, &VsSpec{Name: name, Body: body, Check: c19Check, P: D, Delay: true})
	}}
}

// (f) the Unix file server told to export a path that goes through a symbolic link:
// two connections send their first Tattach at the same time, then work on their own fids
func c19UfsSymlinkedRoot(dotu bool, D int) Scenario { return c19UfsSpelledRoot("", dotu, D) }

// spelling: appended to the root the server is told to export (a trailing or doubled
// slash, a "." element: the same directory, not spelled canonically)
func c19UfsSpelledRoot(spelling string, dotu bool, D int) Scenario {
	var root, base string
	name := fmt.Sprintf("ufs-symlinked-root two first attaches dotu=%v", dotu)
	if spelling != "" {
		name = fmt.Sprintf("ufs-symlinked-root spelled +%q two first attaches dotu=%v", spelling, dotu)
	}
	body := func() {
		vs.EnableHB()
		os.RemoveAll(root)
		os.MkdirAll(filepath.Join(root, "d"), 0o755)
		os.WriteFile(filepath.Join(root, "f"), []byte("x"), 0o644)
		link := filepath.Join(base, "export-link")
		os.Remove(link)
		os.Symlink(root, link)
		h := newUfsH(link+spelling, 8216, dotu)
		ver := "9P2000"
		if dotu {
			ver = "9P2000.u"
		}
		un := ""
		if !dotu {
			un = go9p.OsUsers.Uid2User(os.Geteuid()).Name()
		}
		c1, c2 := h.Connect(), h.Connect()
		c1.Version(8216, ver)
		c2.Version(8216, ver)
		vs.Window(true)
		c1.Send(dotu, tattach(1, 0, wire.NOFID, un, uint32(os.Geteuid()), dotu))
		c2.Send(dotu, tattach(1, 0, wire.NOFID, un, uint32(os.Geteuid()), dotu))
		vs.Idle()
		c1.Send(dotu, twalk(2, 0, 1, "d"), &wire.Msg{Type: wire.Tstat, Tag: 3, Fid: 0})
		c2.Send(dotu, twalk(2, 0, 1, "f"))
		vs.Idle()
		vs.Window(false)
	}
	return Scenario{Name: name, Run: func(rc *RunCtx) *Result {
		base, root = scratchDir("c19")
		defer os.RemoveAll(base)
		return runVs(rc, &VsSpec{Name: name, Body: body, Check: c19Check, P: D, Delay: true})
	}}
}

// (b)(c)(d) server framework with the scripted implementation: pipelined requests on
// distinct fids right after Tversion, one request parked and flushed, a second
// connection opened, used and dropped while the first stays busy
func c19SrvScenario(variant string, dotu bool, D int) Scenario {
	name := fmt.Sprintf("server-%s dotu=%v", variant, dotu)
	body := func() {
		vs.EnableHB()
		fs := NewFS()
		fs.FlushMode = "cancel"
		fs.NoLateAnswer = true // an implementation that cancels a request must not go on answering it
		h := NewSrvH(fs, SrvOpt{Msize: 8216, Dotu: dotu, Flush: variant != "flush-without-flushop" && variant != "flush-of-flush" && variant != "flush-of-queued-slow-respond", ReqHooks: variant == "flush-of-queued-slow-respond", Maxpend: 1})
		c := h.Connect()
		ver := "9P2000"
		if dotu {
			ver = "9P2000.u"
		}
		att := tattach(1, 0, wire.NOFID, "", 7, dotu)
		if !dotu {
			att.Uname = "glenda"
		}
		switch variant {
		case "version-then-pipeline":
			vs.Window(true)
			// Tversion and the requests that follow it in one segment: the client does not wait
			c.Dotu = dotu
			c.Send(false, &wire.Msg{Type: wire.Tversion, Tag: wire.NOTAG, Msize: 8216, Version: ver})
			vs.Idle()
			c.Send(dotu, att)
			vs.Idle()
			c.Send(dotu, twalk(2, 0, 1, "d"), twalk(3, 0, 2, "f"), twalk(4, 0, 3, "g"), &wire.Msg{Type: wire.Tstat, Tag: 5, Fid: 0})
			vs.Idle()
			c.Send(dotu, &wire.Msg{Type: wire.Topen, Tag: 6, Fid: 2, Mode: 0}, &wire.Msg{Type: wire.Topen, Tag: 7, Fid: 3, Mode: 1}, &wire.Msg{Type: wire.Tstat, Tag: 8, Fid: 1})
			vs.Idle()
			c.Send(dotu, &wire.Msg{Type: wire.Tread, Tag: 9, Fid: 2, Count: 16}, &wire.Msg{Type: wire.Twrite, Tag: 10, Fid: 3, Data: []byte("abc")}, &wire.Msg{Type: wire.Tclunk, Tag: 11, Fid: 1})
			vs.Idle()
		case "flush", "flush-without-flushop":
			c.Version(8216, ver)
			c.Rpc(att)
			c.Rpc(twalk(2, 0, 1, "f"))
			c.Rpc(twalk(3, 0, 2, "g"))
			c.Rpc(&wire.Msg{Type: wire.Topen, Tag: 4, Fid: 1, Mode: 0})
			gate := vs.NewSem(0)
			fs.Script[reqKey{0, 20, 0}] = &Action{Gate: gate}
			vs.Window(true)
			c.Send(dotu, &wire.Msg{Type: wire.Tread, Tag: 20, Fid: 1, Count: 8}, &wire.Msg{Type: wire.Tstat, Tag: 21, Fid: 2})
			c.Send(dotu, &wire.Msg{Type: wire.Tflush, Tag: 22, Oldtag: 20}, &wire.Msg{Type: wire.Tstat, Tag: 23, Fid: 0})
			vs.Go("releaser", func() { gate.Release() })
			vs.Idle()
		case "flush-before-start":
			// a Tflush in the same segment as its target (it may find the target not started yet),
			// followed at once by requests on other fids
			c.Version(8216, ver)
			c.Rpc(att)
			c.Rpc(twalk(2, 0, 1, "f"))
			c.Rpc(twalk(3, 0, 2, "g"))
			// (if the target does reach the implementation it waits there, so that the worker and
			// the implementation's Flush handler settle between them who answers)
			gate := vs.NewSem(0)
			fs.Script[reqKey{0, 20, 0}] = &Action{Gate: gate}
			vs.Window(true)
			c.Send(dotu, &wire.Msg{Type: wire.Tstat, Tag: 20, Fid: 1}, &wire.Msg{Type: wire.Tflush, Tag: 22, Oldtag: 20})
			c.Send(dotu, &wire.Msg{Type: wire.Tstat, Tag: 23, Fid: 2})
			c.Send(dotu, &wire.Msg{Type: wire.Tstat, Tag: 24, Fid: 0})
			vs.Go("releaser", func() { gate.Release() })
			vs.Idle()
		case "flush-of-queued-slow-respond":
			// a request queued behind another one with the same tag is cancelled by a Tflush; the
			// implementation is slow in SrvReqRespond for the cancelled request; the first one
			// completes (the cancelled one's turn comes and goes); other traffic follows
			c.Version(8216, ver)
			c.Rpc(att)
			c.Rpc(twalk(2, 0, 1, "f"))
			c.Rpc(twalk(3, 0, 2, "g"))
			gate := vs.NewSem(0)
			fs.Script[reqKey{0, 20, 0}] = &Action{Gate: gate}
			c.Send(dotu, &wire.Msg{Type: wire.Tstat, Tag: 20, Fid: 1})
			vs.Idle()
			c.Send(dotu, &wire.Msg{Type: wire.Tstat, Tag: 20, Fid: 2})
			vs.Idle()
			rg := vs.NewSem(0)
			RespondGate = rg
			vs.Window(true)
			c.Send(dotu, &wire.Msg{Type: wire.Tflush, Tag: 22, Oldtag: 20})
			vs.Idle()
			gate.Release()
			vs.Idle()
			c.Send(dotu, &wire.Msg{Type: wire.Tstat, Tag: 23, Fid: 0}, &wire.Msg{Type: wire.Tstat, Tag: 24, Fid: 2})
			vs.Idle()
			rg.Release()
			vs.Idle()
		case "flush-of-flush":
			// a request held in the implementation, a Tflush waiting for it, and - at the moment the
			// request completes - a Tflush of that Tflush (flushes are requests on no fid at all)
			c.Version(8216, ver)
			c.Rpc(att)
			c.Rpc(twalk(2, 0, 1, "f"))
			c.Rpc(&wire.Msg{Type: wire.Topen, Tag: 4, Fid: 1, Mode: 0})
			gate := vs.NewSem(0)
			fs.Script[reqKey{0, 20, 0}] = &Action{Gate: gate}
			c.Send(dotu, &wire.Msg{Type: wire.Tread, Tag: 20, Fid: 1, Count: 8})
			vs.Idle()
			c.Send(dotu, &wire.Msg{Type: wire.Tflush, Tag: 22, Oldtag: 20})
			vs.Idle()
			vs.Window(true)
			vs.Go("releaser", func() { gate.Release() })
			c.Send(dotu, &wire.Msg{Type: wire.Tflush, Tag: 24, Oldtag: 22})
			vs.Idle()
		case "second-connection":
			c.Version(8216, ver)
			c.Rpc(att)
			c.Rpc(twalk(2, 0, 1, "f"))
			vs.Window(true)
			c.Send(dotu, &wire.Msg{Type: wire.Tstat, Tag: 30, Fid: 1}, twalk(31, 0, 2, "d"))
			c2 := h.Connect()
			c2.Send(false, &wire.Msg{Type: wire.Tversion, Tag: wire.NOTAG, Msize: 8216, Version: ver})
			vs.Idle()
			a2 := *att
			a2.Tag = 2
			c2.Send(dotu, &a2)
			c.Send(dotu, &wire.Msg{Type: wire.Tstat, Tag: 32, Fid: 0})
			vs.Idle()
			c2.Send(dotu, &wire.Msg{Type: wire.Tstat, Tag: 3, Fid: 0})
			vs.Idle()
			// its requests are answered: drop it while the first connection keeps going
			c2.End.Close()
			c.Send(dotu, &wire.Msg{Type: wire.Tstat, Tag: 33, Fid: 1}, &wire.Msg{Type: wire.Tclunk, Tag: 34, Fid: 2})
			vs.Idle()
		}
		vs.Window(false)
	}
	return Scenario{Name: name, Run: func(rc *RunCtx) *Result {
		return runVs(rc, &VsSpec{Name: name, Body: body, Check: c19Check, P: D, Delay: true})
	}}
}

// client side against the scripted peer (no server code involved)
func c19ClientScenario(ncallers int, dotu bool, D int) Scenario {
	name := fmt.Sprintf("shared-client-peer callers=%d dotu=%v", ncallers, dotu)
	body := func() {
		vs.EnableHB()
		c, peer := newClientPair(8192, dotu)
		peer.Batch = ncallers
		peer.BatchOnce = true
		vs.Window(true)
		for i := 0; i < ncallers; i++ {
			i := i
			vs.Go("caller", func() {
				doCall(c, callSpec{[]string{"read", "stat", "write"}[i%3], uint32(10 + i)})
				doCall(c, callSpec{"clunk", uint32(10 + i)})
			})
		}
		vs.Idle()
		vs.Window(false)
	}
	return Scenario{Name: name, Run: func(rc *RunCtx) *Result {
		return runVs(rc, &VsSpec{Name: name, Body: body, Check: c19Check, P: D, Delay: true})
	}}
}

// (l) callers of one client, each on a fid of its own, that hand the library the same
// argument values (one *Dir as a template for several Wstat calls, one slice of names
// for several walks, one buffer written by several Writes): arguments are the caller's,
// the library only reads them
func c19ClientSharedArgs(ncallers int, viaTag, dotu bool, D int) Scenario {
	name := fmt.Sprintf("shared-client-peer callers=%d passing the same argument values via-tag=%v dotu=%v", ncallers, viaTag, dotu)
	body := func() {
		vs.EnableHB()
		c, peer := newClientPair(8192, dotu)
		peer.Batch = ncallers
		peer.BatchOnce = true
		tmpl := &go9p.Dir{Mode: 0644, Name: "", Uid: "", Gid: "", Muid: "", Length: ^uint64(0), Atime: ^uint32(0), Mtime: ^uint32(0), Uidnum: go9p.NOUID, Gidnum: go9p.NOUID, Muidnum: go9p.NOUID}
		names := []string{"a", "b"}
		data := []byte("the same bytes")
		vs.Window(true)
		for i := 0; i < ncallers; i++ {
			i := i
			vs.Go("caller", func() {
				f := mkFid(c, uint32(10+i))
				switch {
				case viaTag:
					t := c.TagAlloc(make(chan *go9p.Req, 4))
					t.Wstat(f, tmpl)
				case i%3 == 0 || ncallers == 2:
					c.Wstat(f, tmpl)
				case i%3 == 1:
					c.Walk(f, mkFid(c, uint32(1010+i)), names)
				default:
					c.Write(f, data, 0)
				}
			})
		}
		vs.Idle()
		vs.Window(false)
	}
	return Scenario{Name: name, Run: func(rc *RunCtx) *Result {
		return runVs(rc, &VsSpec{Name: name, Body: body, Check: c19Check, P: D, Delay: true})
	}}
}

// (g) users the process has never looked up: attaches as fresh uids and a stat of a
// file owned by yet another one, on two connections at once (the user table is
// process-wide; each uid is new only once per process - here once per execution)
func c19UfsFreshUsers(D int) Scenario {
	var root, base string
	name := "ufs fresh users: attaches as never-seen uids on two connections, stat of a foreign file"
	body := func() {
		vs.EnableHB()
		os.RemoveAll(root)
		os.MkdirAll(root, 0o755)
		os.WriteFile(filepath.Join(root, "f"), []byte("x"), 0o644)
		os.Chown(filepath.Join(root, "f"), 1234, 2345)
		h := newUfsH(root, 8216, true)
		c1, c2 := h.Connect(), h.Connect()
		c1.Version(8216, "9P2000.u")
		c2.Version(8216, "9P2000.u")
		vs.Window(true)
		c1.Send(true, tattach(1, 0, wire.NOFID, "", 4001, true))
		c2.Send(true, tattach(1, 0, wire.NOFID, "", 4002, true))
		vs.Idle()
		c1.Send(true, twalk(2, 0, 1, "f"))
		c2.Send(true, tattach(2, 1, wire.NOFID, "", 4003, true))
		vs.Idle()
		c1.Send(true, &wire.Msg{Type: wire.Tstat, Tag: 3, Fid: 1})
		c2.Send(true, tattach(3, 2, wire.NOFID, "", 4004, true))
		vs.Idle()
		vs.Window(false)
	}
	return Scenario{Name: name, Run: func(rc *RunCtx) *Result {
		base, root = scratchDir("c19")
		defer os.RemoveAll(base)
		return runVs(rc, &VsSpec{Name: name, Body: body, Check: c19Check, P: D, Delay: true})
	}}
}

// (h) walks that start from one shared fid (as the client's path helpers do) and begin
// with "..", several at once, first of their kind on that fid; from the root and from a
// directory reached through a symbolic link
func c19UfsSharedDotDot(dotu bool, D int) Scenario {
	var root, base string
	name := fmt.Sprintf("ufs walks beginning with '..' from one shared fid dotu=%v", dotu)
	body := func() {
		vs.EnableHB()
		os.RemoveAll(root)
		makeStdTree(root)
		os.Symlink("d", filepath.Join(root, "ld"))
		h := newUfsH(root, 8216, dotu)
		c := h.Connect()
		ver := "9P2000"
		un := ""
		if dotu {
			ver = "9P2000.u"
		} else {
			un = go9p.OsUsers.Uid2User(os.Geteuid()).Name()
		}
		c.Version(8216, ver)
		c.Rpc(tattach(1, 0, wire.NOFID, un, uint32(os.Geteuid()), dotu))
		c.Rpc(twalk(2, 0, 9, "ld"))
		vs.Window(true)
		c.Send(dotu, twalk(3, 0, 1, "..", "d"), twalk(4, 0, 2, "..", "f"), twalk(5, 0, 3, ".."))
		vs.Idle()
		c.Send(dotu, twalk(6, 9, 4, "..", "f"), twalk(7, 9, 5, ".."))
		vs.Idle()
		vs.Window(false)
	}
	return Scenario{Name: name, Run: func(rc *RunCtx) *Result {
		base, root = scratchDir("c19")
		defer os.RemoveAll(base)
		return runVs(rc, &VsSpec{Name: name, Body: body, Check: c19Check, P: D, Delay: true})
	}}
}

// (i) a directory is renamed through one fid while requests on other fids of the same
// connection - designating the directory and things below it - are in flight
func c19UfsRenameDir(other string, dotu bool, D int) Scenario {
	var root, base string
	name := fmt.Sprintf("ufs rename of a directory while a %s on a fid below it is in flight dotu=%v", other, dotu)
	body := func() {
		vs.EnableHB()
		os.RemoveAll(root)
		makeStdTree(root)
		os.MkdirAll(filepath.Join(root, "d", "sub"), 0o755)
		h := newUfsH(root, 8216, dotu)
		c := h.Connect()
		ver := "9P2000"
		un := ""
		if dotu {
			ver = "9P2000.u"
		} else {
			un = go9p.OsUsers.Uid2User(os.Geteuid()).Name()
		}
		c.Version(8216, ver)
		c.Rpc(tattach(1, 0, wire.NOFID, un, uint32(os.Geteuid()), dotu))
		c.Rpc(twalk(2, 0, 1, "d"))
		c.Rpc(twalk(2, 0, 2, "d", "h"))
		c.Rpc(twalk(2, 0, 3, "d"))
		c.Rpc(twalk(2, 0, 4, "d", "sub"))
		st := wire.Stat{Type: 0xFFFF, Dev: 0xFFFFFFFF, Qid: wire.Qid{Type: 0xFF, Vers: 0xFFFFFFFF, Path: ^uint64(0)}, Mode: 0xFFFFFFFF, Atime: 0xFFFFFFFF, Mtime: 0xFFFFFFFF, Length: ^uint64(0), Name: "renamed", NUid: 0xFFFFFFFF, NGid: 0xFFFFFFFF, NMuid: 0xFFFFFFFF}
		vs.Window(true)
		switch other {
		case "create":
			c.Send(dotu, &wire.Msg{Type: wire.Tcreate, Tag: 12, Fid: 4, Name: "made", Perm: 0644, Mode: 1}, &wire.Msg{Type: wire.Twstat, Tag: 10, Fid: 1, Stat: st})
		case "walk":
			c.Send(dotu, twalk(11, 3, 3, "sub"), &wire.Msg{Type: wire.Twstat, Tag: 10, Fid: 1, Stat: st})
		case "stat":
			c.Send(dotu, &wire.Msg{Type: wire.Tstat, Tag: 13, Fid: 2}, &wire.Msg{Type: wire.Twstat, Tag: 10, Fid: 1, Stat: st})
		}
		vs.Idle()
		vs.Window(false)
	}
	return Scenario{Name: name, Run: func(rc *RunCtx) *Result {
		base, root = scratchDir("c19")
		defer os.RemoveAll(base)
		return runVs(rc, &VsSpec{Name: name, Body: body, Check: c19Check, P: D, Delay: true})
	}}
}

// (k) a fid shared by several walks at once (clones and walks by name) after the host has
// replaced what it designates by something of another kind (a directory by a file, a
// file by a directory, a file by a symbolic link)
func c19UfsReplacedKind(how string, dotu bool, D int) Scenario {
	var root, base string
	name := fmt.Sprintf("ufs walks sharing a fid whose object the host replaced (%s) dotu=%v", how, dotu)
	body := func() {
		vs.EnableHB()
		os.RemoveAll(root)
		makeStdTree(root)
		h := newUfsH(root, 8216, dotu)
		c := h.Connect()
		ver := "9P2000"
		un := ""
		if dotu {
			ver = "9P2000.u"
		} else {
			un = go9p.OsUsers.Uid2User(os.Geteuid()).Name()
		}
		c.Version(8216, ver)
		c.Rpc(tattach(1, 0, wire.NOFID, un, uint32(os.Geteuid()), dotu))
		switch how {
		case "directory by file":
			c.Rpc(twalk(2, 0, 1, "d"))
			os.RemoveAll(filepath.Join(root, "d"))
			os.WriteFile(filepath.Join(root, "d"), []byte("now a file"), 0o644)
		case "file by directory":
			c.Rpc(twalk(2, 0, 1, "f"))
			os.Remove(filepath.Join(root, "f"))
			os.MkdirAll(filepath.Join(root, "f", "h"), 0o755)
		case "file by link":
			c.Rpc(twalk(2, 0, 1, "f"))
			os.Remove(filepath.Join(root, "f"))
			os.Symlink("g", filepath.Join(root, "f"))
		}
		vs.Window(true)
		c.Send(dotu, twalk(10, 1, 20), twalk(11, 1, 21), twalk(12, 1, 22, "h"), &wire.Msg{Type: wire.Tstat, Tag: 13, Fid: 1})
		vs.Idle()
		vs.Window(false)
	}
	return Scenario{Name: name, Run: func(rc *RunCtx) *Result {
		base, root = scratchDir("c19")
		defer os.RemoveAll(base)
		return runVs(rc, &VsSpec{Name: name, Body: body, Check: c19Check, P: D, Delay: true})
	}}
}

// (j) files whose host modification time is outside what 32 bits of seconds carry
// (before 1970, after 2106): stats and directory reads of them on different fids at once
func c19UfsOddTimes(dotu bool, D int) Scenario {
	var root, base string
	name := fmt.Sprintf("ufs files with mtimes before 1970 and after 2106, stat'ed and listed at once dotu=%v", dotu)
	body := func() {
		vs.EnableHB()
		os.RemoveAll(root)
		os.MkdirAll(filepath.Join(root, "d"), 0o755)
		for i, t := range []time.Time{time.Unix(-300000000, 500000000), time.Unix(1<<32+1000, 0), time.Unix(-1, 999999999)} {
			p := filepath.Join(root, "d", fmt.Sprintf("old%d", i))
			os.WriteFile(p, []byte("x"), 0o644)
			os.Chtimes(p, t, t)
		}
		h := newUfsH(root, 8216, dotu)
		c := h.Connect()
		ver := "9P2000"
		un := ""
		if dotu {
			ver = "9P2000.u"
		} else {
			un = go9p.OsUsers.Uid2User(os.Geteuid()).Name()
		}
		c.Version(8216, ver)
		c.Rpc(tattach(1, 0, wire.NOFID, un, uint32(os.Geteuid()), dotu))
		c.Rpc(twalk(2, 0, 1, "d", "old0"))
		c.Rpc(twalk(2, 0, 2, "d", "old1"))
		c.Rpc(twalk(2, 0, 3, "d"))
		c.Rpc(&wire.Msg{Type: wire.Topen, Tag: 2, Fid: 3, Mode: 0})
		vs.Window(true)
		c.Send(dotu, &wire.Msg{Type: wire.Tstat, Tag: 10, Fid: 1}, &wire.Msg{Type: wire.Tstat, Tag: 11, Fid: 2}, &wire.Msg{Type: wire.Tread, Tag: 12, Fid: 3, Offset: 0, Count: 4096})
		vs.Idle()
		vs.Window(false)
	}
	return Scenario{Name: name, Run: func(rc *RunCtx) *Result {
		base, root = scratchDir("c19")
		defer os.RemoveAll(base)
		return runVs(rc, &VsSpec{Name: name, Body: body, Check: c19Check, P: D, Delay: true})
	}}
}

func c19Scenarios(tier string) []Scenario {
	D := 1
	if tier == "thorough" {
		D = 2
	}
	var out []Scenario
	for _, dotu := range []bool{false, true} {
		out = append(out, c19UfsScenario(2, dotu, D))
		for _, v := range []string{"version-then-pipeline", "flush", "flush-without-flushop", "flush-of-flush", "flush-before-start", "flush-of-queued-slow-respond", "second-connection"} {
			out = append(out, c19SrvScenario(v, dotu, D))
		}
		out = append(out, c19ClientScenario(2, dotu, D))
	}
	out = append(out, c19UfsScenario(3, true, D), c19ClientScenario(3, false, D))
	out = append(out, c19ClientSharedArgs(2, false, true, D), c19ClientSharedArgs(3, false, false, D), c19ClientSharedArgs(2, true, true, D))
	out = append(out, c19UfsSymlinkedRoot(false, D), c19UfsSymlinkedRoot(true, D))
	out = append(out, c19UfsFreshUsers(D))
	out = append(out, c19UfsOddTimes(false, D), c19UfsOddTimes(true, D))
	out = append(out, c19UfsReplacedKind("directory by file", false, D), c19UfsReplacedKind("file by directory", true, D), c19UfsReplacedKind("file by link", true, D))
	out = append(out, c19UfsRenameDir("create", false, D+1), c19UfsRenameDir("walk", true, D+1), c19UfsRenameDir("stat", true, D+1))
	out = append(out, c19UfsSharedDotDot(false, D), c19UfsSharedDotDot(true, D))
	out = append(out, c19UfsSpelledRoot("/", true, D), c19UfsSpelledRoot("//./", false, D))
	out = append(out, c19UfsPipelineScenario(64, 0, false, D), c19UfsPipelineScenario(64, 33, true, D), c19UfsPipelineScenario(96, 0, true, D))
	sort.Slice(out, func(i, j int) bool { return out[i].Name < out[j].Name })
	return out
}

func init() {
	register(&Property{ID: "C19", Level: "model_checking",
		Technique: "stateless model checking under the controlled scheduler with an own vector-clock happens-before race monitor evaluated on every explored schedule (memory accesses instrumented by vinst -hb)",
		Rule:      "workloads inside the property's precondition: one client shared by 2-3 goroutines each working on its own file against Ufs (walks from the shared root fid, open/read/write/stat/clunk); the server framework with pipelined requests on distinct fids right after Tversion, a parked request flushed while others run, a second connection opened, used and dropped while the first stays busy; the client against a scripted peer; Ufs exporting a path through a symbolic link with two connections attaching at the same time; Ufs at msize 64/96 with three pipelined Twrites on distinct fids followed by 8 x msize of walks from the shared root fid to fresh fids, delivered one frame per read (the buffer runs out on a frame boundary) or in 33-byte pieces; every schedule with at most D deviations from the default scheduler (quick 1, thorough 2). The monitor mirrors the race detector's edges (mutex, channel incl. capacity edge, go, WaitGroup, atomics, the standard library's global I/O synchronisation). distinct = distinct per-object operation orders ; walks sharing a fid whose object the host replaced by another kind; callers of one client passing the same Dir / name slice / buffer",
		Assumptions: []string{"sequential consistency; accesses by name to local variables are not tracked; the scripted implementation and the harness are not instrumented", "a race is reported once per unordered pair of source positions"},
		Scenarios:   c19Scenarios, QuickS: 110, ThoroughS: 1500})
}
