package main

import (
	"fmt"

	"github.com/rminnich/go9p"
	"github.com/rminnich/go9p/vs"
)

// C20: the message logger keeps the most recent entries in order.

type logItem struct {
	id    int
	owner int // 1 or 2
	typ   int // 1 or 2
}

// owners are what the library itself uses: pointers. Two distinct owners may well
// have equal contents (two connections of one server); they are still two owners.
type c20Owner struct{ srv string }

var c20Owners = [3]interface{}{nil, &c20Owner{"srv"}, &c20Owner{"srv"}}

// match returns the ids of the entries of the last n of s[:k] that match (owner, typ); 0 = any.
func c20Match(s []logItem, k, n, owner, typ int) []int {
	lo := k - n
	if lo < 0 {
		lo = 0
	}
	var out []int
	for _, it := range s[lo:k] {
		if (owner == 0 || it.owner == owner) && (typ == 0 || it.typ == typ) {
			out = append(out, it.id)
		}
	}
	return out
}

func idsOf(ls []*go9p.Log) []int {
	var out []int
	for _, l := range ls {
		if l == nil {
			out = append(out, -1)
			continue
		}
		out = append(out, c20ID(l.Data))
	}
	return out
}

// the logger accepts any data value: entries carry their id as an int, as a message
// (the kind of value the library itself logs) of type 0, or as a string
func c20Data(id int) interface{} {
	switch id % 3 {
	case 1:
		return &go9p.Fcall{Tag: uint16(id)}
	case 2:
		return fmt.Sprint(id)
	}
	return id
}

func c20ID(d interface{}) int {
	switch v := d.(type) {
	case int:
		return v
	case *go9p.Fcall:
		return int(v.Tag)
	case string:
		n := 0
		fmt.Sscan(v, &n)
		return n
	}
	return -2
}

func eqInts(a, b []int) bool {
	if len(a) != len(b) {
		return false
	}
	for i := range a {
		if a[i] != b[i] {
			return false
		}
	}
	return true
}

// every Log sequence up to a length over 2 owners x 2 types, Filter after every step
func c20Sequential(n int, maxLen int) Scenario { return c20SequentialTypes(n, maxLen, [3]int{0, 1, 2}) }

// tv maps the model's entry types 1 and 2 to the values handed to the logger (any int
// is a legal type; 0 selects everything in Filter)
func c20SequentialTypes(n int, maxLen int, tv [3]int) Scenario {
	return c20SequentialFull(n, maxLen, tv, 6)
}

// fullLen: all 4^fullLen beginnings are enumerated (large capacities: short beginnings, long runs)
func c20SequentialFull(n int, maxLen int, tv [3]int, fullLen int) Scenario {
	name := fmt.Sprintf("sequential capacity=%d sequences<=%d", n, maxLen)
	if fullLen != 6 {
		name += fmt.Sprintf(" beginnings=4^%d", fullLen)
	}
	if tv != [3]int{0, 1, 2} {
		name += fmt.Sprintf(" entry-types=%d,%d", tv[1], tv[2])
	}
	return Scenario{Name: name, Run: func(rc *RunCtx) *Result {
		res := &Result{Exhaustive: true}
		kinds := []logItem{{owner: 1, typ: 1}, {owner: 1, typ: 2}, {owner: 2, typ: 1}, {owner: 2, typ: 2}}
		seen := map[string]bool{}
		// sequences are enumerated as paths of a tree; each maximal path is executed once and checked at every step
		var seqs [][]logItem
		var gen func(cur []logItem)
		gen = func(cur []logItem) {
			if len(cur) == maxLen {
				seqs = append(seqs, append([]logItem{}, cur...))
				return
			}
			for _, k := range kinds {
				it := k
				it.id = len(cur) + 1
				gen(append(cur, it))
			}
		}
		// the full 4^maxLen tree is too large for long sequences: all sequences over the 4 kinds up
		// to length 6, longer ones continue with a fixed rotation (the ring position is what matters)
		full := fullLen
		if maxLen < full {
			full = maxLen
		}
		var gen2 func(cur []logItem)
		gen2 = func(cur []logItem) {
			if len(cur) == full {
				s := append([]logItem{}, cur...)
				for len(s) < maxLen {
					it := kinds[(len(s)*3+s[0].owner)%4]
					it.id = len(s) + 1
					s = append(s, it)
				}
				seqs = append(seqs, s)
				return
			}
			for _, k := range kinds {
				it := k
				it.id = len(cur) + 1
				gen2(append(cur, it))
			}
		}
		_ = gen
		gen2(nil)
		for _, seq := range seqs {
			if rc.Expired() {
				res.Exhaustive = false
				res.CapHit = "internal deadline"
				break
			}
			var bad string
			body := func() {
				l := go9p.NewLogger(n)
				for k, it := range seq {
					l.Log(c20Data(it.id), c20Owners[it.owner], tv[it.typ])
					// an immediate Filter may lag, but must be a window of a prefix
					gotRaw := l.Filter(nil, 0)
					got := idsOf(gotRaw)
					ok := false
					for kk := 0; kk <= k+1; kk++ {
						if eqInts(got, c20Match(seq, kk, n, 0, 0)) {
							ok = true
						}
					}
					if !ok {
						bad = fmt.Sprintf("after %d entries an immediate Filter(nil,0) returned %v, which is not the last %d of any prefix", k+1, got, n)
						return
					}
					// what Filter returned is the caller's: scribbling over it changes nothing for the next call
					for i := range gotRaw {
						gotRaw[i] = &go9p.Log{Data: c20Data(9999), Owner: c20Owners[1], Type: 1}
					}
					vs.Idle() // logging has stopped and the queue is drained: now it must be exact
					for rep := 0; rep < 2; rep++ {
						r2 := l.Filter(nil, 0)
						if want := c20Match(seq, k+1, n, 0, 0); !eqInts(idsOf(r2), want) {
							bad = fmt.Sprintf("after %d entries (capacity %d) Filter(nil, 0), called again after the caller had overwritten and reversed the slice an earlier identical call returned, returned %v, expected %v", k+1, n, idsOf(r2), want)
							return
						}
						for i, j := 0, len(r2)-1; i < j; i, j = i+1, j-1 {
							r2[i], r2[j] = r2[j], r2[i]
						}
						if len(r2) > 0 {
							r2[len(r2)-1] = &go9p.Log{Data: c20Data(8888), Owner: c20Owners[2], Type: 2}
						}
					}
					for o := 0; o <= 2; o++ {
						for t := 0; t <= 2; t++ {
							got := idsOf(l.Filter(c20Owners[o], tv[t]))
							want := c20Match(seq, k+1, n, o, t)
							if !eqInts(got, want) {
								bad = fmt.Sprintf("after %d entries (capacity %d) Filter(owner %d, type %d) returned %v, expected %v", k+1, n, o, t, got, want)
								return
							}
							res.Evals++
						}
					}
				}
			}
			x := vs.Run(nil, body, vs.Options{})
			res.Nontrivial++
			res.Traces++
			res.States += int64(len(seq))
			res.Transitions += int64(x.Steps)
			if len(x.Panics) > 0 {
				bad = "panic: " + x.Panics[0].Value
			}
			if bad != "" {
				sig := "C20/sequential/" + sigWords(bad)
				if !seen[sig] {
					seen[sig] = true
					res.Findings = append(res.Findings, Finding{Sig: sig, Msg: fmt.Sprintf("%s\nsequence (id,owner,type): %v", bad, seq)})
				}
			}
		}
		res.Samples = append(res.Samples, fmt.Sprintf("capacity %d: %d sequences of %d entries (all 4^%d beginnings), 9 Filter selections after every entry", n, len(seqs), maxLen, full))
		return res
	}}
}

type c20Params struct {
	N         int
	Producers []int // entries per producer
	Filters   int
	P         int
}

func c20Concurrent(p c20Params) Scenario {
	type obsF struct {
		got   []int
		sends int // entries whose send had completed when Filter returned
		owner int
		typ   int
	}
	var sent []logItem
	var filt []obsF
	var final []int
	name := fmt.Sprintf("concurrent capacity=%d producers=%v filters=%d", p.N, p.Producers, p.Filters)
	body := func() {
		sent, filt, final = nil, nil, nil
		l := go9p.NewLogger(p.N)
		vs.Window(true)
		id := 0
		for pi, cnt := range p.Producers {
			pi, cnt := pi, cnt
			base := id
			id += cnt
			vs.Go("producer", func() {
				for j := 0; j < cnt; j++ {
					it := logItem{id: base + j + 1, owner: 1 + pi%2, typ: 1 + j%2}
					l.Log(c20Data(it.id), c20Owners[it.owner], it.typ)
					sent = append(sent, it)
				}
			})
		}
		if p.Filters > 0 {
			vs.Go("filterer", func() {
				for j := 0; j < p.Filters; j++ {
					o, t := []int{0, 1, 0}[j%3], []int{0, 0, 2}[j%3]
					r := l.Filter(c20Owners[o], t)
					filt = append(filt, obsF{got: idsOf(r), sends: len(sent), owner: o, typ: t})
				}
			})
		}
		vs.Idle()
		vs.Window(false)
		final = idsOf(l.Filter(nil, 0))
	}
	check := stdCheck("C20", func(x *vs.Exec) *Viol {
		for _, g := range x.Parked {
			if g.Site == "producer" || g.Site == "filterer" {
				return &Viol{Sig: "C20/blocked/" + g.Site, Msg: fmt.Sprintf("a %s is blocked for ever in %s while the logger runs (parked %v)", g.Site, g.Op, x.Parked)}
			}
		}
		for i, f := range filt {
			ok := false
			for k := 0; k <= f.sends && k <= len(sent); k++ {
				if eqInts(f.got, c20Match(sent, k, p.N, f.owner, f.typ)) {
					ok = true
				}
			}
			if !ok {
				return &Viol{Sig: "C20/filter-not-a-window", Msg: fmt.Sprintf("Filter #%d (owner %d, type %d) returned %v; entries in logging order: %v (%d logged when it returned), capacity %d: not the matching entries among the last %d of any prefix", i, f.owner, f.typ, f.got, sent, f.sends, p.N, p.N)}
			}
		}
		if want := c20Match(sent, len(sent), p.N, 0, 0); !eqInts(final, want) {
			return &Viol{Sig: "C20/no-convergence", Msg: fmt.Sprintf("after logging stopped Filter returned %v, the last %d logged are %v (order %v)", final, p.N, want, sent)}
		}
		return nil
	}, nil)
	return vsScenario(&VsSpec{Name: name, Body: body, Check: check, P: p.P, Sample: func() any {
		return map[string]any{"logged_order": fmt.Sprint(sent), "filters": fmt.Sprint(filt), "final": final}
	}})
}

// c20TwoLoggers: two Logger values (two servers in one process) are filtered at the
// same time, with schedules down to the level of single memory accesses: each Filter
// returns the entries of its own logger.
func c20TwoLoggers(n, entries, P int) Scenario {
	var gotA, gotB, wantA, wantB []int
	name := fmt.Sprintf("two-loggers capacity=%d entries=%d filtered at once (access-level schedules)", n, entries)
	body := func() {
		vs.EnableHBFine()
		gotA, gotB, wantA, wantB = nil, nil, nil, nil
		la, lb := go9p.NewLogger(n), go9p.NewLogger(n)
		for i := 1; i <= entries; i++ {
			la.Log(c20Data(i), c20Owners[1], 1)
			lb.Log(c20Data(100+i), c20Owners[2], 2)
			wantA = append(wantA, i)
			wantB = append(wantB, 100+i)
		}
		vs.Idle()
		if len(wantA) > n {
			wantA, wantB = wantA[len(wantA)-n:], wantB[len(wantB)-n:]
		}
		vs.Window(true)
		vs.Go("filterer", func() { gotA = idsOf(la.Filter(nil, 0)) })
		vs.Go("filterer", func() { gotB = idsOf(lb.Filter(c20Owners[2], 0)) })
		vs.Idle()
		vs.Window(false)
	}
	check := stdCheck("C20", func(x *vs.Exec) *Viol {
		for _, g := range x.Parked {
			if g.Site == "filterer" {
				return &Viol{Sig: "C20/blocked/" + g.Site, Msg: fmt.Sprintf("a Filter call is blocked for ever in %s (parked %v)", g.Op, x.Parked)}
			}
		}
		if !eqInts(gotA, wantA) || !eqInts(gotB, wantB) {
			return &Viol{Sig: "C20/two-loggers/filter-returns-foreign-or-missing-entries", Msg: fmt.Sprintf("two loggers filtered at the same time: the first holds %v and returned %v, the second holds %v and returned %v", wantA, gotA, wantB, gotB)}
		}
		return nil
	}, nil)
	return vsScenario(&VsSpec{Name: name, Body: body, Check: check, P: P})
}

// c20FirstUse: the very first calls on a fresh Logger come from several goroutines at
// once, with schedules down to single memory accesses (whatever the logger sets up
// lazily is set up under contention). Everything logged is there afterwards, in an
// order consistent with each producer's own.
func c20FirstUse(n, perProducer, P int) Scenario {
	var final []int
	var sent [][]int
	name := fmt.Sprintf("first-use capacity=%d two producers x %d entries (access-level schedules)", n, perProducer)
	body := func() {
		vs.EnableHBFine()
		final, sent = nil, [][]int{nil, nil}
		l := go9p.NewLogger(n)
		vs.Window(true)
		for pi := 0; pi < 2; pi++ {
			pi := pi
			vs.Go("producer", func() {
				for j := 0; j < perProducer; j++ {
					id := pi*100 + j + 1
					l.Log(c20Data(id), c20Owners[1+pi], 1)
					sent[pi] = append(sent[pi], id)
				}
			})
		}
		vs.Idle()
		vs.Window(false)
		final = idsOf(l.Filter(nil, 0))
	}
	check := stdCheck("C20", func(x *vs.Exec) *Viol {
		for _, g := range x.Parked {
			if g.Site == "producer" {
				return &Viol{Sig: "C20/blocked/producer", Msg: fmt.Sprintf("a producer is blocked for ever in %s (parked %v)", g.Op, x.Parked)}
			}
		}
		total := 2 * perProducer
		want := total
		if want > n {
			want = n
		}
		seen := map[int]int{}
		for _, id := range final {
			seen[id]++
		}
		bad := len(final) != want
		for _, c := range seen {
			if c != 1 {
				bad = true
			}
		}
		// per-producer order among what is returned
		last := map[int]int{}
		for _, id := range final {
			p := id / 100
			if id < last[p] {
				bad = true
			}
			last[p] = id
		}
		if total <= n {
			for pi := range sent {
				for _, id := range sent[pi] {
					if seen[id] != 1 {
						bad = true
					}
				}
			}
		}
		if bad {
			return &Viol{Sig: "C20/first-use/entries-lost-duplicated-or-reordered", Msg: fmt.Sprintf("two goroutines logged %v and %v into a fresh logger of capacity %d; once logging had stopped Filter(nil, 0) returned %v", sent[0], sent[1], n, final)}
		}
		return nil
	}, nil)
	return vsScenario(&VsSpec{Name: name, Body: body, Check: check, P: P})
}

// c20OddValues: what is logged is the caller's business: entries whose data is nil, a
// nil pointer, an empty string, zero; whose owner is nil; whose type is 0 or negative.
// Each takes its place in the ring like any other (entries are told apart by their
// types here, every one different). Every sequence of up to maxLen entries over these
// kinds, capacities 1..3; after each Log, Filter(nil, 0) is the last N in order.
func c20OddValues(maxLen int) Scenario {
	name := fmt.Sprintf("sequential entries with nil / zero data, owners and types, up to %d entries", maxLen)
	return Scenario{Name: name, Run: func(rc *RunCtx) *Result {
		res := &Result{Exhaustive: true}
		kinds := []struct {
			name  string
			data  interface{}
			owner interface{}
		}{
			{"ordinary", 7, c20Owners[1]},
			{"nil data", nil, c20Owners[1]},
			{"nil pointer as data", (*go9p.Fcall)(nil), c20Owners[2]},
			{"empty string as data", "", c20Owners[1]},
			{"zero as data", 0, c20Owners[2]},
			{"nil owner", 5, nil},
			{"nil data and nil owner", nil, nil},
		}
		var bad string
		var seqs [][]int
		var gen func(cur []int)
		gen = func(cur []int) {
			if len(cur) > 0 {
				seqs = append(seqs, append([]int{}, cur...))
			}
			if len(cur) == maxLen {
				return
			}
			for k := range kinds {
				gen(append(cur, k))
			}
		}
		gen(nil)
		var panicked string
		horizon := false
		for _, n := range []int{1, 2, 3} {
			for _, sq := range seqs {
				if bad != "" || rc.Expired() {
					break
				}
				n, sq := n, sq
				body := func() {
					l := go9p.NewLogger(n)
					var types []int
					for i, k := range sq {
						// types tell the entries apart: all different, among them 0 is never used for
						// an entry (Filter's 0 means "any"), negative ones are
						t := 10 + i
						if i%3 == 2 {
							t = -(10 + i)
						}
						l.Log(kinds[k].data, kinds[k].owner, t)
						vs.Idle()
						types = append(types, t)
						res.Evals++
						got := l.Filter(nil, 0)
						want := types
						if len(want) > n {
							want = want[len(want)-n:]
						}
						var gt []int
						for _, it := range got {
							if it == nil {
								gt = append(gt, 0)
							} else {
								gt = append(gt, it.Type)
							}
						}
						if !eqInts(gt, want) {
							var ks []string
							for _, k2 := range sq[:i+1] {
								ks = append(ks, kinds[k2].name)
							}
							bad = fmt.Sprintf("capacity %d, entries logged (by type) %v with %v: Filter(nil, 0) returns the entries of types %v, the last %d logged are %v", n, types, ks, gt, n, want)
							return
						}
						// asked for by its own type, the entry just logged is there
						if one := l.Filter(nil, t); len(one) != 1 || one[0] == nil || one[0].Type != t {
							bad = fmt.Sprintf("capacity %d: the entry just logged (%s, type %d) is not returned by Filter(nil, %d)", n, kinds[k].name, t, t)
							return
						}
					}
				}
				x := vs.Run(nil, body, vs.Options{Horizon: 1000000})
				if len(x.Panics) > 0 && panicked == "" {
					panicked = x.Panics[0].Value
				}
				horizon = horizon || x.HitHorizon
			}
		}
		x := struct {
			Panics     []string
			HitHorizon bool
		}{nil, horizon}
		if panicked != "" {
			x.Panics = []string{panicked}
		}
		res.Nontrivial = res.Evals
		res.States = int64(len(seqs) * 3)
		res.Traces = int64(len(seqs) * 3)
		if len(x.Panics) > 0 {
			bad = "panic: " + x.Panics[0]
		} else if x.HitHorizon {
			res.Exhaustive = false
			res.CapHit = "step horizon"
		}
		if bad != "" {
			res.Findings = append(res.Findings, Finding{Sig: "C20/odd-values/" + sigWords(bad), Msg: bad})
		}
		res.Samples = append(res.Samples, fmt.Sprintf("%d sequences over 7 kinds of entry x capacities 1..3", len(seqs)))
		return res
	}}
}

func c20Scenarios(tier string) []Scenario {
	var out []Scenario
	if tier == "thorough" {
		out = append(out, c20OddValues(5))
	} else {
		out = append(out, c20OddValues(4))
	}
	caps := []int{1, 2, 3, 4}
	if tier == "thorough" {
		caps = []int{1, 2, 3, 4, 8, 16, 64}
	}
	for _, n := range caps {
		ml := 3*n + 2
		if ml > 26 && tier == "quick" {
			ml = 26
		}
		if n == 64 {
			ml = 150
		}
		out = append(out, c20Sequential(n, ml))
		if n <= 2 {
			// type values outside any small range: negative, 64 and above, large
			out = append(out, c20SequentialTypes(n, ml, [3]int{0, 64, -1}), c20SequentialTypes(n, ml, [3]int{0, 1 << 20, 63}))
		}
	}
	P := 2
	if tier == "thorough" {
		P = 3
	}
	for _, n := range []int{1, 2, 3} {
		out = append(out, c20Concurrent(c20Params{N: n, Producers: []int{2}, Filters: 2, P: P + 1}))
		out = append(out, c20Concurrent(c20Params{N: n, Producers: []int{2, 2}, Filters: 1, P: P}))
		out = append(out, c20Concurrent(c20Params{N: n, Producers: []int{1, 3}, Filters: 2, P: P}))
		if tier == "thorough" {
			out = append(out, c20Concurrent(c20Params{N: n, Producers: []int{2, 2, 2}, Filters: 2, P: 2}))
			out = append(out, c20Concurrent(c20Params{N: n, Producers: []int{3, 3}, Filters: 2, P: 3}))
		}
	}
	out = append(out, c20TwoLoggers(2, 2, 1), c20TwoLoggers(3, 5, 1))
	out = append(out, c20FirstUse(4, 1, 2), c20FirstUse(8, 2, 2))
	// capacities beyond any small ring: around powers of two and in between
	for _, n := range []int{65, 127, 128, 129, 200, 256, 257} {
		out = append(out, c20SequentialFull(n, 2*n+n/2+3, [3]int{0, 1, 2}, 1))
	}
	if tier == "thorough" {
		for _, n := range []int{300, 511, 513, 1000, 1025, 3000} {
			out = append(out, c20SequentialFull(n, 2*n+n/2+3, [3]int{0, 1, 2}, 1))
		}
	}
	// more entries than the logger's 16-slot queue
	out = append(out, c20Concurrent(c20Params{N: 3, Producers: []int{20}, Filters: 2, P: 1}))
	return out
}

func init() {
	register(&Property{ID: "C20", Level: "model_checking",
		Technique: "stateless model checking of the real logger goroutine, producers and a filterer under the controlled scheduler (select-case choices explored); sequential enumeration of Log sequences against a reference ring",
		Rule:      "sequential: capacities 1..4 (thorough ..64), every beginning of length 6 over 2 owners x 2 types (type values 1/2, 64/-1, 2^20/63) continued to 3N+2 entries, all 9 owner/type Filter selections after every entry, compared with 'the matching entries among the last N' (an immediate Filter may lag to an earlier prefix, after quiescence it must be exact); concurrent: 1-3 producers x 1-3 entries, a filterer calling Filter 1-2 times, N in 1..3, every schedule with at most P preemptions including every choice of the logger's select: each result must be the window of some prefix of the observed logging order, the final result exact, nobody blocked. distinct = distinct per-object operation orders / sequences ; every sequence of up to 4 (thorough 5) entries over 7 kinds of odd values (nil data, nil pointer, empty, zero, nil owner, negative types) at capacities 1..3",
		Assumptions: []string{"code between two synchronisation operations is atomic", "logging order = order in which sends on the logger's channel complete (observed by the scheduler)"},
		Scenarios:   c20Scenarios, QuickS: 100, ThoroughS: 900})
}
