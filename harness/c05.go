package main

import (
	"bytes"
	"fmt"
	"strings"

	"github.com/rminnich/go9p"
	"github.com/rminnich/go9p/vs"
	"harness/wire"
)

// C05: protocol rules are enforced before the implementation is called.
// (fid state) x (request) product against the reference model, plus the
// visibility clause explored under the scheduler.

type c05State struct {
	name  string
	setup []mevent // leaves fid 1 in the wanted state (fid 0 = attached root)
}

func c05States(c mcfg) []c05State {
	att := mevent{Op: "attach", Fid: 0, Afid: wire.NOFID, Uid: 7, Uname: "glenda"}
	dir := mevent{Op: "walk", Fid: 0, Newfid: 1, Names: []string{"d"}}
	file := mevent{Op: "walk", Fid: 0, Newfid: 1, Names: []string{"f"}}
	st := []c05State{
		{"absent", []mevent{att}},
		{"dir-unopened", []mevent{att, dir}},
		{"dir-open-OREAD", []mevent{att, dir, {Op: "open", Fid: 1, Mode: 0}}},
		{"file-unopened", []mevent{att, file}},
	}
	for _, m := range []uint8{0, 1, 2, 3, 1 | 16, 0 | 64, 2 | 16} {
		st = append(st, c05State{fmt.Sprintf("file-open-mode%d", m), []mevent{att, file, {Op: "open", Fid: 1, Mode: m}}})
	}
	clone := mevent{Op: "walk", Fid: 0, Newfid: 1}
	st = append(st, c05State{"file-via-in-place-walk", []mevent{att, clone, {Op: "walk", Fid: 1, Newfid: 1, Names: []string{"f"}}}})
	st = append(st, c05State{"dir-via-in-place-walk", []mevent{att, clone, {Op: "walk", Fid: 1, Newfid: 1, Names: []string{"d"}}}})
	st = append(st, c05State{"file-via-two-element-in-place-walk", []mevent{att, clone, {Op: "walk", Fid: 1, Newfid: 1, Names: []string{"d", "h"}}}})
	st = append(st, c05State{"dir-after-partial-in-place-walk", []mevent{att, clone, {Op: "walk", Fid: 1, Newfid: 1, Names: []string{"d", "zz"}}}})
	st = append(st, c05State{"dir-after-partial-in-place-walk-ending-at-a-file", []mevent{att, clone, {Op: "walk", Fid: 1, Newfid: 1, Names: []string{"f", "zz"}}}})
	st = append(st, c05State{"dir-after-failed-walk-to-new-fid", []mevent{att, dir, {Op: "walk", Fid: 1, Newfid: 2, Names: []string{"zz"}}}})
	st = append(st, c05State{"file-after-refused-open", []mevent{att, file, {Op: "open", Fid: 1, Mode: 1}, {Op: "open", Fid: 1, Mode: 0}}})
	// an open or create the implementation refuses leaves the fid unopened whatever mode was asked for
	for _, m := range []uint8{0, 1, 2, 3, 2 | 16, 1 | 64} {
		st = append(st, c05State{fmt.Sprintf("file-after-failed-open-mode%d", m), []mevent{att, file, {Op: "open", Fid: 1, Mode: m, ImplErr: true}}})
		st = append(st, c05State{fmt.Sprintf("dir-after-failed-create-mode%d", m), []mevent{att, dir, {Op: "create", Fid: 1, Name: "q", Perm: 0644, Mode: m, ImplErr: true}}})
	}
	st = append(st, c05State{"dir-after-failed-open", []mevent{att, dir, {Op: "open", Fid: 1, Mode: 0, ImplErr: true}}})
	st = append(st, c05State{"dir-after-failed-mkdir", []mevent{att, dir, {Op: "create", Fid: 1, Name: "qd", Perm: go9p.DMDIR | 0755, Mode: 0, ImplErr: true}}})
	st = append(st, c05State{"created-file-open-OWRITE", []mevent{att, dir, {Op: "create", Fid: 1, Name: "n", Perm: 0644, Mode: 1}}})
	// perm bits that say nothing about what kind of fid results (the implementation's qid does)
	for _, pb := range []uint32{0x08000000, 0x20000000, 0x04000000, 0x10000000, go9p.DMAPPEND} {
		st = append(st, c05State{fmt.Sprintf("created-file-perm-%#x-open-ORDWR", pb), []mevent{att, dir, {Op: "create", Fid: 1, Name: "np", Perm: pb | 0644, Mode: 2}}})
	}
	// a directory whose qid carries more type bits than QTDIR (append-only, exclusive-use, temporary, mounted)
	for _, pb := range []uint32{go9p.DMAPPEND, go9p.DMEXCL, go9p.DMTMP, go9p.DMMOUNT, go9p.DMAPPEND | go9p.DMEXCL} {
		st = append(st, c05State{fmt.Sprintf("dir-with-qid-type-bits-%#x-unopened", pb>>24), []mevent{att, {Op: "walk", Fid: 0, Newfid: 2, Names: []string{"d"}},
			{Op: "create", Fid: 2, Name: "bd", Perm: go9p.DMDIR | pb | 0755, Mode: 0}, {Op: "clunk", Fid: 2}, {Op: "walk", Fid: 0, Newfid: 1, Names: []string{"d", "bd"}}}})
	}
	st = append(st, c05State{"file-with-qid-type-bits-unopened", []mevent{att, {Op: "walk", Fid: 0, Newfid: 2, Names: []string{"d"}},
		{Op: "create", Fid: 2, Name: "bf", Perm: go9p.DMAPPEND | go9p.DMTMP | 0644, Mode: 1}, {Op: "clunk", Fid: 2}, {Op: "walk", Fid: 0, Newfid: 1, Names: []string{"d", "bf"}}}})
	// a Tversion the server refuses changes nothing: the rules of the negotiated dialect go on applying
	st = append(st, c05State{"dir-unopened-after-refused-Tversion", []mevent{att, dir, {Op: "badversion"}}})
	st = append(st, c05State{"file-unopened-after-refused-Tversion", []mevent{att, file, {Op: "badversion"}}})
	// an implementation that answers a plain create with the qid of a directory: the fid is a directory, open for writing
	for _, m := range []uint8{1, 2} {
		st = append(st, c05State{fmt.Sprintf("created-plain-but-answered-as-directory-open-mode%d", m), []mevent{att, dir, {Op: "create", Fid: 1, Name: "asdir", Perm: 0644, Mode: m}}})
	}
	st = append(st, c05State{"created-dir-open-OREAD", []mevent{att, dir, {Op: "create", Fid: 1, Name: "nd", Perm: go9p.DMDIR | 0755, Mode: 0}}})
	if c.Auth {
		st = append(st, c05State{"auth-fid", []mevent{att, {Op: "auth", Afid: 1, Uid: 7, Uname: "glenda"}}})
	}
	return st
}

func c05Requests(c mcfg) []mevent {
	var r []mevent
	for _, names := range [][]string{nil, {"d"}, {"h"}, {"zz"}} {
		for _, nf := range []uint32{1, 2, 0} {
			r = append(r, mevent{Op: "walk", Fid: 1, Newfid: nf, Names: names})
		}
	}
	for _, m := range []uint8{0, 1, 2, 3} {
		for _, fl := range []uint8{0, 16, 64} {
			r = append(r, mevent{Op: "open", Fid: 1, Mode: m | fl})
		}
	}
	for _, perm := range []uint32{0644, go9p.DMDIR | 0755, go9p.DMSYMLINK | 0777, go9p.DMLINK | 0644, go9p.DMDEVICE | 0644, go9p.DMNAMEDPIPE | 0644, go9p.DMSOCKET | 0644, go9p.DMAPPEND | 0644} {
		for _, m := range []uint8{0, 1, 2, 3} {
			r = append(r, mevent{Op: "create", Fid: 1, Name: "x", Perm: perm, Mode: m})
		}
	}
	L := c.Msize - 24
	counts := []uint32{0, 1, L - 1, L, L + 1, 1 << 31}
	for d := uint32(24); d >= 1; d-- {
		counts = append(counts, ^uint32(0)-d+1)
	}
	for _, n := range counts {
		r = append(r, mevent{Op: "read", Fid: 1, Count: n, Offset: 5})
		if n <= L+1 {
			// a Twrite carries its data: larger ones do not fit a frame of msize bytes
			// and are dropped with the connection (C12), they never reach the rules
			r = append(r, mevent{Op: "write", Fid: 1, Count: n, Offset: 5})
		}
	}
	// the protocol has no rule about offsets: the largest ones are forwarded like any other
	for _, off := range []uint64{^uint64(0), ^uint64(0) - 15, 1 << 63, 1<<63 - 1, 1 << 32} {
		for _, n := range []uint32{0, 1, 16} {
			r = append(r, mevent{Op: "read", Fid: 1, Count: n, Offset: off}, mevent{Op: "write", Fid: 1, Count: n, Offset: off})
		}
	}
	for _, op := range []string{"stat", "wstat", "clunk", "remove"} {
		r = append(r, mevent{Op: op, Fid: 1})
		r = append(r, mevent{Op: op, Fid: 1, ImplErr: true})
	}
	r = append(r, mevent{Op: "open", Fid: 1, Mode: 0, ImplErr: true}, mevent{Op: "walk", Fid: 1, Newfid: 2, ImplErr: true}, mevent{Op: "read", Fid: 1, Count: 4, ImplErr: true})
	// attaches and auths against the state of fid 1 (as afid or as the new fid)
	r = append(r, mevent{Op: "attach", Fid: 1, Afid: wire.NOFID, Uid: 7, Uname: "glenda"}, mevent{Op: "attach", Fid: 2, Afid: 1, Uid: 7, Uname: "glenda"},
		mevent{Op: "attach", Fid: 2, Afid: wire.NOFID, Uid: 8, Uname: "bob"}, mevent{Op: "attach", Fid: 2, Afid: 1, Uid: 7, Uname: "glenda", AuthNo: true},
		mevent{Op: "attach", Fid: 2, Afid: wire.NOFID, Uid: 7, Uname: "glenda", AuthNo: true}, mevent{Op: "attach", Fid: 2, Afid: 2, Uid: 7, Uname: "glenda"},
		mevent{Op: "auth", Afid: 1, Uid: 7, Uname: "glenda"}, mevent{Op: "auth", Afid: 2, Uid: 7, Uname: "glenda"}, mevent{Op: "auth", Afid: 2, Uid: 7, Uname: "glenda", ImplErr: true},
		// a name and a number that belong to different users (in 9P2000.u the number says who it is)
		mevent{Op: "attach", Fid: 2, Afid: wire.NOFID, Uid: 7, Uname: "bob"}, mevent{Op: "attach", Fid: 2, Afid: wire.NOFID, Uid: 8, Uname: "root"}, mevent{Op: "auth", Afid: 2, Uid: 8, Uname: "glenda"})
	return r
}

func c05Product(c mcfg, st c05State) Scenario {
	name := fmt.Sprintf("product msize=%d dotu=%v auth=%v state=%s", c.Msize, c.Dotu, c.Auth, st.name)
	if c.ErrKind != "" {
		name += " auth-errors=" + c.ErrKind
	}
	if c.Iounit != 0 {
		name += fmt.Sprintf(" implementation-iounit=%d", c.Iounit)
	}
	return Scenario{Name: name, Run: func(rc *RunCtx) *Result {
		res := &Result{Exhaustive: true}
		sigSeen := map[string]bool{}
		verdicts := map[string]bool{}
		for _, rq := range c05Requests(c) {
			if uint32(len(wire.Encode(rq.toMsg(1, c.Dotu), c.Dotu))) > c.Msize {
				continue // does not fit a frame: dropped with the connection (C12), never reaches the rules
			}
			hist := append(append([]mevent{}, st.setup...), rq)
			ho := runHistory(c, hist, []uint32{0, 1, 2}, 1)
			res.Evals++
			res.Traces++
			res.Transitions++
			var hs []string
			for _, e := range hist {
				hs = append(hs, e.String())
			}
			add := func(v *Viol) {
				if !sigSeen[v.Sig] && len(res.Findings) < 12 {
					sigSeen[v.Sig] = true
					res.Findings = append(res.Findings, Finding{Sig: v.Sig, Msg: v.Msg + "\nhistory: " + strings.Join(hs, " ; "), Detail: map[string]any{"history": hs, "fslog": strings.Split(ho.FS.logString(), "\n")}})
				}
			}
			if len(ho.Panics) > 0 {
				p := ho.Panics[0]
				add(&Viol{Sig: "C05/panic/" + p.Frame + "/" + panicClass(p.Value), Msg: "panic: " + p.Value + "\n" + trimStack(p.Stack)})
				continue
			}
			if ho.Fail != "" {
				add(&Viol{Sig: "C05/harness/" + sigWords(ho.Fail), Msg: ho.Fail})
				continue
			}
			m := newMstate()
			destroyed := map[int]int{}
			for i, e := range hist {
				if i == len(hist)-1 {
					p := m.predict(e, c)
					verdicts[fmt.Sprintf("%s/%d/%s", e.Op, p.verdict, p.why)] = true
				}
				if v := checkStep("C05", m, e, c, &ho.Steps[i], destroyed, i == len(hist)-1, func(k *Viol) { add(k) }); v != nil {
					add(v)
					break
				}
			}
			if len(res.Samples) < 1 && rq.Op == "write" {
				res.Samples = append(res.Samples, map[string]any{"history": hs, "reply": fmt.Sprint(ho.Steps[len(hist)-1].Reply)})
			}
		}
		res.Nontrivial = res.Evals
		res.States = int64(len(verdicts))
		res.addExtra("distinct_rule_verdicts", int64(len(verdicts)))
		return res
	}}
}

// visibility: the second request is written the moment the first reply has been read
type c05Vis struct {
	name   string
	setup  func(s *sess)
	first  *wire.Msg
	second *wire.Msg
	expect func(r *wire.Msg) bool
	what   string
}

func c05Visibility(v c05Vis, dotu bool, maxpend, P int) Scenario {
	var s *sess
	var reply2 *wire.Msg
	var n1 int
	name := fmt.Sprintf("visibility %s dotu=%v maxpend=%d", v.name, dotu, maxpend)
	body := func() {
		s = newSess(SrvOpt{Msize: 256, Dotu: dotu, Maxpend: maxpend})
		v.setup(s)
		s.setupN = len(s.c.Collect())
		vs.Window(true)
		s.c.Send(dotu, v.first)
		// wait for the reply of the first request, then send the second at once
		for {
			s.c.End.WaitIncoming(len(s.c.End.Received()) + 1)
			fr := s.c.Collect()
			got := false
			for _, f := range fr[s.setupN:] {
				if f.Msg != nil && f.Msg.Tag == v.first.Tag {
					got = true
				}
			}
			if got {
				break
			}
		}
		n1 = len(s.c.Collect())
		s.c.Send(dotu, v.second)
		vs.Idle()
		vs.Window(false)
		reply2 = nil
		for _, f := range s.c.Collect()[n1:] {
			if f.Msg != nil && f.Msg.Tag == v.second.Tag {
				reply2 = f.Msg
			}
		}
	}
	check := stdCheck("C05", func(x *vs.Exec) *Viol {
		if reply2 == nil || !v.expect(reply2) {
			return &Viol{Sig: "C05/effect-not-visible/" + v.name, Msg: fmt.Sprintf("%s: second request %s sent after the reply to %s was answered by %v; %s\n%s", v.name, v.second, v.first, reply2, v.what, framesString(s.c.Frames[s.setupN:])), Detail: map[string]any{"fslog": strings.Split(s.fs.logString(), "\n")}}
		}
		return nil
	}, nil)
	return vsScenario(&VsSpec{Name: name, Body: body, Check: check, P: P, Sample: func() any {
		return map[string]any{"first": v.first.String(), "second": v.second.String(), "reply": fmt.Sprint(reply2)}
	}})
}

// c05ArgsStable: the arguments the implementation works with stay what the client
// named while the client goes on sending: a Twrite (and a Twstat / Tcreate with their
// strings) is held by the implementation, k further requests arrive one per segment,
// then the held request is carried out.
func c05ArgsStable(msize uint32, dotu bool) Scenario { return c05ArgsStableDebug(msize, dotu, 0) }

// debug: the server's Debuglevel (logging and printing of messages must not change them)
func c05ArgsStableDebug(msize uint32, dotu bool, debug int) Scenario {
	name := fmt.Sprintf("arguments-stable-while-held msize=%d dotu=%v", msize, dotu)
	if debug != 0 {
		name += fmt.Sprintf(" debuglevel=%d", debug)
	}
	return Scenario{Name: name, Run: func(rc *RunCtx) *Result {
		res := &Result{Exhaustive: true}
		seen := map[string]bool{}
		maxK := int(8*msize)/11 + 3
		ks := []int{1, 2, 3, maxK / 2, maxK}
		for _, held := range []string{"write", "create", "walk"} {
			for _, k := range ks {
				for _, follower := range []string{"stat", "write", "mixed"} {
					var fail string
					body := func() {
						s := newSess(SrvOpt{Msize: msize, Dotu: dotu, Debug: debug})
						L := int(msize) - 24
						s.rpcOK(twalk(s.tag(), 0, 1, "g"), wire.Rwalk)
						s.rpcOK(&wire.Msg{Type: wire.Topen, Tag: s.tag(), Fid: 1, Mode: 1}, wire.Ropen)
						s.rpcOK(twalk(s.tag(), 0, 2, "g"), wire.Rwalk)
						s.rpcOK(&wire.Msg{Type: wire.Topen, Tag: s.tag(), Fid: 2, Mode: 1}, wire.Ropen)
						s.rpcOK(twalk(s.tag(), 0, 3, "d"), wire.Rwalk)
						data := make([]byte, L)
						for i := range data {
							data[i] = byte(0x80 | i)
						}
						var hm *wire.Msg
						var wantArgs string
						switch held {
						case "write":
							hm = &wire.Msg{Type: wire.Twrite, Tag: 50, Fid: 1, Offset: 7, Data: data}
							wantArgs = fmt.Sprintf("off=7 count=%d", L)
						case "create":
							nm := strings.Repeat("C", L-10)
							hm = &wire.Msg{Type: wire.Tcreate, Tag: 50, Fid: 3, Name: nm, Perm: 0644, Mode: 1}
							wantArgs = expectArgs(mevent{Op: "create", Fid: 3, Name: nm, Perm: 0644, Mode: 1})
						case "walk":
							nm := strings.Repeat("W", L-10)
							hm = twalk(50, 0, 9, nm)
							wantArgs = expectArgs(mevent{Op: "walk", Fid: 0, Newfid: 9, Names: []string{nm}})
						}
						g := vs.NewSem(0)
						s.fs.Script[reqKey{0, 50, 0}] = &Action{Gate: g}
						s.c.Send(dotu, hm)
						vs.Idle()
						for i := 0; i < k; i++ {
							var m *wire.Msg
							if follower == "stat" || (follower == "mixed" && i%2 == 0) {
								m = &wire.Msg{Type: wire.Tstat, Tag: uint16(100 + i), Fid: 0}
							} else {
								m = &wire.Msg{Type: wire.Twrite, Tag: uint16(100 + i), Fid: 2, Offset: uint64(i), Data: bytes.Repeat([]byte{byte(i)}, 1+i%L)}
							}
							s.c.Send(dotu, m)
							vs.Idle()
						}
						g.Release()
						vs.Idle()
						// what the implementation saw for the held request, at the time it used it
						var callArgs, dataHash string
						for _, e := range s.fs.Log {
							if e.Conn == 0 && e.Tag == 50 {
								if e.Kind == "call" {
									callArgs = e.Args
								}
								if e.Kind == "data" {
									dataHash = e.Args
								}
							}
						}
						if wantArgs != "" && callArgs != wantArgs {
							fail = fmt.Sprintf("the held %s reached the implementation with %q, the client sent %q", held, callArgs, wantArgs)
						}
						if held == "write" && dataHash != hashBytes(data) {
							fail = fmt.Sprintf("the payload of the held Twrite was %s when the implementation used it, the client sent %s (%d requests arrived in between)", dataHash, hashBytes(data), k)
						}
						if held != "write" {
							// names are used after the gate as well: the reply of a create/walk reflects them
							for _, f := range s.c.Collect() {
								if f.Msg != nil && f.Msg.Tag == 50 && f.Msg.Type == wire.Rerror && held == "create" {
									fail = fmt.Sprintf("the held Tcreate failed with %q", f.Msg.Ename)
								}
							}
						}
					}
					x := vs.Run(nil, body, vs.Options{})
					res.Evals++
					res.Nontrivial++
					res.Traces++
					if len(x.Panics) > 0 {
						fail = "panic: " + x.Panics[0].Value
					} else if len(x.Fails) > 0 && fail == "" {
						fail = "harness: " + x.Fails[0]
					}
					if fail != "" {
						sig := "C05/forwarded-with-wrong-arguments/held-" + held
						if strings.HasPrefix(fail, "harness") || strings.HasPrefix(fail, "panic") {
							sig = "C05/args-stable/" + sigWords(fail)
						}
						if !seen[sig] {
							seen[sig] = true
							res.Findings = append(res.Findings, Finding{Sig: sig, Msg: fmt.Sprintf("%s, %d followers (%s): %s", name, k, follower, fail)})
						}
					}
				}
			}
		}
		res.Samples = append(res.Samples, fmt.Sprintf("held write/create/walk x followers %v x {stat, write, mixed}", ks))
		return res
	}}
}

func c05VisCases() []c05Vis {
	isErr := func(t string) func(r *wire.Msg) bool {
		return func(r *wire.Msg) bool { return r.Type == wire.Rerror && strings.Contains(r.Ename, t) }
	}
	return []c05Vis{
		{"open-then-walk", func(s *sess) { s.rpcOK(twalk(s.tag(), 0, 1, "d"), wire.Rwalk) }, &wire.Msg{Type: wire.Topen, Tag: 50, Fid: 1, Mode: 0}, twalk(51, 1, 2), func(r *wire.Msg) bool { return r.Type == wire.Rerror }, "a walk from the now open fid must be refused"},
		{"walk-then-stat", func(s *sess) {}, twalk(50, 0, 1, "d"), &wire.Msg{Type: wire.Tstat, Tag: 51, Fid: 1}, func(r *wire.Msg) bool { return r.Type == wire.Rstat && r.Stat.Name == "d" }, "the new fid must be usable"},
		{"clunk-then-stat", func(s *sess) { s.rpcOK(twalk(s.tag(), 0, 1, "d"), wire.Rwalk) }, &wire.Msg{Type: wire.Tclunk, Tag: 50, Fid: 1}, &wire.Msg{Type: wire.Tstat, Tag: 51, Fid: 1}, isErr("unknown fid"), "the clunked fid must be unknown"},
		{"create-then-write", func(s *sess) { s.rpcOK(twalk(s.tag(), 0, 1, "d"), wire.Rwalk) }, &wire.Msg{Type: wire.Tcreate, Tag: 50, Fid: 1, Name: "v", Perm: 0644, Mode: 1}, &wire.Msg{Type: wire.Twrite, Tag: 51, Fid: 1, Data: []byte("abc")}, func(r *wire.Msg) bool { return r.Type == wire.Rwrite && r.Count == 3 }, "the created file must be open for writing"},
		{"remove-then-stat", func(s *sess) { s.rpcOK(twalk(s.tag(), 0, 1, "g"), wire.Rwalk) }, &wire.Msg{Type: wire.Tremove, Tag: 50, Fid: 1}, &wire.Msg{Type: wire.Tstat, Tag: 51, Fid: 1}, isErr("unknown fid"), "the removed fid must be unknown"},
		{"clunk-then-reuse-fid", func(s *sess) { s.rpcOK(twalk(s.tag(), 0, 1, "d"), wire.Rwalk) }, &wire.Msg{Type: wire.Tclunk, Tag: 50, Fid: 1}, twalk(51, 0, 1, "f"), func(r *wire.Msg) bool { return r.Type == wire.Rwalk && len(r.Wqid) == 1 }, "the fid number must be free again"},
	}
}

func c05Scenarios(tier string) []Scenario {
	var out []Scenario
	msizes := []uint32{64, 256, 8216}
	if tier == "thorough" {
		msizes = []uint32{48, 64, 256, 1024, 8216, 65560}
	}
	for _, ms := range msizes {
		for _, dotu := range []bool{false, true} {
			for _, auth := range []bool{false, true} {
				c := mcfg{Dotu: dotu, Auth: auth, Msize: ms}
				for _, st := range c05States(c) {
					out = append(out, c05Product(c, st))
				}
			}
		}
	}
	// implementations whose authentication callbacks refuse with other error values than *go9p.Error
	for i, ek := range []string{"plain", "errno", "wrapped"} {
		c := mcfg{Dotu: i%2 == 0, Auth: true, Msize: 256, ErrKind: ek}
		for _, st := range c05States(c) {
			if st.name == "absent" || st.name == "auth-fid" || st.name == "dir-unopened" {
				out = append(out, c05Product(c, st))
			}
		}
	}
	// implementations that advertise an iounit of their own (their block size: larger than
	// what the connection can carry, or smaller than it): the rules about counts are the connection's
	for i, c := range []mcfg{{Msize: 256, Iounit: 65536}, {Msize: 8216, Iounit: 65536, Dotu: true}, {Msize: 256, Iounit: 16}, {Msize: 64, Iounit: 41, Dotu: true}} {
		for _, st := range c05States(c) {
			if strings.Contains(st.name, "open-mode") || strings.HasPrefix(st.name, "created-") || (i == 0 && st.name == "file-unopened") {
				out = append(out, c05Product(c, st))
			}
		}
	}
	// a request held on a fid across the clunk and re-binding of its number: what follows obeys the rules and is forwarded
	out = append(out, heldAcrossClunkScenario("C05"))
	out = append(out, c05ArgsStable(64, false), c05ArgsStable(64, true), c05ArgsStable(256, true))
	out = append(out, c05ArgsStableDebug(256, false, go9p.DbgLogFcalls|go9p.DbgLogPackets), c05ArgsStableDebug(1024, true, go9p.DbgPrintFcalls|go9p.DbgPrintPackets|go9p.DbgLogFcalls))
	P := 2
	if tier == "thorough" {
		P = 3
	}
	for i, v := range c05VisCases() {
		out = append(out, c05Visibility(v, i%2 == 0, i%3, P))
		if tier == "thorough" {
			out = append(out, c05Visibility(v, i%2 == 1, (i+1)%3, P))
		}
	}
	return out
}

func init() {
	register(&Property{ID: "C05", Level: "model_checking",
		Technique: "reference-model conformance over the full (fid state x request) product, every pair executed on the real server; visibility clause by stateless model checking under the controlled scheduler",
		Rule:      "fid states {absent, dir unopened/open, file unopened/open with modes 0,1,2,3,OWRITE|OTRUNC,OREAD|ORCLOSE,ORDWR|OTRUNC, created file/dir (also with the DMAUTH, DMEXCL, DMTMP, DMMOUNT, DMAPPEND perm bits), reached by in-place/partial/failed walks, after refused or failed open/create, auth fid} x requests {walk names x newfid, open 4 modes x 3 flag sets, create 8 perm classes x 4 modes, read/write with counts 0,1,L-1,L,L+1,2^31,2^32-24..2^32-1, stat/wstat/clunk/remove with implementation success/error, attach/auth with every afid kind and AuthCheck verdict} x dialect x AuthOps (refusing with *go9p.Error, errors.New, syscall.Errno and wrapped errors) x msize (quick 64,256,8216; thorough also 48,1024,65560); three-valued oracle (must refuse / must forward / either); arguments of a request held by the implementation while 1..8*msize/11 further requests arrive one per segment; visibility pairs: all schedules with at most P preemptions. states = distinct (request kind, verdict, rule) classes exercised ; the products repeated for implementations that advertise an iounit of their own (above and below what the connection carries)",
		Assumptions: []string{"the reference model is a correct reading of the rules the property lists; corners it does not settle are accepted both ways", "product pairs run on the default schedule"},
		Scenarios:   c05Scenarios, QuickS: 100, ThoroughS: 900})
}
