// vinst rewrites a Go package so that every synchronisation operation goes
// through the cooperative scheduler in package vs. It is driven by type
// information, lowers the whole go/chan/select/sync surface (not only the forms
// present in today's tree) and fails loudly on anything it cannot lower.
//
// usage: vinst -src /repo -out <dir> -vs /verif/vs [-hb]
package main

import (
	"bytes"
	"encoding/json"
	"flag"
	"fmt"
	"go/ast"
	"go/build"
	"go/importer"
	"go/parser"
	"go/printer"
	"go/token"
	"go/types"
	"io"
	"os"
	"os/exec"
	"path/filepath"
	"reflect"
	"sort"
	"strconv"
	"strings"
)

const vsPath = "github.com/rminnich/go9p/vs"

var (
	src   = flag.String("src", "/repo", "package directory")
	out   = flag.String("out", "", "output directory")
	vsDir = flag.String("vs", "", "vs runtime source directory")
	hb    = flag.Bool("hb", false, "also instrument memory accesses for the happens-before monitor")
	goBin = flag.String("go", "go", "go binary")
)

func fatal(format string, a ...any) {
	fmt.Fprintf(os.Stderr, "vinst: "+format+"\n", a...)
	os.Exit(3)
}

type rw struct {
	fset     *token.FileSet
	info     *types.Info
	pkg      *types.Package
	tmp      int
	recv2    map[*ast.UnaryExpr]bool
	commRecv map[*ast.UnaryExpr]bool
	commSend map[*ast.SendStmt]bool
	lowered  map[*ast.BlockStmt]int // index of the statement that carries a label
	xtype    map[ast.Expr]types.Type
	usedVS   bool
	file     *ast.File
	counts   map[string]int
}

func (r *rw) typeOf(e ast.Expr) types.Type {
	if t, ok := r.xtype[e]; ok {
		return t
	}
	if tv, ok := r.info.Types[e]; ok {
		return tv.Type
	}
	if id, ok := e.(*ast.Ident); ok {
		if o := r.info.ObjectOf(id); o != nil {
			return o.Type()
		}
	}
	return nil
}

func (r *rw) isConst(e ast.Expr) bool {
	if tv, ok := r.info.Types[e]; ok {
		return tv.Value != nil || tv.IsNil()
	}
	return false
}

func (r *rw) name(p string) *ast.Ident {
	r.tmp++
	return ast.NewIdent(fmt.Sprintf("_vs%s%d", p, r.tmp))
}

func (r *rw) vs(fn string, args ...ast.Expr) *ast.CallExpr {
	r.usedVS = true
	return &ast.CallExpr{Fun: &ast.SelectorExpr{X: ast.NewIdent("vs"), Sel: ast.NewIdent(fn)}, Args: args}
}

func (r *rw) site(n ast.Node) ast.Expr {
	p := r.fset.Position(n.Pos())
	return &ast.BasicLit{Kind: token.STRING, Value: strconv.Quote(fmt.Sprintf("%s:%d", filepath.Base(p.Filename), p.Line))}
}

func chanOf(t types.Type) *types.Chan {
	if t == nil {
		return nil
	}
	c, _ := t.Underlying().(*types.Chan)
	return c
}

func (r *rw) qualifier(p *types.Package) string {
	if p == r.pkg {
		return ""
	}
	return p.Name()
}

func (r *rw) typeExpr(t types.Type) ast.Expr {
	s := types.TypeString(t, r.qualifier)
	e, err := parser.ParseExpr(s)
	if err != nil {
		fatal("cannot render type %s: %v", s, err)
	}
	return e
}

// conv returns v converted to the channel's element type when the two differ
// (so that generic inference sees identical types).
func (r *rw) conv(ch, v ast.Expr) ast.Expr {
	ct := chanOf(r.typeOf(ch))
	vt := r.typeOf(v)
	if ct == nil || vt == nil || r.isConst(v) {
		return v
	}
	if types.Identical(ct.Elem(), vt) {
		return v
	}
	return &ast.CallExpr{Fun: &ast.ParenExpr{X: r.typeExpr(ct.Elem())}, Args: []ast.Expr{v}}
}

func define(lhs ast.Expr, rhs ast.Expr) ast.Stmt {
	return &ast.AssignStmt{Lhs: []ast.Expr{lhs}, Tok: token.DEFINE, Rhs: []ast.Expr{rhs}}
}

// prepass marks receive expressions that need special lowering.
func (r *rw) prepass(f *ast.File) {
	ast.Inspect(f, func(n ast.Node) bool {
		switch x := n.(type) {
		case *ast.AssignStmt:
			if len(x.Lhs) == 2 && len(x.Rhs) == 1 {
				if u, ok := unparen(x.Rhs[0]).(*ast.UnaryExpr); ok && u.Op == token.ARROW {
					r.recv2[u] = true
				}
			}
		case *ast.ValueSpec:
			if len(x.Names) == 2 && len(x.Values) == 1 {
				if u, ok := unparen(x.Values[0]).(*ast.UnaryExpr); ok && u.Op == token.ARROW {
					r.recv2[u] = true
				}
			}
		case *ast.CommClause:
			switch c := x.Comm.(type) {
			case *ast.SendStmt:
				r.commSend[c] = true
			case *ast.ExprStmt:
				if u, ok := unparen(c.X).(*ast.UnaryExpr); ok && u.Op == token.ARROW {
					r.commRecv[u] = true
				}
			case *ast.AssignStmt:
				if u, ok := unparen(c.Rhs[0]).(*ast.UnaryExpr); ok && u.Op == token.ARROW {
					r.commRecv[u] = true
				}
			}
		}
		return true
	})
}

func unparen(e ast.Expr) ast.Expr {
	for {
		p, ok := e.(*ast.ParenExpr)
		if !ok {
			return e
		}
		e = p.X
	}
}

var (
	exprType = reflect.TypeOf((*ast.Expr)(nil)).Elem()
	stmtType = reflect.TypeOf((*ast.Stmt)(nil)).Elem()
	nodeType = reflect.TypeOf((*ast.Node)(nil)).Elem()
)

// walk rewrites children first, then the node stored in an interface slot.
func (r *rw) walk(v reflect.Value) {
	switch v.Kind() {
	case reflect.Interface:
		if v.IsNil() {
			return
		}
		r.walk(v.Elem())
		if !v.CanSet() {
			return
		}
		switch {
		case v.Type() == exprType:
			old := v.Interface().(ast.Expr)
			if nw := r.expr(old); nw != old {
				v.Set(reflect.ValueOf(nw))
			}
		case v.Type() == stmtType:
			old := v.Interface().(ast.Stmt)
			if nw := r.stmt(old); nw != old {
				v.Set(reflect.ValueOf(nw))
			}
		}
	case reflect.Ptr:
		if v.IsNil() {
			return
		}
		switch v.Interface().(type) {
		case *ast.Object, *ast.Scope, *ast.CommentGroup, *ast.Comment:
			return
		}
		r.walk(v.Elem())
	case reflect.Struct:
		for i := 0; i < v.NumField(); i++ {
			r.walk(v.Field(i))
		}
	case reflect.Slice:
		for i := 0; i < v.Len(); i++ {
			r.walk(v.Index(i))
		}
	}
}

func (r *rw) isBuiltin(id *ast.Ident, name string) bool {
	if id.Name != name {
		return false
	}
	_, ok := r.info.Uses[id].(*types.Builtin)
	return ok
}

func (r *rw) expr(e ast.Expr) ast.Expr {
	switch x := e.(type) {
	case *ast.SelectorExpr:
		// timers and sleeps belong to the environment: when a timer fires is the harness's choice
		if pk, ok := x.X.(*ast.Ident); ok {
			if pn, ok := r.info.Uses[pk].(*types.PkgName); ok && pn.Imported().Path() == "time" {
				switch x.Sel.Name {
				case "NewTimer", "After", "Sleep", "AfterFunc", "Timer":
					r.counts["time"]++
					r.usedVS = true
					n := &ast.SelectorExpr{X: ast.NewIdent("vs"), Sel: ast.NewIdent(x.Sel.Name)}
					if tt := r.typeOf(x); tt != nil {
						r.xtype[n] = tt
					}
					return n
				}
			}
		}
		return e
	case *ast.UnaryExpr:
		if x.Op != token.ARROW || r.commRecv[x] {
			return e
		}
		r.counts["recv"]++
		var c *ast.CallExpr
		if r.recv2[x] {
			c = r.vs("Recv2", x.X)
		} else {
			c = r.vs("Recv", x.X)
		}
		if ct := chanOf(r.typeOf(x.X)); ct != nil {
			r.xtype[c] = ct.Elem()
		}
		return c
	case *ast.CallExpr:
		// (*os.File).Readdir goes through the environment seam: the host may remove an
		// entry between the names being read and the entry being examined
		if sel, ok := x.Fun.(*ast.SelectorExpr); ok && sel.Sel.Name == "Readdir" && len(x.Args) == 1 {
			if t := r.typeOf(sel.X); t != nil && t.String() == "*os.File" {
				r.counts["readdir"]++
				c := r.vs("Readdir", sel.X, x.Args[0])
				if tt := r.typeOf(x); tt != nil {
					r.xtype[c] = tt
				}
				return c
			}
		}
		// os.OpenFile goes through the environment seam too: the host may take its time
		// (a FIFO without a writer, a network file system)
		if sel, ok := x.Fun.(*ast.SelectorExpr); ok && (sel.Sel.Name == "OpenFile" && len(x.Args) == 3 || (sel.Sel.Name == "Readlink" || sel.Sel.Name == "Stat" || sel.Sel.Name == "Lstat") && len(x.Args) == 1) {
			if pk, ok := sel.X.(*ast.Ident); ok {
				if pn, ok := r.info.Uses[pk].(*types.PkgName); ok && pn.Imported().Path() == "os" {
					r.counts["hostcall"]++
					c := r.vs(sel.Sel.Name, x.Args...)
					if tt := r.typeOf(x); tt != nil {
						r.xtype[c] = tt
					}
					return c
				}
			}
		}
		id, ok := x.Fun.(*ast.Ident)
		if !ok || len(x.Args) != 1 {
			return e
		}
		if chanOf(r.typeOf(x.Args[0])) == nil {
			return e
		}
		switch {
		case r.isBuiltin(id, "close"):
			r.counts["close"]++
			return r.vs("Close", x.Args[0])
		case r.isBuiltin(id, "len"):
			r.counts["len"]++
			c := r.vs("Len", x.Args[0])
			r.xtype[c] = types.Typ[types.Int]
			return c
		case r.isBuiltin(id, "cap"):
			c := r.vs("Cap", x.Args[0])
			r.xtype[c] = types.Typ[types.Int]
			return c
		}
	}
	return e
}

func (r *rw) stmt(s ast.Stmt) ast.Stmt {
	switch x := s.(type) {
	case *ast.SendStmt:
		if r.commSend[x] {
			return s
		}
		r.counts["send"]++
		return &ast.ExprStmt{X: r.vs("Send", x.Chan, r.conv(x.Chan, x.Value))}
	case *ast.GoStmt:
		r.counts["go"]++
		return r.lowerGo(x)
	case *ast.SelectStmt:
		r.counts["select"]++
		return r.lowerSelect(x)
	case *ast.RangeStmt:
		t := r.typeOf(x.X)
		if t == nil {
			fatal("%s: no type for range operand", r.fset.Position(x.Pos()))
		}
		switch u := t.Underlying().(type) {
		case *types.Chan:
			r.counts["rangechan"]++
			return r.lowerRangeChan(x)
		case *types.Map:
			r.counts["rangemap"]++
			return r.lowerRangeMap(x, u)
		}
	case *ast.LabeledStmt:
		if b, ok := x.Stmt.(*ast.BlockStmt); ok {
			if i, ok := r.lowered[b]; ok {
				b.List[i] = &ast.LabeledStmt{Label: x.Label, Stmt: b.List[i]}
				return b
			}
		}
	}
	return s
}

func (r *rw) lowerGo(g *ast.GoStmt) ast.Stmt {
	call := g.Call
	var pre []ast.Stmt
	fun := call.Fun
	switch f := unparen(fun).(type) {
	case *ast.FuncLit:
		_ = f
	case *ast.Ident:
		// package-level function or local func variable: bind local variables now
		if _, isFunc := r.info.Uses[f].(*types.Func); !isFunc {
			if _, isB := r.info.Uses[f].(*types.Builtin); isB {
				fatal("%s: go statement with builtin", r.fset.Position(g.Pos()))
			}
			n := r.name("f")
			pre = append(pre, define(n, fun))
			fun = n
		}
	default:
		if tv, ok := r.info.Types[fun]; ok && tv.IsType() {
			fatal("%s: go statement with conversion", r.fset.Position(g.Pos()))
		}
		n := r.name("f")
		pre = append(pre, define(n, fun))
		fun = n
	}
	args := make([]ast.Expr, len(call.Args))
	for i, a := range call.Args {
		if r.isConst(a) {
			args[i] = a
			continue
		}
		if _, isLit := a.(*ast.FuncLit); isLit {
			args[i] = a
			continue
		}
		n := r.name("a")
		pre = append(pre, define(n, a))
		args[i] = n
	}
	inner := &ast.CallExpr{Fun: fun, Args: args, Ellipsis: call.Ellipsis}
	var body ast.Expr
	if fl, ok := unparen(fun).(*ast.FuncLit); ok && len(args) == 0 && (fl.Type.Results == nil || len(fl.Type.Results.List) == 0) {
		body = fl
	} else {
		body = &ast.FuncLit{Type: &ast.FuncType{Params: &ast.FieldList{}}, Body: &ast.BlockStmt{List: []ast.Stmt{&ast.ExprStmt{X: inner}}}}
	}
	st := &ast.ExprStmt{X: r.vs("Go", r.site(g), body)}
	if len(pre) == 0 {
		return st
	}
	return &ast.BlockStmt{List: append(pre, st)}
}

func (r *rw) lowerSelect(s *ast.SelectStmt) ast.Stmt {
	sel := r.name("s")
	hasDefault := false
	for _, c := range s.Body.List {
		if c.(*ast.CommClause).Comm == nil {
			hasDefault = true
		}
	}
	dflt := "false"
	if hasDefault {
		dflt = "true"
	}
	var pre []ast.Stmt
	pre = append(pre, define(sel, r.vs("NewSel", ast.NewIdent(dflt))))
	sw := &ast.SwitchStmt{Body: &ast.BlockStmt{}}
	idx := 0
	for _, c := range s.Body.List {
		cc := c.(*ast.CommClause)
		if cc.Comm == nil {
			sw.Body.List = append(sw.Body.List, &ast.CaseClause{List: nil, Body: cc.Body})
			continue
		}
		cl := &ast.CaseClause{List: []ast.Expr{&ast.BasicLit{Kind: token.INT, Value: strconv.Itoa(idx)}}}
		switch m := cc.Comm.(type) {
		case *ast.SendStmt:
			chn := r.name("c")
			pre = append(pre, define(chn, m.Chan))
			r.xtype[chn] = r.typeOf(m.Chan)
			val := r.conv(m.Chan, m.Value)
			if !r.isConst(m.Value) {
				vn := r.name("v")
				pre = append(pre, define(vn, val))
				val = vn
			}
			pre = append(pre, &ast.ExprStmt{X: r.vs("AddSend", sel, chn, val)})
			cl.Body = cc.Body
		case *ast.ExprStmt:
			u := unparen(m.X).(*ast.UnaryExpr)
			chn := r.name("c")
			r.xtype[chn] = r.typeOf(u.X)
			pre = append(pre, define(chn, u.X))
			pre = append(pre, &ast.ExprStmt{X: r.vs("AddRecv", sel, chn)})
			cl.Body = append([]ast.Stmt{&ast.ExprStmt{X: r.vs("Got", sel, chn)}}, cc.Body...)
		case *ast.AssignStmt:
			u := unparen(m.Rhs[0]).(*ast.UnaryExpr)
			chn := r.name("c")
			r.xtype[chn] = r.typeOf(u.X)
			pre = append(pre, define(chn, u.X))
			pre = append(pre, &ast.ExprStmt{X: r.vs("AddRecv", sel, chn)})
			fn := "Got"
			if len(m.Lhs) == 2 {
				fn = "Got2"
			}
			as := &ast.AssignStmt{Lhs: m.Lhs, Tok: m.Tok, Rhs: []ast.Expr{r.vs(fn, sel, chn)}}
			cl.Body = append([]ast.Stmt{as}, cc.Body...)
		default:
			fatal("%s: unsupported select case", r.fset.Position(cc.Pos()))
		}
		sw.Body.List = append(sw.Body.List, cl)
		idx++
	}
	sw.Tag = r.vs("RunSel", sel)
	b := &ast.BlockStmt{List: append(pre, sw)}
	r.lowered[b] = len(b.List) - 1
	return b
}

func (r *rw) lowerRangeChan(x *ast.RangeStmt) ast.Stmt {
	chn := r.name("c")
	ok := r.name("ok")
	var key ast.Expr = ast.NewIdent("_")
	tok := token.DEFINE
	var pre []ast.Stmt
	if x.Key != nil {
		key = x.Key
		if x.Tok == token.ASSIGN {
			tok = token.ASSIGN
			pre = append(pre, &ast.DeclStmt{Decl: &ast.GenDecl{Tok: token.VAR, Specs: []ast.Spec{&ast.ValueSpec{Names: []*ast.Ident{ok}, Type: ast.NewIdent("bool")}}}})
		}
	}
	recv := &ast.AssignStmt{Lhs: []ast.Expr{key, ok}, Tok: tok, Rhs: []ast.Expr{r.vs("Recv2", chn)}}
	brk := &ast.IfStmt{Cond: &ast.UnaryExpr{Op: token.NOT, X: ok}, Body: &ast.BlockStmt{List: []ast.Stmt{&ast.BranchStmt{Tok: token.BREAK}}}}
	body := append(pre, recv, brk)
	body = append(body, x.Body.List...)
	loop := &ast.ForStmt{Body: &ast.BlockStmt{List: body}}
	b := &ast.BlockStmt{List: []ast.Stmt{define(chn, x.X), loop}}
	r.lowered[b] = 1
	return b
}

func (r *rw) lowerRangeMap(x *ast.RangeStmt, m *types.Map) ast.Stmt {
	b, ok := m.Key().Underlying().(*types.Basic)
	if !ok || b.Info()&(types.IsInteger|types.IsString) == 0 {
		fatal("%s: range over map with key type %s: iteration order cannot be made deterministic", r.fset.Position(x.Pos()), m.Key())
	}
	mv := r.name("m")
	r.xtype[mv] = m
	key := x.Key
	if key == nil || isBlank(key) {
		key = r.name("k")
	}
	if x.Tok == token.ASSIGN {
		fatal("%s: range over map with '=' not supported", r.fset.Position(x.Pos()))
	}
	in := r.name("in")
	var val ast.Expr = ast.NewIdent("_")
	if x.Value != nil && !isBlank(x.Value) {
		val = x.Value
	}
	look := &ast.AssignStmt{Lhs: []ast.Expr{val, in}, Tok: token.DEFINE, Rhs: []ast.Expr{&ast.IndexExpr{X: mv, Index: key}}}
	cont := &ast.IfStmt{Cond: &ast.UnaryExpr{Op: token.NOT, X: in}, Body: &ast.BlockStmt{List: []ast.Stmt{&ast.BranchStmt{Tok: token.CONTINUE}}}}
	body := append([]ast.Stmt{look, cont}, x.Body.List...)
	if x.Key != nil && !isBlank(x.Key) {
		// keep "declared and not used" away if the body does not mention the key
		body = append([]ast.Stmt{&ast.AssignStmt{Lhs: []ast.Expr{ast.NewIdent("_")}, Tok: token.ASSIGN, Rhs: []ast.Expr{key}}}, body...)
	}
	loop := &ast.RangeStmt{Key: ast.NewIdent("_"), Value: key, Tok: token.DEFINE, X: r.vs("SortedKeys", mv), Body: &ast.BlockStmt{List: body}}
	blk := &ast.BlockStmt{List: []ast.Stmt{define(mv, x.X), loop}}
	r.lowered[blk] = 1
	return blk
}

func isBlank(e ast.Expr) bool {
	id, ok := e.(*ast.Ident)
	return ok && id.Name == "_"
}

// ---------------------------------------------------------------------------

func exportLookup(dir string) (func(path string) (io.ReadCloser, error), error) {
	cmd := exec.Command(*goBin, "list", "-export", "-deps", "-json=ImportPath,Export", ".")
	cmd.Dir = dir
	cmd.Stderr = os.Stderr
	outb, err := cmd.Output()
	if err != nil {
		return nil, err
	}
	m := map[string]string{}
	dec := json.NewDecoder(bytes.NewReader(outb))
	for dec.More() {
		var p struct{ ImportPath, Export string }
		if err := dec.Decode(&p); err != nil {
			return nil, err
		}
		if p.Export != "" {
			m[p.ImportPath] = p.Export
		}
	}
	return func(path string) (io.ReadCloser, error) {
		f, ok := m[path]
		if !ok {
			return nil, fmt.Errorf("no export data for %s", path)
		}
		return os.Open(f)
	}, nil
}

func main() {
	flag.Parse()
	if *out == "" || *vsDir == "" {
		fatal("need -out and -vs")
	}
	ctx := build.Default
	ctx.GOOS, ctx.GOARCH = "linux", "amd64"
	ctx.CgoEnabled = false
	bp, err := ctx.ImportDir(*src, 0)
	if err != nil {
		fatal("import %s: %v", *src, err)
	}
	fset := token.NewFileSet()
	var files []*ast.File
	names := append([]string(nil), bp.GoFiles...)
	sort.Strings(names)
	for _, n := range names {
		f, err := parser.ParseFile(fset, filepath.Join(*src, n), nil, parser.SkipObjectResolution)
		if err != nil {
			fatal("parse: %v", err)
		}
		files = append(files, f)
	}
	lookup, err := exportLookup(*src)
	var imp types.Importer
	if err == nil {
		imp = importer.ForCompiler(fset, "gc", lookup)
	} else {
		fmt.Fprintf(os.Stderr, "vinst: export data unavailable (%v); using source importer\n", err)
		imp = importer.ForCompiler(fset, "source", nil)
	}
	info := &types.Info{Types: map[ast.Expr]types.TypeAndValue{}, Uses: map[*ast.Ident]types.Object{}, Defs: map[*ast.Ident]types.Object{}, Selections: map[*ast.SelectorExpr]*types.Selection{}}
	conf := types.Config{Importer: imp}
	pkg, err := conf.Check(bp.ImportPath, fset, files, info)
	if err != nil {
		fatal("type-check: %v", err)
	}
	if err := os.MkdirAll(*out, 0o755); err != nil {
		fatal("%v", err)
	}
	total := map[string]int{}
	for i, f := range files {
		r := &rw{fset: fset, info: info, pkg: pkg, recv2: map[*ast.UnaryExpr]bool{}, commRecv: map[*ast.UnaryExpr]bool{}, commSend: map[*ast.SendStmt]bool{}, lowered: map[*ast.BlockStmt]int{}, xtype: map[ast.Expr]types.Type{}, file: f, counts: map[string]int{}}
		r.tmp = i * 10000
		r.prepass(f)
		for _, d := range f.Decls {
			r.walk(reflect.ValueOf(d))
		}
		var hbx *hbrw
		if *hb {
			hbx = newHB(r)
			hbx.file(f)
		}
		// imports
		for _, is := range f.Imports {
			p, _ := strconv.Unquote(is.Path.Value)
			switch p {
			case "sync":
				is.Path.Value = strconv.Quote(vsPath + "/vsync")
				if is.Name == nil {
					is.Name = ast.NewIdent("sync")
				}
			case "sync/atomic":
				is.Path.Value = strconv.Quote(vsPath + "/vatomic")
				if is.Name == nil {
					is.Name = ast.NewIdent("atomic")
				}
			}
		}
		if r.usedVS {
			addImport(f, "vs", vsPath)
		}
		for _, is := range f.Imports {
			// every use of package time may have been rewritten: keep the import used
			if p, _ := strconv.Unquote(is.Path.Value); p == "os" && (is.Name == nil || is.Name.Name == "os") && r.counts["hostcall"] > 0 {
				f.Decls = append(f.Decls, &ast.GenDecl{Tok: token.VAR, Specs: []ast.Spec{&ast.ValueSpec{Names: []*ast.Ident{ast.NewIdent("_")}, Type: &ast.SelectorExpr{X: ast.NewIdent("os"), Sel: ast.NewIdent("FileMode")}}}})
			}
			if p, _ := strconv.Unquote(is.Path.Value); p == "time" && (is.Name == nil || is.Name.Name == "time") && r.counts["time"] > 0 {
				f.Decls = append(f.Decls, &ast.GenDecl{Tok: token.VAR, Specs: []ast.Spec{&ast.ValueSpec{Names: []*ast.Ident{ast.NewIdent("_")}, Type: &ast.SelectorExpr{X: ast.NewIdent("time"), Sel: ast.NewIdent("Duration")}}}})
			}
		}
		f.Comments = nil
		var buf bytes.Buffer
		cfg := printer.Config{Mode: printer.UseSpaces | printer.TabIndent, Tabwidth: 8}
		if err := cfg.Fprint(&buf, fset, f); err != nil {
			fatal("print %s: %v", names[i], err)
		}
		hdr := fmt.Sprintf("// Code generated by vinst from %s; DO NOT EDIT.\n\n", filepath.Join(*src, names[i]))
		if err := os.WriteFile(filepath.Join(*out, names[i]), append([]byte(hdr), buf.Bytes()...), 0o644); err != nil {
			fatal("%v", err)
		}
		for k, v := range r.counts {
			total[k] += v
		}
	}
	// accessor for package-level variables (harnesses reset package state between
	// executions and read it for diagnostics); generated from whatever variables exist
	{
		var names []string
		sc := pkg.Scope()
		for _, n := range sc.Names() {
			if v, ok := sc.Lookup(n).(*types.Var); ok && n != "_" {
				_ = v
				names = append(names, n)
			}
		}
		var b bytes.Buffer
		fmt.Fprintf(&b, "// Code generated by vinst; DO NOT EDIT.\n\npackage %s\n\n// VsGlobals returns the addresses of the package-level variables.\nfunc VsGlobals() map[string]interface{} {\n\treturn map[string]interface{}{\n", pkg.Name())
		for _, n := range names {
			fmt.Fprintf(&b, "\t\t%q: &%s,\n", n, n)
		}
		fmt.Fprintf(&b, "\t}\n}\n")
		if err := os.WriteFile(filepath.Join(*out, "vs_globals_gen.go"), b.Bytes(), 0o644); err != nil {
			fatal("%v", err)
		}
	}
	// module file and runtime
	gomod := "module " + bp.ImportPath + "\n\ngo 1.23.12\n"
	if b, err := os.ReadFile(filepath.Join(*src, "go.mod")); err == nil {
		gomod = string(b)
	}
	os.WriteFile(filepath.Join(*out, "go.mod"), []byte(gomod), 0o644)
	if b, err := os.ReadFile(filepath.Join(*src, "go.sum")); err == nil {
		os.WriteFile(filepath.Join(*out, "go.sum"), b, 0o644)
	}
	copyTree(*vsDir, filepath.Join(*out, "vs"))
	js, _ := json.Marshal(total)
	fmt.Printf("vinst: %d files, lowered %s\n", len(files), js)
}

func addImport(f *ast.File, name, path string) {
	spec := &ast.ImportSpec{Name: ast.NewIdent(name), Path: &ast.BasicLit{Kind: token.STRING, Value: strconv.Quote(path)}}
	decl := &ast.GenDecl{Tok: token.IMPORT, Specs: []ast.Spec{spec}}
	f.Decls = append([]ast.Decl{decl}, f.Decls...)
	f.Imports = append(f.Imports, spec)
}

func copyTree(from, to string) {
	filepath.Walk(from, func(p string, fi os.FileInfo, err error) error {
		if err != nil {
			fatal("%v", err)
		}
		rel, _ := filepath.Rel(from, p)
		if fi.IsDir() {
			return os.MkdirAll(filepath.Join(to, rel), 0o755)
		}
		if !strings.HasSuffix(p, ".go") || strings.HasSuffix(p, "_test.go") {
			return nil
		}
		b, err := os.ReadFile(p)
		if err != nil {
			fatal("%v", err)
		}
		return os.WriteFile(filepath.Join(to, rel), b, 0o644)
	})
}
