// Package vs is a cooperative, controlled scheduler for Go code whose
// synchronisation operations have been rewritten (by cmd/vinst) into calls to
// this package. Exactly one managed goroutine runs at a time; at every
// synchronisation operation ("point") the scheduler decides who runs next.
// A stateless depth-first search (explore.go) re-executes a harness body for
// every choice sequence within a preemption / deviation bound.
//
// When no execution is active every operation falls through to the real Go
// primitive ("passthrough"), so the instrumented package also runs free.
package vs

import (
	"fmt"
	"reflect"
	"runtime"
	"runtime/debug"
	"sort"
	"strings"
	"sync"
	"unsafe"
)

type Kind uint8

const (
	KStart Kind = iota
	KResume
	KLock
	KRLock
	KSend
	KRecv
	KSelect
	KClose
	KAtomic
	KRead
	KWrite
	KConnClose
	KSemAcq
	KSemRel
	KIdle
	KYield
	KWgWait
	KCondWait
	KExit
	KArrive
)

var kindNames = [...]string{"start", "resume", "lock", "rlock", "send", "recv", "select", "close", "atomic", "read", "write", "connclose", "semacq", "semrel", "idle", "yield", "wgwait", "condwait", "exit", "arrive"}

func (k Kind) String() string { return kindNames[k] }

// ChoiceKind distinguishes the three sources of nondeterminism.
type ChoiceKind uint8

const (
	CSched ChoiceKind = iota // which goroutine runs next
	CSel                     // which enabled select case fires
	CEnv                     // environment answer (vs.Choose)
)

// Choice is one recorded decision with more than one alternative.
type Choice struct {
	Kind       ChoiceKind
	N          int  // number of alternatives
	Picked     int  // alternative taken
	CurEnabled bool // CSched: the running goroutine was still enabled (picking != 0 is a preemption)
}

type selCase struct {
	send   bool
	ch     *chanState
	val    any    // boxed value for unbuffered sends
	finish func() // typed completion for buffered send/recv, run by the owner after the grant
	setVal func(v any, ok bool)
}

// Sel is the runtime form of a lowered select statement.
type Sel struct {
	cases      []selCase
	hasDefault bool
	got        any
	gotOK      bool
	idx        int
	direct     bool
	real       []reflect.SelectCase // passthrough mode
}

type op struct {
	kind Kind
	mu   *MutexState
	ch   *chanState
	val  any
	sel  *Sel
	st   *stream
	st2  *stream
	sem  *Sem
	wg   *WGState
	obj  int
	wn   int // KWrite: number of bytes
}

type result struct {
	val    any
	ok     bool
	idx    int
	direct bool // value delivered by a rendezvous partner
	pan    string
}

// G is a managed goroutine.
type G struct {
	id    int
	site  string
	wake  chan struct{}
	pend  op
	res   result
	done  bool
	arr   int64
	started bool
}

type chanState struct {
	id     int
	cap    int
	n      int // buffered elements
	closed bool
	buf    any // *ring[T]
	// happens-before bookkeeping
	itemClk  []vclock // clock of the sender of each buffered element
	recvClk  []vclock // clock of the i-th completed receive (capacity edge)
	sends    int
	closeClk vclock
}

// hbPush / hbPop are called by the goroutine that completes a buffered send / receive.
func (c *chanState) hbPush(e *Exec) {
	h := e.hb
	if h == nil {
		return
	}
	g := e.cur.id
	if c.sends >= c.cap && c.sends-c.cap < len(c.recvClk) {
		h.acquire(g, c.recvClk[c.sends-c.cap])
	}
	c.sends++
	c.itemClk = append(c.itemClk, h.release(g))
}

func (c *chanState) hbPop(e *Exec) {
	h := e.hb
	if h == nil {
		return
	}
	g := e.cur.id
	if len(c.itemClk) > 0 {
		h.acquire(g, c.itemClk[0])
		c.itemClk = c.itemClk[1:]
	}
	c.recvClk = append(c.recvClk, h.release(g))
}

// hbRendezvous orders an unbuffered send and its receive in both directions.
func (e *Exec) hbRendezvous(sender, receiver *G) {
	h := e.hb
	if h == nil {
		return
	}
	cs, cr := h.release(sender.id), h.release(receiver.id)
	h.acquire(receiver.id, cs)
	h.acquire(sender.id, cr)
}

type ring[T any] struct{ items []T }

// MutexState is embedded in the sync.Mutex shim.
type MutexState struct {
	id      int
	epoch   uint32
	held    bool
	readers int
	hbvc    vclock // released by Unlock; acquired by Lock and RLock
	hbrvc   vclock // released by RUnlock; acquired by Lock only (readers do not order each other)
}

type WGState struct {
	id    int
	epoch uint32
	n     int
	hbvc  vclock
}

// PanicRec describes a panic captured in a managed goroutine.
type PanicRec struct {
	G     int    `json:"g"`
	Site  string `json:"site"`
	Value string `json:"value"`
	Frame string `json:"frame"` // top frame inside the library
	Stack string `json:"stack,omitempty"`
}

// Parked describes a goroutine that is blocked at the end of an execution.
type Parked struct {
	G    int    `json:"g"`
	Site string `json:"site"`
	Op   string `json:"op"`
	Obj  int    `json:"obj"`
}

// Event is one applied operation (recorded when tracing).
type Event struct {
	G    int
	Kind Kind
	Obj  int
	Info string
}

func (ev Event) String() string {
	return fmt.Sprintf("g%d %s #%d %s", ev.G, ev.Kind, ev.Obj, ev.Info)
}

// Exec is the state of one controlled execution.
type Exec struct {
	gs      []*G
	cur     *G
	chans   map[unsafe.Pointer]*chanState
	nobj    int
	seq     int64
	arrSeq  int64
	prefix  []int
	Choices []Choice
	Keys    [][2]uint64 // fingerprint of the partial order of everything executed before each recorded choice
	keyed   bool
	window  bool
	steps   int
	horizon int
	dead    bool
	fin     chan struct{}
	finOnce bool
	wg      sync.WaitGroup

	Panics     []PanicRec
	Fails      []string
	Diverged   string
	HitHorizon bool
	hostPoints bool // calls into the host by path are scheduling points inside the window
	Quiescent  bool
	Parked     []Parked
	Trace      []Event
	tracing    bool
	hash       uint64
	ghash      []uint64
	ohash      map[int]uint64
	enScratch  []*G
	lastKey    unsafe.Pointer
	lastState  *chanState
	hb         *hbState
	epoch      uint32
	keepStacks bool
	Steps      int
	WinSteps   int
}

var ex *Exec
var epochCounter uint32

// Active reports whether a controlled execution is in progress.
func Active() bool { return ex != nil }

func (e *Exec) newObj() int { e.nobj++; return e.nobj }

// Seq returns the next global sequence number (total order of observable events
// within one execution); harness components stamp their log entries with it.
func Seq() int64 {
	if ex == nil {
		return 0
	}
	ex.seq++
	if ex.cur != nil {
		ex.note(ex.cur, KYield, -2) // the order of stamped observations is part of the state
	}
	return ex.seq
}

// Window switches exploration on or off. Outside the window the default policy
// is followed and no alternatives are recorded.
func Window(on bool) {
	if ex != nil {
		ex.window = on
	}
}

// Fail records a harness-detected violation and ends the execution.
func Fail(format string, a ...any) {
	e := ex
	if e == nil {
		panic(fmt.Sprintf(format, a...))
	}
	if e.dead {
		return
	}
	e.Fails = append(e.Fails, fmt.Sprintf(format, a...))
	e.finish()
	e.parkForever(e.cur)
}

// Note adds a harness annotation to the trace.
func Note(format string, a ...any) {
	if ex != nil && ex.tracing {
		ex.Trace = append(ex.Trace, Event{G: ex.cur.id, Kind: KYield, Info: fmt.Sprintf(format, a...)})
	}
}

// GID returns the id of the running managed goroutine (0 outside executions).
func GID() int {
	if ex == nil || ex.cur == nil {
		return 0
	}
	return ex.cur.id
}

func (e *Exec) finish() {
	if !e.finOnce {
		e.finOnce = true
		e.fin <- struct{}{}
	}
}

func (e *Exec) parkForever(g *G) {
	<-g.wake
	runtime.Goexit()
}

func (e *Exec) note(g *G, k Kind, obj int) {
	h := e.ohash[obj]
	h = (h ^ uint64(g.id+1)*0x9E3779B97F4A7C15 ^ uint64(k)<<56) * 0x100000001B3
	e.ohash[obj] = h
	if e.tracing {
		e.Trace = append(e.Trace, Event{G: g.id, Kind: k, Obj: obj})
	}
}

// stateKey fingerprints the state at a choice point: the per-object operation
// orders so far (a Mazurkiewicz trace: two prefixes with the same orders have
// performed the same computation, provided goroutines communicate only through
// the operations the scheduler sees), who holds the baton and what is being chosen.
func (e *Exec) stateKey(kind ChoiceKind, n int) [2]uint64 {
	var a, b uint64
	for o, h := range e.ohash {
		x := (h ^ uint64(o)*0xD6E8FEB86659FD93) * 0xFF51AFD7ED558CCD
		x ^= x >> 33
		a += x
		y := (h*0x9E3779B97F4A7C15 ^ uint64(o+7)*0xC2B2AE3D27D4EB4F) * 0x165667B19E3779F9
		y ^= y >> 29
		b += y
	}
	cur := 0
	if e.cur != nil {
		cur = e.cur.id + 1
	}
	t := uint64(cur)<<40 | uint64(kind)<<32 | uint64(n)
	return [2]uint64{a ^ t*0x9E3779B97F4A7C15, b + t}
}

// Hash is a fingerprint of the execution's per-object operation orders (a
// Mazurkiewicz-trace style hash: executions that differ only in the order of
// operations on different objects get the same value).
func (e *Exec) Hash() uint64 {
	var s uint64
	for o, h := range e.ohash {
		x := (h ^ uint64(o)*0xD6E8FEB86659FD93) * 0xFF51AFD7ED558CCD
		x ^= x >> 33
		s += x
	}
	return s
}

// Go starts a managed goroutine.
func Go(site string, f func()) {
	e := ex
	if e == nil {
		go f()
		return
	}
	if e.dead {
		return
	}
	g := &G{id: len(e.gs), site: site, wake: make(chan struct{}, 1)}
	g.pend = op{kind: KStart}
	g.arr = e.arrSeq
	e.arrSeq++
	e.gs = append(e.gs, g)
	e.note(e.cur, KStart, -3) // goroutine ids follow the global spawn order: it is part of the state
	if e.hb != nil {
		e.hb.fork(e.cur.id, g.id)
	}
	e.wg.Add(1)
	go g.run(e, f)
}

func (g *G) run(e *Exec, f func()) {
	defer e.wg.Done()
	<-g.wake
	if e.dead {
		return
	}
	g.started = true
	defer func() {
		if e.dead {
			_ = recover()
			return
		}
		if r := recover(); r != nil {
			e.recordPanic(g, r)
			g.done = true
			e.dead = true // no further scheduling; controller cleans up
			e.finish()
			return
		}
		g.done = true
		e.exitDispatch(g)
	}()
	f()
}

func (e *Exec) recordPanic(g *G, r any) {
	st := string(debug.Stack())
	frame := ""
	lines := strings.Split(st, "\n")
	// find first frame after the panic call that is in the library (not vs, not runtime)
	seenPanic := false
	for i := 0; i+1 < len(lines); i++ {
		l := lines[i]
		if strings.HasPrefix(l, "panic(") {
			seenPanic = true
			continue
		}
		if !seenPanic || strings.HasPrefix(l, "\t") {
			continue
		}
		if strings.HasPrefix(l, "runtime.") || strings.Contains(l, "/vs.") || strings.Contains(l, "/vs/") {
			continue
		}
		frame = l
		if j := strings.LastIndex(frame, "("); j > 0 {
			frame = frame[:j]
		}
		break
	}
	rec := PanicRec{G: g.id, Site: g.site, Value: fmt.Sprint(r), Frame: frame}
	rec.Stack = st
	e.Panics = append(e.Panics, rec)
}

// enabled computes the goroutines whose pending operation can fire, the
// running goroutine first. Idle operations count only if nothing else can run.
func (e *Exec) enabled(me *G) []*G {
	en := e.enScratch[:0]
	var idle []*G
	if me != nil && !me.done {
		if me.pend.kind == KIdle {
			idle = append(idle, me)
		} else if e.canFire(me) {
			en = append(en, me)
		}
	}
	for _, g := range e.gs {
		if g == me || g.done {
			continue
		}
		if g.pend.kind == KIdle {
			idle = append(idle, g)
			continue
		}
		if e.canFire(g) {
			en = append(en, g)
		}
	}
	if len(en) == 0 && len(idle) > 0 {
		en = append(en, idle[0])
	}
	e.enScratch = en
	return en
}

func (e *Exec) sendReady(g *G, c *chanState) bool {
	if c == nil {
		return false
	}
	if c.closed {
		return true
	}
	if c.cap > 0 {
		return c.n < c.cap
	}
	return e.partner(g, c, false) != nil
}

func (e *Exec) recvReady(g *G, c *chanState) bool {
	if c == nil {
		return false
	}
	if c.n > 0 || c.closed {
		return true
	}
	if c.cap > 0 {
		return false
	}
	return e.partner(g, c, true) != nil
}

// partner finds the longest-waiting goroutine other than g that is pending on
// the complementary operation of unbuffered channel c (wantSender: g receives).
func (e *Exec) partner(g *G, c *chanState, wantSender bool) *G {
	var best *G
	for _, h := range e.gs {
		if h == g || h.done {
			continue
		}
		ok := false
		switch h.pend.kind {
		case KSend:
			ok = wantSender && h.pend.ch == c
		case KRecv:
			ok = !wantSender && h.pend.ch == c
		case KSelect:
			for i := range h.pend.sel.cases {
				cs := &h.pend.sel.cases[i]
				if cs.ch == c && cs.send == wantSender {
					ok = true
					break
				}
			}
		}
		if ok && (best == nil || h.arr < best.arr) {
			best = h
		}
	}
	return best
}

func (e *Exec) canFire(g *G) bool {
	o := &g.pend
	switch o.kind {
	case KLock:
		return !o.mu.held && o.mu.readers == 0
	case KRLock:
		return !o.mu.held
	case KSend:
		return e.sendReady(g, o.ch)
	case KRecv:
		return e.recvReady(g, o.ch)
	case KSelect:
		if o.sel.hasDefault {
			return true
		}
		for i := range o.sel.cases {
			cs := &o.sel.cases[i]
			if cs.send {
				if e.sendReady(g, cs.ch) {
					return true
				}
			} else if e.recvReady(g, cs.ch) {
				return true
			}
		}
		return false
	case KRead:
		return o.st.readable()
	case KWrite:
		return !o.st.stalled(o.wn)
	case KSemAcq:
		return o.sem.n > 0
	case KWgWait:
		return o.wg.n <= 0
	case KCondWait:
		return false
	}
	return true
}

// pick takes the next decision: from the prefix while replaying, otherwise the
// default (0). Only decisions inside the window with n > 1 are recorded.
func (e *Exec) pick(kind ChoiceKind, n int, curEnabled bool) int {
	if n <= 1 || !e.window {
		return 0
	}
	p := 0
	i := len(e.Choices)
	if i < len(e.prefix) {
		p = e.prefix[i]
		if p >= n {
			if e.Diverged == "" {
				e.Diverged = fmt.Sprintf("choice %d: prefix wants alternative %d of %d", i, p, n)
			}
			p = 0
		}
	}
	e.Choices = append(e.Choices, Choice{Kind: kind, N: n, Picked: p, CurEnabled: curEnabled})
	if e.keyed {
		e.Keys = append(e.Keys, e.stateKey(kind, n))
	}
	return p
}

// completeRendezvous hands a value from sender to receiver; `other` is the
// parked partner whose operation is completed on its behalf.
func (e *Exec) resolvePartner(other *G, c *chanState, otherSends bool, val any) any {
	var out any
	if other.pend.kind == KSelect {
		s := other.pend.sel
		for i := range s.cases {
			cs := &s.cases[i]
			if cs.ch == c && cs.send == otherSends {
				other.res.idx = i
				if otherSends {
					out = cs.val
					other.res.direct = true
				} else {
					other.res.val, other.res.ok, other.res.direct = val, true, true
				}
				break
			}
		}
	} else if otherSends {
		out = other.pend.val
		other.res.direct = true
	} else {
		other.res.val, other.res.ok, other.res.direct = val, true, true
	}
	e.note(other, other.pend.kind, c.id)
	other.pend = op{kind: KResume}
	return out
}

func (e *Exec) applySend(g *G, c *chanState, val any) {
	if c.closed {
		g.res.pan = "send on closed channel"
		return
	}
	if c.cap > 0 {
		g.res.direct = false // owner pushes after the grant
		return
	}
	r := e.partner(g, c, false)
	e.resolvePartner(r, c, false, val)
	e.hbRendezvous(g, r)
	g.res.direct = true
}

func (e *Exec) applyRecv(g *G, c *chanState) {
	if c.n > 0 {
		g.res.direct = false // owner pops after the grant
		g.res.ok = true
		return
	}
	if c.closed {
		g.res.direct = true
		g.res.val, g.res.ok = nil, false
		if e.hb != nil {
			e.hb.acquire(g.id, c.closeClk)
		}
		return
	}
	s := e.partner(g, c, true)
	v := e.resolvePartner(s, c, true, nil)
	e.hbRendezvous(s, g)
	g.res.val, g.res.ok, g.res.direct = v, true, true
}

func (e *Exec) apply(g *G) {
	o := &g.pend
	if o.kind == KStart || o.kind == KResume {
		return
	}
	g.res = result{}
	switch o.kind {
	case KLock:
		o.mu.held = true
		if e.hb != nil {
			e.hb.acquire(g.id, o.mu.hbvc)
			e.hb.acquire(g.id, o.mu.hbrvc)
		}
		e.note(g, KLock, o.mu.id)
	case KRLock:
		o.mu.readers++
		if e.hb != nil {
			e.hb.acquire(g.id, o.mu.hbvc)
		}
		e.note(g, KRLock, o.mu.id)
	case KSend:
		e.applySend(g, o.ch, o.val)
		e.note(g, KSend, o.ch.id)
	case KRecv:
		e.applyRecv(g, o.ch)
		e.note(g, KRecv, o.ch.id)
	case KSelect:
		s := o.sel
		var ready [16]int
		rd := ready[:0]
		for i := range s.cases {
			cs := &s.cases[i]
			if cs.send && e.sendReady(g, cs.ch) || !cs.send && e.recvReady(g, cs.ch) {
				rd = append(rd, i)
			}
		}
		if len(rd) == 0 {
			g.res.idx = -1
			e.note(g, KSelect, 0)
			return
		}
		k := 0
		if len(rd) > 1 {
			k = e.pick(CSel, len(rd), false)
		}
		i := rd[k]
		cs := &s.cases[i]
		if cs.send {
			e.applySend(g, cs.ch, cs.val)
		} else {
			e.applyRecv(g, cs.ch)
		}
		g.res.idx = i
		e.note(g, KSelect, cs.ch.id)
	case KClose:
		if o.ch == nil {
			g.res.pan = "close of nil channel"
			return
		}
		if o.ch.closed {
			g.res.pan = "close of closed channel"
			return
		}
		o.ch.closed = true
		if e.hb != nil {
			o.ch.closeClk = e.hb.release(g.id)
		}
		e.note(g, KClose, o.ch.id)
	case KSemAcq:
		o.sem.n--
		if e.hb != nil {
			e.hb.acquire(g.id, o.sem.hbvc)
		}
		e.note(g, KSemAcq, o.sem.id)
	case KSemRel:
		o.sem.n++
		if e.hb != nil {
			o.sem.hbvc = o.sem.hbvc.join(e.hb.release(g.id))
		}
		e.note(g, KSemRel, o.sem.id)
	case KRead, KWrite, KConnClose:
		e.note(g, o.kind, o.st.id)
		if o.st2 != nil {
			e.note(g, o.kind, o.st2.id) // closing an end changes the state of both directions
		}
	case KAtomic:
		e.note(g, KAtomic, o.obj)
	case KWgWait:
		if e.hb != nil {
			e.hb.acquire(g.id, o.wg.hbvc)
		}
		e.note(g, KWgWait, o.wg.id)
	case KIdle, KYield:
		e.note(g, o.kind, 0)
	}
}

// point publishes the running goroutine's next operation and returns once it
// has been applied and the goroutine holds the baton again.
func (e *Exec) point(o op) *G {
	me := e.cur
	if e.dead {
		runtime.Goexit()
	}
	e.steps++
	if e.window {
		e.WinSteps++
	}
	if e.steps > e.horizon {
		e.HitHorizon = true
		e.finish()
		e.parkForever(me)
	}
	me.pend = o
	me.arr = e.arrSeq
	e.arrSeq++
	// On an unbuffered channel the partner of a rendezvous is the longest-waiting
	// goroutine, so the order of arrival is part of the channel's state.
	switch o.kind {
	case KSend, KRecv:
		if o.ch != nil && o.ch.cap == 0 {
			e.note(me, KArrive, o.ch.id)
		}
	case KSelect:
		for i := range o.sel.cases {
			if c := o.sel.cases[i].ch; c != nil && c.cap == 0 {
				e.note(me, KArrive, c.id)
			}
		}
	}
	if !e.window {
		// fast path: default policy keeps the running goroutine if it can go on
		if e.canFire(me) && o.kind != KIdle {
			e.apply(me)
			return me
		}
	}
	en := e.enabled(me)
	if len(en) == 0 {
		e.quiesce()
		e.parkForever(me)
	}
	i := e.pick(CSched, len(en), en[0] == me)
	g := en[i]
	e.apply(g)
	if g == me {
		return me
	}
	e.cur = g
	g.wake <- struct{}{}
	<-me.wake
	if e.dead {
		runtime.Goexit()
	}
	return me
}

func (e *Exec) quiesce() {
	e.Quiescent = true
	for _, g := range e.gs {
		if g.done {
			continue
		}
		obj := 0
		switch {
		case g.pend.mu != nil:
			obj = g.pend.mu.id
		case g.pend.ch != nil:
			obj = g.pend.ch.id
		case g.pend.st != nil:
			obj = g.pend.st.id
		case g.pend.sem != nil:
			obj = g.pend.sem.id
		}
		e.Parked = append(e.Parked, Parked{G: g.id, Site: g.site, Op: g.pend.kind.String(), Obj: obj})
	}
	e.finish()
}

// exitDispatch passes the baton on when a goroutine body returns.
func (e *Exec) exitDispatch(me *G) {
	en := e.enabled(nil)
	if len(en) == 0 {
		e.quiesce()
		return
	}
	i := e.pick(CSched, len(en), false)
	g := en[i]
	e.apply(g)
	e.cur = g
	g.wake <- struct{}{}
}

// Options configure one execution.
type Options struct {
	Horizon int
	Trace   bool
	Keys    bool // record a state key at every choice point (for state-key pruning)
}

// Run executes body under the scheduler following prefix, then the default policy.
func Run(prefix []int, body func(), opt Options) *Exec {
	if ex != nil {
		panic("vs.Run: nested execution")
	}
	e := &Exec{prefix: prefix, chans: map[unsafe.Pointer]*chanState{}, fin: make(chan struct{}, 1), ohash: map[int]uint64{}}
	e.horizon = opt.Horizon
	if e.horizon == 0 {
		e.horizon = 2000000
	}
	e.tracing = opt.Trace
	e.keyed = opt.Keys
	epochCounter++
	e.epoch = epochCounter
	ex = e
	g0 := &G{id: 0, site: "main", wake: make(chan struct{}, 1)}
	g0.pend = op{kind: KStart}
	e.gs = append(e.gs, g0)
	e.cur = g0
	e.wg.Add(1)
	go g0.run(e, body)
	g0.wake <- struct{}{}
	<-e.fin
	// kill everything that is still parked
	e.dead = true
	for _, g := range e.gs {
		if !g.done {
			select {
			case g.wake <- struct{}{}:
			default:
			}
		}
	}
	e.wg.Wait()
	e.Steps = e.steps
	ex = nil
	return e
}

// Picks returns the decisions taken, usable as a prefix for replay.
func (e *Exec) Picks() []int {
	p := make([]int, len(e.Choices))
	for i, c := range e.Choices {
		p[i] = c.Picked
	}
	return p
}

// Goroutines returns (id, site, done) for every managed goroutine.
func (e *Exec) Goroutines() []Parked {
	var out []Parked
	for _, g := range e.gs {
		st := "running"
		if g.done {
			st = "done"
		} else {
			st = g.pend.kind.String()
		}
		out = append(out, Parked{G: g.id, Site: g.site, Op: st})
	}
	return out
}

// ---------------------------------------------------------------------------
// harness-facing primitives

// Choose is an environment choice point with n alternatives (0 is the default).
func Choose(n int) int {
	if ex == nil || ex.dead {
		return 0
	}
	return ex.pick(CEnv, n, false)
}

// Idle blocks until no other goroutine can make progress.
func Idle() {
	if ex == nil || ex.dead {
		return
	}
	ex.point(op{kind: KIdle})
}

// Yield is a plain scheduling point.
func Yield() {
	if ex == nil || ex.dead {
		return
	}
	ex.point(op{kind: KYield})
}

// Sem is a counting semaphore owned by the scheduler (harness gates).
type Sem struct {
	id   int
	n    int
	hbvc vclock
}

func NewSem(n int) *Sem {
	s := &Sem{n: n}
	if ex != nil {
		s.id = ex.newObj()
	}
	return s
}

func (s *Sem) Acquire() {
	if ex == nil || ex.dead {
		return
	}
	ex.point(op{kind: KSemAcq, sem: s})
}

func (s *Sem) Release() {
	if ex == nil || ex.dead {
		return
	}
	ex.point(op{kind: KSemRel, sem: s})
}

// ReleaseNow increments without a scheduling point (used from Idle phases).
func (s *Sem) ReleaseNow() { s.n++ }

// ---------------------------------------------------------------------------
// mutex / waitgroup / atomic entry points used by the shims

func (m *MutexState) check(e *Exec) {
	if m.epoch != e.epoch {
		m.epoch = e.epoch
		m.id = e.newObj()
		m.held = false
		m.readers = 0
		m.hbvc, m.hbrvc = nil, nil // a mutex that outlives an execution (package level) starts afresh
	}
}

func MutexLock(m *MutexState) bool {
	e := ex
	if e == nil {
		return false
	}
	if e.dead {
		return true
	}
	m.check(e)
	e.point(op{kind: KLock, mu: m})
	return true
}

func MutexTryLock(m *MutexState) (handled, ok bool) {
	e := ex
	if e == nil {
		return false, false
	}
	if e.dead {
		return true, true
	}
	m.check(e)
	e.point(op{kind: KYield})
	if m.held || m.readers > 0 {
		return true, false
	}
	m.held = true
	if e.hb != nil {
		e.hb.acquire(e.cur.id, m.hbvc)
		e.hb.acquire(e.cur.id, m.hbrvc)
	}
	e.note(e.cur, KLock, m.id)
	return true, true
}

func MutexUnlock(m *MutexState) bool {
	e := ex
	if e == nil {
		return false
	}
	if e.dead {
		return true
	}
	m.check(e)
	if !m.held {
		panic("sync: unlock of unlocked mutex")
	}
	m.held = false
	if e.hb != nil {
		m.hbvc = e.hb.release(e.cur.id)
	}
	e.note(e.cur, KExit, m.id)
	return true
}

func MutexRLock(m *MutexState) bool {
	e := ex
	if e == nil {
		return false
	}
	if e.dead {
		return true
	}
	m.check(e)
	e.point(op{kind: KRLock, mu: m})
	return true
}

func MutexRUnlock(m *MutexState) bool {
	e := ex
	if e == nil {
		return false
	}
	if e.dead {
		return true
	}
	m.check(e)
	m.readers--
	if e.hb != nil {
		m.hbrvc = m.hbrvc.join(e.hb.release(e.cur.id))
	}
	return true
}

// OnceState carries the happens-before edge of a sync.Once: the completion of the
// first call is ordered before the return of every call; calls that find the Once
// done do not order each other (they only load a flag).
type OnceState struct {
	epoch uint32
	hbvc  vclock
}

// OncePublish is called by the first caller when f has returned.
func OncePublish(o *OnceState) {
	e := ex
	if e == nil || e.dead {
		return
	}
	o.epoch = e.epoch
	o.hbvc = nil
	if e.hb != nil {
		o.hbvc = e.hb.release(e.cur.id)
	}
}

// OnceObserve is the fast path of Do: a scheduling point, and the acquire side.
func OnceObserve(o *OnceState) {
	e := ex
	if e == nil || e.dead {
		return
	}
	e.point(op{kind: KYield})
	if e.hb != nil && o.epoch == e.epoch {
		e.hb.acquire(e.cur.id, o.hbvc)
	}
}

func WGAdd(w *WGState, d int) bool {
	e := ex
	if e == nil {
		return false
	}
	if e.dead {
		return true
	}
	if w.epoch != e.epoch {
		w.epoch, w.id, w.n, w.hbvc = e.epoch, e.newObj(), 0, nil
	}
	w.n += d
	if e.hb != nil && d < 0 {
		w.hbvc = w.hbvc.join(e.hb.release(e.cur.id))
	}
	return true
}

func WGWait(w *WGState) bool {
	e := ex
	if e == nil {
		return false
	}
	if e.dead {
		return true
	}
	if w.epoch != e.epoch {
		w.epoch, w.id, w.n, w.hbvc = e.epoch, e.newObj(), 0, nil
	}
	e.point(op{kind: KWgWait, wg: w})
	return true
}

// AtomicPoint is called by the atomic shim before every atomic operation.
func AtomicPoint(addr unsafe.Pointer, size uintptr, write bool) {
	e := ex
	if e == nil || e.dead {
		return
	}
	e.point(op{kind: KAtomic, obj: -1})
	e.hbAtomic(addr, size, write)
}

// ---------------------------------------------------------------------------
// channels

func chanKey[T any](ch <-chan T) unsafe.Pointer {
	return *(*unsafe.Pointer)(unsafe.Pointer(&ch))
}

func stateOf[T any](e *Exec, ch <-chan T) *chanState {
	k := chanKey(ch)
	if k == nil {
		return nil
	}
	if k == e.lastKey {
		return e.lastState
	}
	st := e.chans[k]
	if st == nil {
		st = &chanState{id: e.newObj(), cap: cap(ch), buf: &ring[T]{items: make([]T, 0, min(cap(ch), 1<<16))}}
		e.chans[k] = st
	}
	e.lastKey, e.lastState = k, st
	return st
}

func unbox[T any](v any) T {
	if v == nil {
		var z T
		return z
	}
	return v.(T)
}

func Send[T any](ch chan<- T, v T) {
	e := ex
	if e == nil {
		ch <- v
		return
	}
	if e.dead {
		return
	}
	st := stateOf(e, *(*<-chan T)(unsafe.Pointer(&ch)))
	if !e.window && st != nil && st.cap > 0 && st.n < st.cap && !st.closed {
		// outside the window the default policy keeps the running goroutine going:
		// a buffered send with room needs no scheduling decision
		r := st.buf.(*ring[T])
		r.items = append(r.items, v)
		st.n++
		st.hbPush(e)
		return
	}
	o := op{kind: KSend, ch: st}
	if st != nil && st.cap == 0 {
		o.val = any(v)
	}
	g := e.point(o)
	if g.res.pan != "" {
		panic(g.res.pan)
	}
	if !g.res.direct {
		r := st.buf.(*ring[T])
		r.items = append(r.items, v)
		st.n++
		st.hbPush(e)
	}
}

func recvFinish[T any](g *G, st *chanState) (T, bool) {
	if g.res.direct {
		return unbox[T](g.res.val), g.res.ok
	}
	r := st.buf.(*ring[T])
	v := r.items[0]
	var z T
	r.items[0] = z
	r.items = r.items[1:]
	st.n--
	if ex != nil {
		st.hbPop(ex)
	}
	return v, true
}

func Recv[T any](ch <-chan T) T {
	v, _ := Recv2(ch)
	return v
}

func Recv2[T any](ch <-chan T) (T, bool) {
	e := ex
	if e == nil {
		v, ok := <-ch
		return v, ok
	}
	if e.dead {
		var z T
		return z, false
	}
	st := stateOf(e, ch)
	g := e.point(op{kind: KRecv, ch: st})
	return recvFinish[T](g, st)
}

func Close[T any](ch chan<- T) {
	e := ex
	if e == nil {
		close(ch)
		return
	}
	if e.dead {
		return
	}
	st := stateOf(e, *(*<-chan T)(unsafe.Pointer(&ch)))
	g := e.point(op{kind: KClose, ch: st})
	if g.res.pan != "" {
		panic(g.res.pan)
	}
}

func Len[T any](ch <-chan T) int {
	e := ex
	if e == nil {
		return len(ch)
	}
	if e.dead {
		return 0
	}
	st := stateOf(e, ch)
	if st == nil {
		return 0
	}
	return st.n
}

func Cap[T any](ch <-chan T) int { return cap(ch) }

// select ---------------------------------------------------------------------

func NewSel(hasDefault bool) *Sel { return &Sel{hasDefault: hasDefault, idx: -1} }

func AddRecv[T any](s *Sel, ch <-chan T) {
	e := ex
	if e == nil {
		s.real = append(s.real, reflect.SelectCase{Dir: reflect.SelectRecv, Chan: reflect.ValueOf(ch)})
		return
	}
	if e.dead {
		return
	}
	st := stateOf(e, ch)
	s.cases = append(s.cases, selCase{ch: st})
}

func AddSend[T any](s *Sel, ch chan<- T, v T) {
	e := ex
	if e == nil {
		s.real = append(s.real, reflect.SelectCase{Dir: reflect.SelectSend, Chan: reflect.ValueOf(ch), Send: reflect.ValueOf(&v).Elem()})
		return
	}
	if e.dead {
		return
	}
	st := stateOf(e, *(*<-chan T)(unsafe.Pointer(&ch)))
	c := selCase{send: true, ch: st}
	if st != nil {
		if st.cap == 0 {
			c.val = any(v)
		} else {
			c.finish = func() {
				r := st.buf.(*ring[T])
				r.items = append(r.items, v)
				st.n++
				if ex != nil {
					st.hbPush(ex)
				}
			}
		}
	}
	s.cases = append(s.cases, c)
}

// RunSel blocks until a case can fire and returns its index (-1 = default).
func RunSel(s *Sel) int {
	e := ex
	if e == nil {
		cases := s.real
		if s.hasDefault {
			cases = append(cases[:len(cases):len(cases)], reflect.SelectCase{Dir: reflect.SelectDefault})
		}
		i, v, ok := reflect.Select(cases)
		if s.hasDefault && i == len(cases)-1 {
			s.idx = -1
			return -1
		}
		s.idx = i
		if s.real[i].Dir == reflect.SelectRecv {
			s.gotOK = ok
			if v.IsValid() {
				s.got = v.Interface()
			}
		}
		return i
	}
	if e.dead {
		runtime.Goexit()
	}
	g := e.point(op{kind: KSelect, sel: s})
	if g.res.pan != "" {
		panic(g.res.pan)
	}
	s.idx = g.res.idx
	if s.idx >= 0 {
		c := &s.cases[s.idx]
		if c.send {
			if !g.res.direct && c.finish != nil {
				c.finish()
			}
		} else {
			s.got, s.gotOK = g.res.val, g.res.ok
		}
		s.direct = g.res.direct
	}
	return s.idx
}

// Got2 completes the receive of the case that fired (must be called exactly
// once for a fired receive case).
func Got2[T any](s *Sel, ch <-chan T) (T, bool) {
	e := ex
	if e == nil && s.idx >= 0 {
		return unbox[T](s.got), s.gotOK
	}
	if e == nil || e.dead || s.idx < 0 {
		var z T
		return z, false
	}
	if s.direct {
		return unbox[T](s.got), s.gotOK
	}
	st := s.cases[s.idx].ch
	r := st.buf.(*ring[T])
	v := r.items[0]
	var z T
	r.items[0] = z
	r.items = r.items[1:]
	st.n--
	st.hbPop(e)
	return v, true
}

func Got[T any](s *Sel, ch <-chan T) T {
	v, _ := Got2(s, ch)
	return v
}

// SortedKeys returns the keys of m in ascending order (deterministic map iteration).
func SortedKeys[K interface {
	~int | ~int8 | ~int16 | ~int32 | ~int64 | ~uint | ~uint8 | ~uint16 | ~uint32 | ~uint64 | ~uintptr | ~string
}, V any](m map[K]V) []K {
	ks := make([]K, 0, len(m))
	for k := range m {
		ks = append(ks, k)
	}
	sort.Slice(ks, func(i, j int) bool { return ks[i] < ks[j] })
	return ks
}
