package main

import (
	"encoding/binary"
	"fmt"
	"os"
	"path/filepath"
	"strings"

	"github.com/rminnich/go9p"
	"github.com/rminnich/go9p/vs"
	"harness/wire"
)

// C06: no client behaviour can crash the server. Fault enumeration: hostile
// field values against every fid state, byte-level mutations of valid
// sessions, against the scripted implementation and the real Ufs.

// scratchDir returns a fresh directory for file-system scenarios; nested so
// that short ".." chains cannot leave it.
func scratchDir(tag string) (base, root string) {
	top := os.Getenv("VERIF_SCRATCH")
	if top == "" {
		top = "/dev/shm"
		if st, err := os.Stat(top); err != nil || !st.IsDir() {
			top = "/var/tmp"
		}
	}
	base, err := os.MkdirTemp(top, "verif-fs-"+tag+"-")
	if err != nil {
		panic(err)
	}
	root = filepath.Join(base, "n1", "n2", "n3", "n4", "export")
	if err := os.MkdirAll(root, 0o755); err != nil {
		panic(err)
	}
	return base, root
}

func makeStdTree(root string) {
	os.MkdirAll(filepath.Join(root, "d"), 0o755)
	os.WriteFile(filepath.Join(root, "d", "h"), []byte("hello from h\n"), 0o644)
	os.WriteFile(filepath.Join(root, "f"), []byte("0123456789abcdefghijklmnopqrstuvwxyz"), 0o644)
	os.WriteFile(filepath.Join(root, "g"), []byte("gggg"), 0o644)
	// owners the host has no names for (when the harness may chown): same number for user
	// and group, different numbers, a known user with an unknown group
	os.Chown(filepath.Join(root, "f"), 54321, 54321)
	os.Chown(filepath.Join(root, "g"), 54321, 54322)
	os.Chown(filepath.Join(root, "d", "h"), 0, 54323)
}

// newUfsH starts the bundled Unix file server on root.
func newUfsH(root string, msize uint32, dotu bool) *SrvH {
	resetServerGlobals()
	u := new(go9p.Ufs)
	u.Dotu = dotu
	u.Msize = msize
	u.Id = "ufs"
	u.Root = root
	if !u.Start(u) {
		panic("Ufs.Start failed")
	}
	return &SrvH{Srv: &u.Srv}
}

type c06Cfg struct {
	Backend string // script | ufs
	Msize   uint32
	Dotu    bool
}

// c06Run plays: bystander set-up, victim set-up events, the hostile bytes, a
// follow-up valid request, then the liveness probes. It returns a description
// of what went wrong, or "".
func c06Run(c c06Cfg, root string, setup []mevent, hostile [][]byte) (bad, sig string) {
	c06SetupOK = true
	body := func() {
		var h *SrvH
		if c.Backend == "ufs" {
			h = newUfsH(root, c.Msize, c.Dotu)
		} else {
			h = NewSrvH(NewFS(), SrvOpt{Msize: c.Msize, Dotu: c.Dotu, Auth: true, Flush: true})
			h.FS.FlushMode = "ignore"
		}
		ver := "9P2000"
		if c.Dotu {
			ver = "9P2000.u"
		}
		by := h.Connect()
		by.Version(c.Msize, ver)
		byName := "bob"
		if c.Dotu {
			byName = "" // the numeric id identifies the user; keeps the frame within msize 24
		}
		by.Rpc(tattach(1, 0, wire.NOFID, byName, 8, c.Dotu))
		v := h.Connect()
		v.Version(c.Msize, ver)
		tag := uint16(10)
		for _, e := range setup {
			tag++
			if c.Dotu && (e.Op == "attach" || e.Op == "auth") {
				e.Uname = "" // the numeric id identifies the user; keeps the frame within msize 24
			}
			if v.Rpc(e.toMsg(tag, c.Dotu)) == nil {
				c06SetupOK = false // the set-up itself does not fit this msize: the case is trivial
			}
		}
		for _, hb := range hostile {
			v.SendRaw(hb)
			vs.Idle()
		}
		// a valid request afterwards on the same connection (it may have been dropped: that is allowed)
		v.Send(c.Dotu, &wire.Msg{Type: wire.Tstat, Tag: 77, Fid: 0})
		vs.Idle()
		// liveness: bystander and a fresh connection
		if r := by.Rpc(&wire.Msg{Type: wire.Tstat, Tag: 5, Fid: 0}); r == nil || (r.Type != wire.Rstat && r.Type != wire.Rerror) {
			vs.Fail("bystander connection no longer answers (got %v)", r)
		}
		nc := h.Connect()
		if r := nc.Version(c.Msize, ver); r == nil || r.Type != wire.Rversion {
			vs.Fail("a fresh connection cannot negotiate any more (got %v)", r)
		}
	}
	x := vs.Run(nil, body, vs.Options{Horizon: 400000})
	if len(x.Panics) > 0 {
		p := x.Panics[0]
		return "server goroutine panicked: " + p.Value + "\n" + trimStack(p.Stack), "C06/panic/" + p.Frame + "/" + panicClass(p.Value)
	}
	if len(x.Fails) > 0 {
		return x.Fails[0], "C06/liveness/" + sigWords(x.Fails[0])
	}
	if x.HitHorizon {
		return "execution did not finish within the step horizon", "C06/horizon"
	}
	return "", ""
}

var c06SetupOK bool

func hostileNames(limit int) []string {
	ns := []string{"", ".", "..", "/", "a/b", "../x", "../../x", "d/../..", strings.Repeat("n", 255), "\x00", "x\x00y", strings.Repeat("é", 100)}
	var out []string
	for _, n := range ns {
		if len(n) <= limit {
			out = append(out, n)
		}
	}
	return out
}

// hostile requests for one configuration; only frames that fit msize (larger
// ones are the business of the frame-size family below)
func c06Hostile(c c06Cfg) [][]byte {
	var out [][]byte
	add := func(m *wire.Msg) {
		b := wire.Encode(m, c.Dotu)
		if uint32(len(b)) <= c.Msize {
			out = append(out, b)
		}
	}
	fids := []uint32{0, 1, 2, 7, wire.NOFID}
	tags := []uint16{90, wire.NOTAG, 0}
	L := c.Msize - 24
	nameLimit := int(c.Msize) - 40
	for _, t := range tags {
		for _, ms := range []uint32{0, 23, 24, c.Msize + 1, ^uint32(0)} {
			for _, v := range []string{"", "9P2000", "9P2000.u", "bogus", strings.Repeat("v", 40)} {
				add(&wire.Msg{Type: wire.Tversion, Tag: t, Msize: ms, Version: v})
			}
		}
		for _, f := range fids {
			add(&wire.Msg{Type: wire.Tclunk, Tag: t, Fid: f})
			add(&wire.Msg{Type: wire.Tremove, Tag: t, Fid: f})
			add(&wire.Msg{Type: wire.Tstat, Tag: t, Fid: f})
			for _, mode := range []uint8{0, 1, 3, 0x10, 0x40, 0xFF} {
				add(&wire.Msg{Type: wire.Topen, Tag: t, Fid: f, Mode: mode})
			}
			for _, off := range []uint64{0, 1, 12, 13, 1 << 63, ^uint64(0)} {
				for _, cnt := range []uint32{0, 1, L - 1, L, L + 1, 1 << 31, ^uint32(0) - 16, ^uint32(0)} {
					add(&wire.Msg{Type: wire.Tread, Tag: t, Fid: f, Offset: off, Count: cnt})
				}
				for _, n := range []uint32{0, 1, L} {
					add(&wire.Msg{Type: wire.Twrite, Tag: t, Fid: f, Offset: off, Data: make([]byte, n)})
				}
			}
			for _, a := range fids {
				for _, un := range []string{"", "glenda", "nobody"} {
					add(&wire.Msg{Type: wire.Tattach, Tag: t, Fid: f, Afid: a, Uname: un, NUname: 7, HasNUname: c.Dotu})
					add(&wire.Msg{Type: wire.Tattach, Tag: t, Fid: f, Afid: a, Uname: un, NUname: wire.NOFID, HasNUname: c.Dotu})
				}
				add(twalk(t, f, a))
				add(twalk(t, f, a, "d"))
				add(twalk(t, f, a, "..", ".."))
			}
			for _, un := range []string{"", "glenda"} {
				add(&wire.Msg{Type: wire.Tauth, Tag: t, Afid: f, Uname: un, NUname: 7, HasNUname: c.Dotu})
				add(&wire.Msg{Type: wire.Tauth, Tag: t, Afid: f, Uname: un, NUname: wire.NOFID, HasNUname: c.Dotu})
			}
			for _, n := range hostileNames(nameLimit) {
				add(twalk(t, f, 5, n))
				for _, perm := range []uint32{0644, go9p.DMDIR | 0755, go9p.DMSYMLINK, go9p.DMLINK, go9p.DMDEVICE, ^uint32(0), 0} {
					add(&wire.Msg{Type: wire.Tcreate, Tag: t, Fid: f, Name: n, Perm: perm, Mode: 1, Ext: n})
				}
				st := wire.Stat{Type: 0xFFFF, Dev: 0xFFFFFFFF, Qid: wire.Qid{Type: 0xFF, Vers: 0xFFFFFFFF, Path: ^uint64(0)}, Mode: 0xFFFFFFFF, Atime: 0xFFFFFFFF, Mtime: 0xFFFFFFFF, Length: ^uint64(0), Name: n, NUid: 0xFFFFFFFF, NGid: 0xFFFFFFFF, NMuid: 0xFFFFFFFF}
				add(&wire.Msg{Type: wire.Twstat, Tag: t, Fid: f, Stat: st})
			}
			add(&wire.Msg{Type: wire.Twstat, Tag: t, Fid: f, Stat: wire.Stat{}})
			add(&wire.Msg{Type: wire.Twstat, Tag: t, Fid: f, Stat: wire.Stat{Mode: 0xFFFFFFFF, Atime: 0xFFFFFFFF, Mtime: 5, Length: 3, NUid: 0xFFFFFFFF, NGid: 0xFFFFFFFF, NMuid: 0xFFFFFFFF}})
			// owner and group given by name: names the host knows as user and group, as
			// user only, as group only (adm, tty, users, nogroup ...), not at all, and numbers
			for _, who := range []string{"root", "daemon", "adm", "tty", "users", "staff", "nogroup", "no-such-name", "0", "54321", strings.Repeat("n", 300)} {
				dt := wire.Stat{Type: 0xFFFF, Dev: 0xFFFFFFFF, Qid: wire.Qid{Type: 0xFF, Vers: 0xFFFFFFFF, Path: ^uint64(0)}, Mode: 0xFFFFFFFF, Atime: 0xFFFFFFFF, Mtime: 0xFFFFFFFF, Length: ^uint64(0), NUid: 0xFFFFFFFF, NGid: 0xFFFFFFFF, NMuid: 0xFFFFFFFF}
				g, u, b := dt, dt, dt
				g.Gid = who
				u.Uid = who
				b.Uid, b.Gid, b.Muid = who, who, who
				add(&wire.Msg{Type: wire.Twstat, Tag: t, Fid: f, Stat: g})
				add(&wire.Msg{Type: wire.Twstat, Tag: t, Fid: f, Stat: u})
				add(&wire.Msg{Type: wire.Twstat, Tag: t, Fid: f, Stat: b})
			}
			var sixteen, seventeen []string
			for i := 0; i < 17; i++ {
				if i < 16 {
					sixteen = append(sixteen, "d")
				}
				seventeen = append(seventeen, "..")
			}
			add(twalk(t, f, 6, sixteen...))
			add(twalk(t, f, 6, seventeen...))
		}
		for _, ot := range []uint16{0, 90, 11, wire.NOTAG} {
			add(&wire.Msg{Type: wire.Tflush, Tag: t, Oldtag: ot})
		}
		// messages a client must not send, and undefined types
		for _, ty := range []uint8{wire.Rversion, wire.Rattach, wire.Rerror, wire.Rflush, wire.Rwalk, wire.Rread, wire.Rclunk, wire.Rstat, wire.Rwstat} {
			m := &wire.Msg{Type: ty, Tag: t, Version: "9P2000", Ename: "x"}
			add(m)
		}
		for _, ty := range []uint8{0, 99, 106, 128, 200, 255} {
			b := []byte{7, 0, 0, 0, ty, byte(t), byte(t >> 8)}
			out = append(out, b, append(append([]byte{11, 0, 0, 0, ty, byte(t), byte(t >> 8)}, 1, 0, 0, 0)))
		}
	}
	return out
}

func c06FieldScenario(c c06Cfg, st c05State, part, parts int) Scenario {
	name := fmt.Sprintf("hostile-fields backend=%s msize=%d dotu=%v state=%s part=%d/%d", c.Backend, c.Msize, c.Dotu, st.name, part, parts)
	return Scenario{Name: name, Run: func(rc *RunCtx) *Result {
		res := &Result{Exhaustive: true}
		base, root := "", ""
		if c.Backend == "ufs" {
			base, root = scratchDir("c06")
			defer os.RemoveAll(base)
		}
		hs := c06Hostile(c)
		seen := map[string]bool{}
		for i, hb := range hs {
			if i%parts != part {
				continue
			}
			if rc.Expired() {
				res.Exhaustive = false
				res.CapHit = "internal deadline"
				break
			}
			if c.Backend == "ufs" {
				os.RemoveAll(root)
				os.MkdirAll(root, 0o755)
				makeStdTree(root)
			}
			bad, sig := c06Run(c, root, st.setup, [][]byte{hb})
			res.Evals++
			if c06SetupOK {
				res.Nontrivial++
			} else {
				res.addExtra("cases_whose_setup_does_not_fit_msize", 1)
			}
			if bad != "" && !seen[sig] && len(res.Findings) < 10 {
				seen[sig] = true
				m, _, _ := wire.Decode(hb, c.Dotu)
				res.Findings = append(res.Findings, Finding{Sig: sig, Msg: fmt.Sprintf("%s\nafter state %s, request %v (% x)", bad, st.name, m, hb), Detail: map[string]any{"state": st.name, "frame_hex": fmt.Sprintf("%x", hb)}})
			}
			if len(res.Samples) == 0 {
				m, _, _ := wire.Decode(hb, c.Dotu)
				res.Samples = append(res.Samples, fmt.Sprintf("state %s then %v", st.name, m))
			}
		}
		return res
	}}
}

// a valid session whose frames are mutated one at a time
func c06Session(dotu bool) []*wire.Msg {
	return []*wire.Msg{
		tattach(1, 0, wire.NOFID, "glenda", 7, dotu),
		twalk(2, 0, 1, "d"),
		twalk(3, 0, 2, "f"),
		{Type: wire.Topen, Tag: 4, Fid: 2, Mode: 2},
		{Type: wire.Tread, Tag: 5, Fid: 2, Offset: 1, Count: 8},
		{Type: wire.Twrite, Tag: 6, Fid: 2, Offset: 2, Data: []byte("xyz")},
		{Type: wire.Tcreate, Tag: 7, Fid: 1, Name: "new", Perm: 0644, Mode: 1, Ext: ""},
		{Type: wire.Tstat, Tag: 8, Fid: 0},
		{Type: wire.Twstat, Tag: 9, Fid: 2, Stat: wire.Stat{Type: 0xFFFF, Dev: 0xFFFFFFFF, Qid: wire.Qid{Type: 0xFF, Vers: 0xFFFFFFFF, Path: ^uint64(0)}, Mode: 0xFFFFFFFF, Atime: 0xFFFFFFFF, Mtime: 0xFFFFFFFF, Length: ^uint64(0), NUid: 0xFFFFFFFF, NGid: 0xFFFFFFFF, NMuid: 0xFFFFFFFF}},
		{Type: wire.Tflush, Tag: 10, Oldtag: 5},
		{Type: wire.Tclunk, Tag: 11, Fid: 2},
		{Type: wire.Tremove, Tag: 12, Fid: 1},
	}
}

func c06MutScenario(c c06Cfg, idx int) Scenario {
	sess := c06Session(c.Dotu)
	name := fmt.Sprintf("frame-mutations backend=%s msize=%d dotu=%v frame=%d(%s)", c.Backend, c.Msize, c.Dotu, idx, wire.Names[sess[idx].Type])
	return Scenario{Name: name, Run: func(rc *RunCtx) *Result {
		res := &Result{Exhaustive: true}
		base, root := "", ""
		if c.Backend == "ufs" {
			base, root = scratchDir("c06m")
			defer os.RemoveAll(base)
		}
		var prefix [][]byte
		for _, m := range sess[:idx] {
			prefix = append(prefix, wire.Encode(m, c.Dotu))
		}
		frame := wire.Encode(sess[idx], c.Dotu)
		L := len(frame)
		seen := map[string]bool{}
		try := func(mut []byte, what string) {
			if rc.Expired() {
				res.Exhaustive = false
				res.CapHit = "internal deadline"
				return
			}
			if c.Backend == "ufs" {
				os.RemoveAll(root)
				os.MkdirAll(root, 0o755)
				makeStdTree(root)
			}
			bad, sig := c06Run(c, root, nil, append(append([][]byte{}, prefix...), mut))
			res.Evals++
			res.Nontrivial++
			if bad != "" && !seen[sig] && len(res.Findings) < 10 {
				seen[sig] = true
				res.Findings = append(res.Findings, Finding{Sig: sig, Msg: fmt.Sprintf("%s\nsession prefix of %d frames, then %s: % x", bad, idx, what, mut), Detail: map[string]any{"prefix_frames": idx, "frame_hex": fmt.Sprintf("%x", mut)}})
			}
		}
		for k := 0; k < L; k++ {
			try(append([]byte{}, frame[:k]...), fmt.Sprintf("frame truncated to %d bytes", k))
		}
		for _, sz := range []uint32{0, 1, 4, 6, 7, 8, uint32(L - 1), uint32(L + 1), c.Msize - 1, c.Msize, c.Msize + 1, 1 << 16, 1 << 31, ^uint32(0)} {
			m := append([]byte{}, frame...)
			binary.LittleEndian.PutUint32(m, sz)
			try(m, fmt.Sprintf("size field set to %d", sz))
		}
		for off := 4; off < L; off++ {
			for _, v := range []byte{0, 1, 0x7F, 0x80, 0xFF} {
				if frame[off] == v {
					continue
				}
				m := append([]byte{}, frame...)
				m[off] = v
				try(m, fmt.Sprintf("byte %d set to %#x", off, v))
			}
		}
		res.Samples = append(res.Samples, fmt.Sprintf("valid prefix of %d frames, then every truncation / 14 size values / 5 byte values at every offset of %s, then Tstat, then liveness probes", idx, sess[idx]))
		return res
	}}
}

func c06Scenarios(tier string) []Scenario {
	var out []Scenario
	msizes := []uint32{24, 32, 64, 256}
	if tier == "thorough" {
		msizes = []uint32{24, 25, 32, 64, 256, 8216}
	}
	for _, be := range []string{"script", "ufs"} {
		for _, ms := range msizes {
			for _, dotu := range []bool{false, true} {
				c := c06Cfg{Backend: be, Msize: ms, Dotu: dotu}
				sts := c05States(mcfg{Dotu: dotu, Auth: be == "script", Msize: ms})
				for si, st := range sts {
					if tier == "quick" && (si+int(ms))%3 != 0 && ms != 256 {
						continue
					}
					if be == "ufs" && strings.HasPrefix(st.name, "auth") {
						continue
					}
					parts := 1
					if ms >= 256 {
						parts = 2
					}
					for p := 0; p < parts; p++ {
						out = append(out, c06FieldScenario(c, st, p, parts))
					}
				}
			}
		}
		for _, dotu := range []bool{false, true} {
			c := c06Cfg{Backend: be, Msize: 256, Dotu: dotu}
			for i := range c06Session(dotu) {
				out = append(out, c06MutScenario(c, i))
			}
		}
	}
	out = append(out, c06UfsDirScenarios(tier)...)
	out = append(out, c06RenegotiateScenarios(tier)...)
	out = append(out, c06MapMonitorScenarios(tier)...)
	return out
}

func init() {
	register(&Property{ID: "C06", Level: "fault_enumeration",
		Technique: "exhaustive enumeration of hostile requests and frame mutations against every fid state, executed on the real server (scripted implementation and Ufs) under the controlled scheduler; panics captured per goroutine, liveness probed on a bystander and a fresh connection",
		Rule:      "(i) every fid state of the C05 product x every message type with boundary fields (fids 0,1,2,7,NOFID; tags 90,NOTAG,0; counts 0,1,L-1,L,L+1,2^31,2^32-17,2^32-1; offsets 0,1,12,13,2^63,2^64-1; names '', '.', '..', '/', 'a/b', '../x', 255 bytes, NUL; all-ones / all-zero stat records; R-messages and undefined types) x msize {24,32,64,256} (thorough + 25, 8216) x dialect x {scripted, Ufs}; (ii) every truncation, 14 size-field values and 5 byte values at every offset of each frame of a 12-frame session, followed by a valid request; (iii) Ufs directory reads at every offset with 6 counts; (iv) msize renegotiated mid-session (3 x 4 msize pairs) after bursts of 0/4/24/70 pipelined requests, followed by reads with counts around both limits; (v) disconnects with requests in flight under the happens-before monitor: unsynchronised concurrent access to a Go map (a runtime fatal error) is a violation; the same for the Unix file server with attaches and stats in flight that name users and groups the process has not looked up before. non-trivial = cases executed (each ends with the liveness probes) ; thorough: 70000 distinct user ids named in Tattach / Tauth, then stat and directory read",
		Assumptions: []string{"'..' chains are limited to the nesting depth of the scratch export (the checks run as root on the real file system)", "raw random byte streams of the quantifier are sampling and not claimed"},
		Scenarios:   c06Scenarios, QuickS: 110, ThoroughS: 1500})
}
