package main

import (
	"fmt"
	"reflect"
	"unsafe"

	"github.com/rminnich/go9p"
	"github.com/rminnich/go9p/vs"
	"harness/wire"
)

// Peer is a scripted 9P server talking to a real go9p.Clnt over vnet. It
// decodes requests with the independent codec, remembers outstanding tags and
// answers from a script.

type PeerReply struct {
	Kind string // ok | error | wrongtype | none
}

type Peer struct {
	End      *vs.End
	Dotu     bool
	Msize    uint32
	Batch    int   // answer only when this many requests are pending (0 = at once)
	Order    []int // permutation in which a complete batch is answered
	OneWrite bool  // all replies of a batch in one transport write
	Kinds    map[int]string // by arrival index: reply kind (default ok)
	DefaultKind string      // reply kind for requests not listed in Kinds
	Seen     []*wire.Msg
	Dup      string // set when a tag arrives that is already outstanding
	BadFrame string
	out      map[uint16]bool
	pending  []*wire.Msg
	buf      []byte
	arrived  int
	Stop     bool
	AnswerVersion bool
	VersionMsize  uint32
	VersionStr    string
	MaxFrame int // largest request frame seen
	Inject          map[int][]byte // bad frame placed before the i-th reply of the batch (len = after the last)
	InjectSameSeg   bool
	InjectedAt      int // stream offset at which the bad frame starts (-1: not injected)
	CloseAfterBatch bool
	sentBytes       int
	closed          bool
	ReplyEnds       map[uint32]int // fid of the request -> stream offset at which its reply ends
	BatchOnce       bool           // after the first batch answer at once
	DotuAfterVersion *bool         // dialect to speak once Rversion has been sent
}

// the client end of the pair created last (for segmentation policies)
var peerClientEnd *vs.End


func NewPeer(end *vs.End, dotu bool) *Peer {
	return &Peer{End: end, Dotu: dotu, Msize: 8192, out: map[uint16]bool{}, Kinds: map[int]string{}, AnswerVersion: true, InjectedAt: 1 << 30, ReplyEnds: map[uint32]int{}}
}

// payload functions: the reply is a function of the request
func peerReadData(fid uint32, off uint64, count uint32) []byte {
	n := int(count)
	if n > 40 {
		n = 40
	}
	b := make([]byte, n)
	for i := range b {
		b[i] = byte(int(fid)*11 + int(off)*3 + i + 1)
	}
	return b
}

func peerQid(fid uint32, i int) wire.Qid {
	return wire.Qid{Type: 0x80, Vers: uint32(i), Path: uint64(fid)*100 + uint64(i)}
}

func (p *Peer) replyFor(idx int, m *wire.Msg) *wire.Msg {
	kind := p.Kinds[idx]
	if kind == "" {
		kind = p.DefaultKind
	}
	switch kind {
	case "none":
		return nil
	case "error":
		return &wire.Msg{Type: wire.Rerror, Tag: m.Tag, Ename: fmt.Sprintf("scripted error for tag %d fid %d", m.Tag, m.Fid), Errno: 1000 + uint32(m.Fid%100)}
	case "wrongtype":
		return &wire.Msg{Type: wire.Rclunk + 2, Tag: m.Tag} // Rremove for everything (Rclunk for Tremove)
	}
	r := &wire.Msg{Tag: m.Tag, Type: m.Type + 1}
	switch m.Type {
	case wire.Tversion:
		r.Msize, r.Version = m.Msize, m.Version
		if p.VersionMsize != 0 {
			r.Msize = p.VersionMsize
		}
		if p.VersionStr != "" {
			r.Version = p.VersionStr
		}
	case wire.Tattach, wire.Tauth:
		r.Qid = peerQid(m.Fid, 0)
	case wire.Twalk:
		for i := range m.Wname {
			r.Wqid = append(r.Wqid, peerQid(m.Fid, i+1))
		}
	case wire.Topen, wire.Tcreate:
		r.Qid, r.Iounit = peerQid(m.Fid, 7), 0
	case wire.Tread:
		r.Data = peerReadData(m.Fid, m.Offset, m.Count)
	case wire.Twrite:
		r.Count = uint32(len(m.Data))
	case wire.Tstat:
		r.Stat = wire.Stat{Name: fmt.Sprintf("file%d", m.Fid), Qid: peerQid(m.Fid, 9), Length: uint64(m.Fid), Uid: "u", Gid: "g", Muid: "m"}
	}
	return r
}

// Serve runs until the client closes or Stop is set at a quiescent point.
func (p *Peer) Serve() {
	rb := make([]byte, 65536)
	for {
		n, err := p.End.Read(rb)
		p.buf = append(p.buf, rb[:n]...)
		frames, rest := wire.Split(p.buf)
		p.buf = append([]byte{}, rest...)
		for _, f := range frames {
			if len(f) > p.MaxFrame {
				p.MaxFrame = len(f)
			}
			m, _, derr := wire.Decode(f, p.Dotu)
			if derr != nil {
				p.BadFrame = derr.Error()
				continue
			}
			p.Seen = append(p.Seen, m)
			if m.Type == wire.Tversion {
				if p.AnswerVersion {
					p.End.Write(wire.Encode(p.replyFor(-1, m), false))
				}
				if p.DotuAfterVersion != nil {
					p.Dotu = *p.DotuAfterVersion
				}
				continue
			}
			if p.out[m.Tag] && p.Dup == "" {
				p.Dup = fmt.Sprintf("tag %d used by %s while still outstanding", m.Tag, m)
			}
			p.out[m.Tag] = true
			p.pending = append(p.pending, m)
			p.flushBatch()
			if p.closed {
				return
			}
		}
		if err != nil {
			return
		}
	}
}

func (p *Peer) flushBatch() {
	if p.Batch > 0 && len(p.pending) < p.Batch {
		return
	}
	order := p.Order
	if len(order) != len(p.pending) {
		order = nil
		for i := range p.pending {
			order = append(order, i)
		}
	}
	var all []byte
	emit := func(b []byte, flushNow bool) {
		if p.OneWrite && !flushNow {
			all = append(all, b...)
			return
		}
		if len(all) > 0 {
			b = append(all, b...)
			all = nil
		}
		p.End.Write(b)
	}
	for k, i := range order {
		if bad, ok := p.Inject[k]; ok {
			delete(p.Inject, k) // once
			p.InjectedAt = p.sentBytes
			p.sentBytes += len(bad)
			if p.InjectSameSeg {
				all = append(all, bad...)
			} else {
				emit(bad, true)
			}
		}
		m := p.pending[i]
		r := p.replyFor(p.arrived+i, m)
		delete(p.out, m.Tag)
		if r == nil {
			continue
		}
		b := wire.Encode(r, p.Dotu)
		p.sentBytes += len(b)
		p.ReplyEnds[m.Fid] = p.sentBytes
		emit(b, false)
	}
	if bad, ok := p.Inject[len(order)]; ok {
		delete(p.Inject, len(order))
		p.InjectedAt = p.sentBytes
		p.sentBytes += len(bad)
		all = append(all, bad...)
	}
	if len(all) > 0 {
		p.End.Write(all)
	}
	if p.CloseAfterBatch {
		p.End.Close()
		p.closed = true
	}
	if p.BatchOnce {
		p.Batch = 0
	}
	p.arrived += len(p.pending)
	p.pending = nil
}

// newClientPair creates a real client (no version exchange) and its scripted peer.
func newClientPair(msize uint32, dotu bool) (*go9p.Clnt, *Peer) {
	resetClientGlobals()
	ce, se := vs.Pipe("clnt", "peer")
	peerClientEnd = ce
	p := NewPeer(se, dotu)
	vs.Go("peer", p.Serve)
	c := go9p.NewClnt(ce, msize, dotu)
	return c, p
}

func mkFid(c *go9p.Clnt, n uint32) *go9p.Fid {
	f := c.FidAlloc()
	f.Fid = n
	f.Iounit = 4096
	// the fid stands for one obtained by an earlier walk (Clunk only talks to the server for those)
	if w := reflect.ValueOf(f).Elem().FieldByName("walked"); w.IsValid() {
		reflect.NewAt(w.Type(), unsafe.Pointer(w.UnsafeAddr())).Elem().SetBool(true)
	}
	return f
}

// resetClientGlobals brings the client side's package-level state (list of all
// clients, fid counter) back to its initial value, so that executions neither
// leak into each other nor depend on how many ran before.
func resetClientGlobals() {
	resetPlainGlobals()
	g := go9p.VsGlobals()
	if p, ok := g["clnts"].(**go9p.ClntList); ok {
		*p = new(go9p.ClntList)
	}
	if p, ok := g["_fid"].(*uint32); ok {
		*p = 0
	}
}

// resetServerGlobals zeroes the package-level user cache (OsUsers and its
// sync.Once), so that every execution starts from the same state.
func resetServerGlobals() {
	resetPlainGlobals()
	g := go9p.VsGlobals()
	for _, n := range []string{"OsUsers", "once"} {
		if p, ok := g[n]; ok {
			v := reflect.ValueOf(p)
			if v.Kind() == reflect.Ptr && v.Elem().CanSet() {
				v.Elem().Set(reflect.Zero(v.Elem().Type()))
			}
		}
	}
}

// Every package-level variable of the library that holds plain data (numbers, booleans,
// strings) or started out nil is put back to its initial value at the start of an
// execution: state that is set "once per process" (a counter of warnings already
// printed, a lazily made table) must be set afresh in every execution, or only the
// first one - the determinism self-test - would ever see it being set.
var plainGlobals = map[string]reflect.Value{}
var nilGlobals = map[string]bool{}

func init() {
	for n, p := range go9p.VsGlobals() {
		v := reflect.ValueOf(p)
		if v.Kind() != reflect.Ptr || !v.Elem().CanSet() {
			continue
		}
		e := v.Elem()
		switch e.Kind() {
		case reflect.Bool, reflect.Int, reflect.Int8, reflect.Int16, reflect.Int32, reflect.Int64, reflect.Uint, reflect.Uint8, reflect.Uint16, reflect.Uint32, reflect.Uint64, reflect.Uintptr, reflect.Float32, reflect.Float64, reflect.String:
			c := reflect.New(e.Type()).Elem()
			c.Set(e)
			plainGlobals[n] = c
		case reflect.Ptr, reflect.Map, reflect.Slice, reflect.Chan, reflect.Func, reflect.Interface:
			if e.IsNil() {
				nilGlobals[n] = true
			}
		}
	}
}

func resetPlainGlobals() {
	g := go9p.VsGlobals()
	for n, c := range plainGlobals {
		reflect.ValueOf(g[n]).Elem().Set(c)
	}
	for n := range nilGlobals {
		e := reflect.ValueOf(g[n]).Elem()
		e.Set(reflect.Zero(e.Type()))
	}
}
