package main

func c12ClientScenarios(tier string) []Scenario { return nil }
