package main

import (
	"fmt"
	"os"

	"github.com/rminnich/go9p"
	"github.com/rminnich/go9p/vs"
)

// withUfsClient runs f with a real go9p client mounted on a real Ufs server
// exporting root, connected through the scheduler-owned transport (default
// schedule). It returns a description of a panic or failure, or "".
func withUfsClient(root string, msize uint32, dotu bool, f func(c *go9p.Clnt, h *SrvH) string) string {
	bad := ""
	body := func() {
		resetClientGlobals()
		h := newUfsH(root, msize, dotu)
		ce, se := vs.Pipe("clnt", "ufs")
		h.Srv.NewConn(se)
		c, err := go9p.Connect(ce, msize, dotu)
		if err != nil {
			bad = fmt.Sprintf("Connect: %v", err)
			return
		}
		user := go9p.OsUsers.Uid2User(os.Geteuid())
		fid, err := c.Attach(nil, user, "")
		if err != nil {
			bad = fmt.Sprintf("Attach: %v", err)
			return
		}
		c.Root = fid
		bad = f(c, h)
	}
	x := vs.Run(nil, body, vs.Options{Horizon: 500000000})
	if len(x.Panics) > 0 {
		p := x.Panics[0]
		return "panic in " + p.Frame + ": " + p.Value + "\n" + trimStack(p.Stack)
	}
	if len(x.Fails) > 0 {
		return x.Fails[0]
	}
	if x.HitHorizon {
		return "step horizon reached"
	}
	return bad
}

func pattern(n int, seed int) []byte {
	b := make([]byte, n)
	for i := range b {
		b[i] = byte((i*7 + seed*13 + i/251) % 251)
	}
	return b
}
