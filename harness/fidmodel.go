package main

import (
	"fmt"
	"reflect"
	"sort"
	"strings"
	"unsafe"

	"github.com/rminnich/go9p"
	"github.com/rminnich/go9p/vs"
	"harness/wire"
)

// Reference model of the server's fid table and protocol rules (DESIGN.md
// appendix D), written against the protocol text, not against srv_fcall.go.

type mfid struct {
	kind  byte   // 'd' directory, 'f' file, 'a' auth
	node  string // path in the synthetic tree
	open  int    // -1 unopened, else the open mode
	user  string
	token int // identity under which the implementation knows the fid (0 = never shown)
}

type mstate struct {
	fids map[uint32]*mfid
	tree map[string]bool // path -> isDir
}

func newMstate() *mstate {
	return &mstate{fids: map[uint32]*mfid{}, tree: map[string]bool{"/": true, "/d": true, "/d/h": false, "/f": false, "/g": false}}
}

func (s *mstate) key() string {
	var ks []string
	for f, m := range s.fids {
		ks = append(ks, fmt.Sprintf("%d:%c:%s:%d:%s", f, m.kind, m.node, m.open, m.user))
	}
	sort.Strings(ks)
	var ts []string
	for p := range s.tree {
		ts = append(ts, p)
	}
	sort.Strings(ts)
	return strings.Join(ks, ",") + "|" + strings.Join(ts, ",")
}

type mcfg struct {
	Dotu    bool
	Auth    bool
	Msize   uint32
	ErrKind string // kind of error value the implementation's auth callbacks return
	Iounit  uint32 // the iounit the implementation advertises in Ropen / Rcreate
}

// mevent is one request of the history alphabet.
type mevent struct {
	Op      string // auth attach walk open create read write stat wstat clunk remove
	Fid     uint32
	Newfid  uint32
	Afid    uint32
	Names   []string
	Mode    uint8
	Perm    uint32
	Name    string
	Count   uint32
	Offset  uint64
	Uid     uint32
	Uname   string
	ImplErr bool // the implementation answers with an error where it is consulted
	AuthNo  bool // AuthCheck refuses
}

func (e mevent) String() string {
	s := fmt.Sprintf("%s(fid=%d", e.Op, e.Fid)
	switch e.Op {
	case "auth":
		s = fmt.Sprintf("auth(afid=%d", e.Afid)
	case "attach":
		s += fmt.Sprintf(",afid=%d", int32(e.Afid))
		if e.AuthNo {
			s += ",authcheck=refuse"
		}
	case "walk":
		s += fmt.Sprintf(",newfid=%d,%v", e.Newfid, e.Names)
	case "open":
		s += fmt.Sprintf(",mode=%d", e.Mode)
	case "create":
		s += fmt.Sprintf(",%q,perm=%#x,mode=%d", e.Name, e.Perm, e.Mode)
	case "read", "write":
		s += fmt.Sprintf(",count=%d", e.Count)
	}
	if e.ImplErr {
		s += ",impl=error"
	}
	return s + ")"
}

const (
	mustRefuse = iota
	mustForward
	either
)

// prediction for one event in one model state
type mpred struct {
	verdict  int
	errText  string // exact error text when the statement names it ("unknown fid", "fid already in use")
	fwdOp    string // implementation entry point when forwarded
	fwdFid   uint32 // fid whose identity/user must be passed
	why      string
	noCheck  bool // corner the reference model does not define (auth fids as ordinary files, ...): skip reply checks
	authGate bool // an AuthCheck call must precede (and accept) before Attach
}

func joinPath(base string, name string) string {
	if base == "/" {
		return "/" + name
	}
	return base + "/" + name
}

func parentOf(p string) string {
	if p == "/" {
		return "/"
	}
	i := strings.LastIndex(p, "/")
	if i == 0 {
		return "/"
	}
	return p[:i]
}

// resolve walks names from node in the model tree; returns the nodes reached.
func (s *mstate) resolve(node string, names []string) []string {
	var out []string
	cur := node
	for _, n := range names {
		var nx string
		if n == ".." {
			nx = parentOf(cur)
		} else {
			if isDir, ok := s.tree[cur]; !ok || !isDir {
				break
			}
			nx = joinPath(cur, n)
			if _, ok := s.tree[nx]; !ok {
				break
			}
		}
		cur = nx
		out = append(out, cur)
	}
	return out
}

func (s *mstate) predict(e mevent, c mcfg) mpred {
	f := s.fids[e.Fid]
	limit := c.Msize - 24
	unknown := mpred{verdict: mustRefuse, errText: "unknown fid", why: "fid not valid"}
	inuse := mpred{verdict: mustRefuse, errText: "fid already in use", why: "fid already valid"}
	switch e.Op {
	case "badversion":
		return mpred{verdict: mustRefuse, why: "Tversion with an msize too small to carry an I/O header"}
	case "auth":
		if e.Afid == wire.NOFID {
			return unknown
		}
		if s.fids[e.Afid] != nil {
			return inuse
		}
		if !c.Auth {
			return mpred{verdict: mustRefuse, why: "no authentication support"}
		}
		return mpred{verdict: mustForward, fwdOp: "AuthInit", fwdFid: e.Afid}
	case "attach":
		if e.Fid == wire.NOFID {
			return unknown
		}
		if f != nil {
			return inuse
		}
		if c.Dotu && e.Uid != 0 && e.Uid != 7 && e.Uid != 8 {
			return mpred{verdict: mustRefuse, why: "unknown user"}
		}
		if e.Afid != wire.NOFID {
			a := s.fids[e.Afid]
			if a == nil {
				return unknown
			}
			if a.kind != 'a' {
				return mpred{verdict: either, fwdOp: "Attach", fwdFid: e.Fid, noCheck: true, why: "afid is not an auth fid"}
			}
		}
		if c.Auth {
			if e.AuthNo {
				return mpred{verdict: mustRefuse, why: "authentication check refused", authGate: true}
			}
			return mpred{verdict: mustForward, fwdOp: "Attach", fwdFid: e.Fid, authGate: true}
		}
		return mpred{verdict: mustForward, fwdOp: "Attach", fwdFid: e.Fid}
	}
	if f == nil {
		return unknown
	}
	if f.kind == 'a' {
		switch e.Op {
		case "read":
			if e.Count > limit {
				return mpred{verdict: mustRefuse, why: "count exceeds msize-IOHDRSZ"}
			}
			return mpred{verdict: mustForward, fwdOp: "AuthRead", fwdFid: e.Fid}
		case "write":
			if e.Count > limit {
				return mpred{verdict: either, noCheck: true, why: "oversize write on auth fid"}
			}
			return mpred{verdict: mustForward, fwdOp: "AuthWrite", fwdFid: e.Fid}
		case "clunk":
			return mpred{verdict: mustForward, fwdOp: "AuthDestroy", fwdFid: e.Fid}
		}
		return mpred{verdict: either, noCheck: true, why: "auth fid used as an ordinary fid"}
	}
	switch e.Op {
	case "walk":
		if len(e.Names) > 0 && f.kind != 'd' {
			return mpred{verdict: mustRefuse, why: "walk by name from a non-directory"}
		}
		if f.open >= 0 {
			return mpred{verdict: mustRefuse, why: "walk from an open fid"}
		}
		if e.Newfid != e.Fid && s.fids[e.Newfid] != nil {
			return inuse
		}
		return mpred{verdict: mustForward, fwdOp: "Walk", fwdFid: e.Fid}
	case "open":
		if f.open >= 0 {
			return mpred{verdict: mustRefuse, why: "open of an open fid"}
		}
		if f.kind == 'd' && e.Mode&3 != 0 {
			return mpred{verdict: mustRefuse, why: "directory opened other than for reading"}
		}
		if f.kind == 'd' && e.Mode != 0 {
			return mpred{verdict: either, fwdOp: "Open", fwdFid: e.Fid, why: "directory open with extra flag bits"}
		}
		return mpred{verdict: mustForward, fwdOp: "Open", fwdFid: e.Fid}
	case "create":
		if f.open >= 0 {
			return mpred{verdict: mustRefuse, why: "create through an open fid"}
		}
		if f.kind != 'd' {
			return mpred{verdict: mustRefuse, why: "create through a non-directory"}
		}
		special := e.Perm&(go9p.DMNAMEDPIPE|go9p.DMSYMLINK|go9p.DMLINK|go9p.DMDEVICE|go9p.DMSOCKET) != 0
		if special && !c.Dotu {
			return mpred{verdict: mustRefuse, why: "special file on a non-.u connection"}
		}
		if e.Perm&go9p.DMDIR != 0 && e.Mode != 0 {
			return mpred{verdict: either, fwdOp: "Create", fwdFid: e.Fid, why: "directory created with a non-OREAD mode"}
		}
		return mpred{verdict: mustForward, fwdOp: "Create", fwdFid: e.Fid}
	case "read":
		if e.Count > limit {
			return mpred{verdict: mustRefuse, why: "count exceeds msize-IOHDRSZ"}
		}
		return mpred{verdict: mustForward, fwdOp: "Read", fwdFid: e.Fid}
	case "write":
		if f.open < 0 {
			return mpred{verdict: mustRefuse, why: "write through an unopened fid"}
		}
		if f.kind == 'd' {
			return mpred{verdict: mustRefuse, why: "write through a directory"}
		}
		if m := f.open & 3; m != 1 && m != 2 {
			return mpred{verdict: mustRefuse, why: fmt.Sprintf("write through a fid opened with mode %d", f.open)}
		}
		if e.Count > limit {
			return mpred{verdict: mustRefuse, why: "count exceeds msize-IOHDRSZ"}
		}
		return mpred{verdict: mustForward, fwdOp: "Write", fwdFid: e.Fid}
	case "stat":
		return mpred{verdict: mustForward, fwdOp: "Stat", fwdFid: e.Fid}
	case "wstat":
		return mpred{verdict: mustForward, fwdOp: "Wstat", fwdFid: e.Fid}
	case "clunk":
		return mpred{verdict: mustForward, fwdOp: "Clunk", fwdFid: e.Fid}
	case "remove":
		return mpred{verdict: mustForward, fwdOp: "Remove", fwdFid: e.Fid}
	}
	panic("predict: unknown op " + e.Op)
}

// apply updates the model after the event, given whether it was forwarded and
// whether the reply was a success. It returns the fid numbers invalidated.
func (s *mstate) apply(e mevent, forwarded, success bool, user string) (gone []uint32) {
	f := s.fids[e.Fid]
	switch e.Op {
	case "auth":
		if success {
			s.fids[e.Afid] = &mfid{kind: 'a', open: -1, user: user}
		}
	case "attach":
		if success {
			s.fids[e.Fid] = &mfid{kind: 'd', node: "/", open: -1, user: user}
		}
	case "walk":
		if !success || f == nil {
			return
		}
		reached := s.resolve(f.node, e.Names)
		if len(reached) != len(e.Names) {
			return // partial: nothing changes
		}
		node := f.node
		if len(reached) > 0 {
			node = reached[len(reached)-1]
		}
		kind := byte('f')
		if s.tree[node] {
			kind = 'd'
		}
		if e.Newfid == e.Fid {
			f.node, f.kind = node, kind
		} else {
			s.fids[e.Newfid] = &mfid{kind: kind, node: node, open: -1, user: f.user}
		}
	case "open":
		if success && f != nil {
			f.open = int(e.Mode)
		}
	case "create":
		if success && f != nil {
			p := joinPath(f.node, e.Name)
			isDir := e.Perm&go9p.DMDIR != 0 || e.Name == "asdir" // what the fid is follows the qid the implementation answered with
			s.tree[p] = isDir
			f.node = p
			f.kind = 'f'
			if isDir {
				f.kind = 'd'
			}
			f.open = int(e.Mode)
		}
	case "clunk":
		if success && f != nil {
			delete(s.fids, e.Fid)
			gone = append(gone, e.Fid)
		}
	case "remove":
		if f != nil && forwarded {
			if success && f.node != "/" { // the scripted tree keeps its root
				delete(s.tree, f.node)
			}
			delete(s.fids, e.Fid)
			gone = append(gone, e.Fid)
		}
	}
	return
}

// toMsg builds the request for an event.
func (e mevent) toMsg(tag uint16, dotu bool) *wire.Msg {
	switch e.Op {
	case "badversion":
		// refused (msize below the I/O header size); it names the dialect the session does NOT use
		v := "9P2000.u"
		if dotu {
			v = "9P2000"
		}
		return &wire.Msg{Type: wire.Tversion, Tag: tag, Msize: 10, Version: v}
	case "auth":
		return &wire.Msg{Type: wire.Tauth, Tag: tag, Afid: e.Afid, Uname: e.Uname, Aname: "", NUname: e.Uid, HasNUname: dotu}
	case "attach":
		return &wire.Msg{Type: wire.Tattach, Tag: tag, Fid: e.Fid, Afid: e.Afid, Uname: e.Uname, Aname: "", NUname: e.Uid, HasNUname: dotu}
	case "walk":
		return &wire.Msg{Type: wire.Twalk, Tag: tag, Fid: e.Fid, Newfid: e.Newfid, Wname: e.Names}
	case "open":
		return &wire.Msg{Type: wire.Topen, Tag: tag, Fid: e.Fid, Mode: e.Mode}
	case "create":
		return &wire.Msg{Type: wire.Tcreate, Tag: tag, Fid: e.Fid, Name: e.Name, Perm: e.Perm, Mode: e.Mode}
	case "read":
		return &wire.Msg{Type: wire.Tread, Tag: tag, Fid: e.Fid, Offset: e.Offset, Count: e.Count}
	case "write":
		return &wire.Msg{Type: wire.Twrite, Tag: tag, Fid: e.Fid, Offset: e.Offset, Data: make([]byte, int(e.Count))}
	case "stat":
		return &wire.Msg{Type: wire.Tstat, Tag: tag, Fid: e.Fid}
	case "wstat":
		st := wire.Stat{Type: 0xFFFF, Dev: 0xFFFFFFFF, Qid: wire.Qid{Type: 0xFF, Vers: 0xFFFFFFFF, Path: ^uint64(0)}, Mode: 0xFFFFFFFF, Atime: 0xFFFFFFFF, Mtime: 0xFFFFFFFF, Length: ^uint64(0), NUid: 0xFFFFFFFF, NGid: 0xFFFFFFFF, NMuid: 0xFFFFFFFF}
		return &wire.Msg{Type: wire.Twstat, Tag: tag, Fid: e.Fid, Stat: st}
	case "clunk":
		return &wire.Msg{Type: wire.Tclunk, Tag: tag, Fid: e.Fid}
	case "remove":
		return &wire.Msg{Type: wire.Tremove, Tag: tag, Fid: e.Fid}
	}
	panic("toMsg: " + e.Op)
}

// implOpOf maps an event to the ErrAll key used to make the implementation fail.
func implOpOf(op string) string {
	return map[string]string{"attach": "Attach", "walk": "Walk", "open": "Open", "create": "Create", "read": "Read", "write": "Write", "stat": "Stat", "wstat": "Wstat", "clunk": "Clunk", "remove": "Remove"}[op]
}

// ---------------------------------------------------------------------------
// executing a history on the implementation

type stepObs struct {
	Reply    *wire.Msg
	ReplySeq int64
	Entries  []Entry // implementation log entries produced by the step (before the probes)
	Valid    map[uint32]bool
	PTok     map[uint32]int    // probe: identity token the implementation saw for the fid number
	PUser    map[uint32]string // probe: user the implementation saw
	Digest   string
	Frames   int // reply frames produced by the step itself
}

type histObs struct {
	Steps  []stepObs
	Panics []vs.PanicRec
	Fail   string
	FS     *FS
}

// runHistory executes the events one at a time (send, run to quiescence, read
// the reply) on a fresh server, probing the fid numbers after each of the last
// `probeLast` events.
func runHistory(c mcfg, evs []mevent, probeFids []uint32, probeLast int) *histObs {
	ho := &histObs{}
	body := func() {
		fs := NewFS()
		fs.ErrKind = c.ErrKind
		fs.Iounit = c.Iounit
		ho.FS = fs
		h := NewSrvH(fs, SrvOpt{Msize: c.Msize, Dotu: c.Dotu, Auth: c.Auth})
		cl := h.Connect()
		ver := "9P2000"
		if c.Dotu {
			ver = "9P2000.u"
		}
		if r := cl.Version(c.Msize, ver); r == nil || r.Type != wire.Rversion {
			vs.Fail("version answered by %v", r)
		}
		tag := uint16(0)
		for i, e := range evs {
			for k := range fs.ErrAll {
				delete(fs.ErrAll, k)
			}
			fs.AuthInitErr = ""
			delete(fs.AuthCheckErr, 0)
			delete(fs.AuthCheckErr, wire.NOFID)
			if e.ImplErr {
				if e.Op == "auth" {
					fs.AuthInitErr = "auth refused by implementation"
				} else {
					fs.ErrAll[implOpOf(e.Op)] = "implementation failure"
				}
			}
			if e.AuthNo {
				fs.AuthCheckErr[0] = "not authenticated"
				fs.AuthCheckErr[wire.NOFID] = "not authenticated"
			}
			tag++
			logBefore := len(fs.Log)
			framesBefore := len(cl.Collect())
			m := e.toMsg(tag, c.Dotu)
			cl.Send(c.Dotu, m)
			vs.Idle()
			so := stepObs{Valid: map[uint32]bool{}, PTok: map[uint32]int{}, PUser: map[uint32]string{}}
			fr := cl.Collect()
			so.Frames = len(fr) - framesBefore
			for _, f := range fr[framesBefore:] {
				if f.Msg != nil && f.Msg.Tag == tag && so.Reply == nil {
					so.Reply, so.ReplySeq = f.Msg, f.Seq
				}
			}
			so.Entries = append([]Entry{}, fs.Log[logBefore:]...)
			so.Digest = fidDigest(h.Srv)
			if i >= len(evs)-probeLast {
				for _, pf := range probeFids {
					tag++
					lb := len(fs.Log)
					r := cl.Rpc(&wire.Msg{Type: wire.Tstat, Tag: tag, Fid: pf})
					for _, pe := range fs.Log[lb:] {
						if pe.Kind == "call" && pe.Op == "Stat" {
							so.PTok[pf], so.PUser[pf] = pe.Token, pe.User
						}
					}
					switch {
					case r == nil:
						vs.Fail("probe Tstat(fid %d) after %s got no reply", pf, e)
					case r.Type == wire.Rstat:
						so.Valid[pf] = true
					case r.Type == wire.Rerror && r.Ename == "unknown fid":
					default:
						// an implementation error on a valid fid also shows validity
						so.Valid[pf] = true
					}
				}
			}
			ho.Steps = append(ho.Steps, so)
		}
	}
	x := vs.Run(nil, body, vs.Options{})
	ho.Panics = x.Panics
	if len(x.Fails) > 0 {
		ho.Fail = x.Fails[0]
	}
	return ho
}

func put32(b []byte, v uint32) {
	b[0], b[1], b[2], b[3] = byte(v), byte(v>>8), byte(v>>16), byte(v>>24)
}

// fidDigest reads the server's private fid tables by reflection (state key and
// diagnostics only; never an oracle). Missing fields degrade it to "".
func fidDigest(srv *go9p.Srv) (out string) {
	defer func() {
		if recover() != nil {
			out = ""
		}
	}()
	sv := reflect.ValueOf(srv).Elem()
	conns := sv.FieldByName("conns")
	if !conns.IsValid() {
		return ""
	}
	var parts []string
	it := conns.MapRange()
	for it.Next() {
		cv := it.Value().Elem()
		id := cv.FieldByName("Id").String()
		fp := cv.FieldByName("fidpool")
		fit := fp.MapRange()
		for fit.Next() {
			fv := fit.Value().Elem()
			get := func(n string) reflect.Value {
				f := fv.FieldByName(n)
				return reflect.NewAt(f.Type(), unsafe.Pointer(f.UnsafeAddr())).Elem()
			}
			parts = append(parts, fmt.Sprintf("%s/%d:r%d:o%v:m%d:t%d", id, fit.Key().Uint(), get("refcount").Int(), get("opened").Bool(), get("Omode").Uint(), get("Type").Uint()))
		}
	}
	sort.Strings(parts)
	return strings.Join(parts, ",")
}

// runIsolation runs a history on connection A while connection B holds fid 0
// attached as another user and fid 1 walked to /f; B's fids must be unaffected
// and A must not see B's.
func runIsolation(dotu bool, evs []mevent) string {
	bad := ""
	body := func() {
		fs := NewFS()
		h := NewSrvH(fs, SrvOpt{Msize: 256, Dotu: dotu})
		a, b := h.Connect(), h.Connect()
		ver := "9P2000"
		if dotu {
			ver = "9P2000.u"
		}
		a.Version(256, ver)
		b.Version(256, ver)
		if r := b.Rpc(tattach(1, 0, wire.NOFID, "bob", 8, dotu)); r == nil || r.Type != wire.Rattach {
			bad = "setup failed"
			return
		}
		b.Rpc(twalk(2, 0, 1, "f"))
		view := func() string {
			s := ""
			for _, f := range []uint32{0, 1, 2} {
				r := b.Rpc(&wire.Msg{Type: wire.Tstat, Tag: 9, Fid: f})
				if r == nil {
					s += "none;"
				} else if r.Type == wire.Rstat {
					s += r.Stat.Name + ";"
				} else {
					s += "E:" + r.Ename + ";"
				}
			}
			return s
		}
		before := view()
		// A's fid 2 must be unknown although B... (B has only 0,1); A's fids 0,1 unknown at first
		if r := a.Rpc(&wire.Msg{Type: wire.Tstat, Tag: 1, Fid: 1}); r == nil || r.Type != wire.Rerror || r.Ename != "unknown fid" {
			bad = fmt.Sprintf("connection A can use fid 1 of connection B: %v", r)
			return
		}
		tag := uint16(10)
		for _, e := range evs {
			tag++
			a.Rpc(e.toMsg(tag, dotu))
			if now := view(); now != before {
				bad = fmt.Sprintf("after %s on A, B's fids look like %q (before: %q)", e, now, before)
				return
			}
		}
	}
	x := vs.Run(nil, body, vs.Options{})
	if len(x.Panics) > 0 {
		return "panic: " + x.Panics[0].Value
	}
	return bad
}
