package main

import (
	"unsafe"
	"reflect"
	vsync "github.com/rminnich/go9p/vs/vsync"
	"bytes"
	"fmt"
	"strings"

	"github.com/rminnich/go9p"
	"github.com/rminnich/go9p/vs"
	"harness/wire"
)

// C09: client calls get their own reply, with distinct and recycled tags.

type callSpec struct {
	Kind string // read stat walk write clunk
	Fid  uint32
}

type callRes struct {
	spec  callSpec
	done  bool
	err   error
	data  []byte
	raw   []byte // the slice exactly as the client returned it (it may alias the receive buffer)
	name  string
	qids  []go9p.Qid
	n     int
	names []string
}

func doCall(c *go9p.Clnt, sp callSpec) *callRes {
	r := &callRes{spec: sp}
	f := mkFid(c, sp.Fid)
	switch sp.Kind {
	case "read":
		r.data, r.err = c.Read(f, uint64(sp.Fid%7), 16+sp.Fid%5)
		r.raw = r.data
		r.data = append([]byte{}, r.data...)
	case "readn":
		// a helper layered on the raw call: three Treads of at most an iounit each
		f.Iounit = 16
		buf := make([]byte, 40)
		var n int
		n, r.err = (&go9p.File{Fid: f}).Readn(buf, uint64(sp.Fid%7))
		r.data, r.n = buf[:n], n
	case "stat":
		var d *go9p.Dir
		d, r.err = c.Stat(f)
		if d != nil {
			r.name = d.Name
		}
	case "walk":
		r.names = []string{"a", "b"}[:1+sp.Fid%2]
		nf := mkFid(c, sp.Fid+1000)
		r.qids, r.err = c.Walk(f, nf, r.names)
	case "write":
		d := bytes.Repeat([]byte{byte(sp.Fid)}, int(3+sp.Fid%4))
		r.n, r.err = c.Write(f, d, 5)
	case "clunk":
		r.err = c.Clunk(f)
	}
	r.done = true
	return r
}

// verify compares a call's result with the function of its own request.
func (r *callRes) verify(kind string, dotu bool, tagOf func(fid uint32) uint16) string {
	sp := r.spec
	if !r.done {
		return "call never returned"
	}
	switch kind {
	case "error":
		e, ok := r.err.(*go9p.Error)
		want := fmt.Sprintf("scripted error for tag %d fid %d", tagOf(sp.Fid), sp.Fid)
		if !ok || e.Err != want {
			return fmt.Sprintf("expected the server's error %q, got %v", want, r.err)
		}
		if dotu && e.Errornum != 1000+sp.Fid%100 {
			return fmt.Sprintf("expected error number %d, got %d", 1000+sp.Fid%100, e.Errornum)
		}
		return ""
	case "wrongtype":
		if r.err == nil {
			return "a reply of the wrong type was returned as success"
		}
		return ""
	}
	if r.err != nil {
		return fmt.Sprintf("unexpected error %v", r.err)
	}
	switch sp.Kind {
	case "readn":
		var want []byte
		for off, left := uint64(sp.Fid%7), 40; left > 0; {
			n := 16
			if n > left {
				n = left
			}
			want = append(want, peerReadData(sp.Fid, off, uint32(n))...)
			off += uint64(n)
			left -= n
		}
		if !bytes.Equal(r.data, want) {
			return fmt.Sprintf("Readn returned %d bytes %x without an error, the three replies it needs carry %d bytes %x", len(r.data), r.data, len(want), want)
		}
	case "read":
		if want := peerReadData(sp.Fid, uint64(sp.Fid%7), 16+sp.Fid%5); !bytes.Equal(r.data, want) {
			return fmt.Sprintf("read returned %x, its own reply carries %x", r.data, want)
		}
	case "stat":
		if want := fmt.Sprintf("file%d", sp.Fid); r.name != want {
			return fmt.Sprintf("stat returned name %q, its own reply says %q", r.name, want)
		}
	case "walk":
		if len(r.qids) != len(r.names) {
			return fmt.Sprintf("walk returned %d qids for %d names", len(r.qids), len(r.names))
		}
		for i, q := range r.qids {
			w := peerQid(sp.Fid, i+1)
			if q.Path != w.Path || q.Version != w.Vers {
				return fmt.Sprintf("walk returned qid %v, its own reply carries %v", q, w)
			}
		}
	case "write":
		if r.n != int(3+sp.Fid%4) {
			return fmt.Sprintf("write returned %d, its own reply says %d", r.n, 3+sp.Fid%4)
		}
	}
	return ""
}

type keptRes struct {
	i   int
	r   *callRes
	was string
}

// resultString renders everything the call handed to its caller (through the values
// themselves: an error is read through the pointer the caller holds).
func (r *callRes) resultString() string {
	es := "<nil>"
	if e, ok := r.err.(*go9p.Error); ok && e != nil {
		es = fmt.Sprintf("&Error{%q, %d}", e.Err, e.Errornum)
	} else if r.err != nil {
		es = r.err.Error()
	}
	return fmt.Sprintf("err=%s name=%q qids=%v n=%d", es, r.name, r.qids, r.n)
}

type c09Params struct {
	Calls    [][]callSpec // per caller
	Kinds    []string     // reply kind by arrival index (missing = ok)
	Order    []int        // permutation for the first batch
	OneWrite bool
	Dotu     bool
	P        int
}

func (p c09Params) name() string {
	var cs []string
	for _, c := range p.Calls {
		var one []string
		for _, s := range c {
			one = append(one, fmt.Sprintf("%s%d", s.Kind, s.Fid))
		}
		cs = append(cs, strings.Join(one, "+"))
	}
	return fmt.Sprintf("callers[%s] replies=%v order=%v onewrite=%v dotu=%v", strings.Join(cs, " | "), p.Kinds, p.Order, p.OneWrite, p.Dotu)
}

func c09Scenario(p c09Params) Scenario {
	var results [][]*callRes
	var peer *Peer
	body := func() {
		c, pr := newClientPair(8192, p.Dotu)
		peer = pr
		peer.Batch = len(p.Calls)
		peer.BatchOnce = true // later rounds are answered at once (decided by the peer itself: no shared harness state)
		peer.Order = p.Order
		peer.OneWrite = p.OneWrite
		for i, k := range p.Kinds {
			peer.Kinds[i] = k
		}
		results = make([][]*callRes, len(p.Calls))
		first := true
		_ = first
		vs.Window(true)
		done := vs.NewSem(0)
		for i := range p.Calls {
			i := i
			results[i] = make([]*callRes, len(p.Calls[i]))
			for j := range results[i] {
				results[i][j] = &callRes{spec: p.Calls[i][j]}
			}
			vs.Go("caller", func() {
				for j, sp := range p.Calls[i] {
					results[i][j] = doCall(c, sp)
				}
				done.Release()
			})
		}
		vs.Idle()
		vs.Window(false)
	}
	check := stdCheck("C09", func(x *vs.Exec) *Viol {
		detail := map[string]any{"requests_seen_by_peer": fmt.Sprint(peer.Seen), "parked": x.Parked}
		if peer.Dup != "" {
			return &Viol{Sig: "C09/tag-reused-while-outstanding", Msg: peer.Dup, Detail: detail}
		}
		if peer.BadFrame != "" {
			return &Viol{Sig: "C09/client-sent-malformed-frame", Msg: peer.BadFrame, Detail: detail}
		}
		idxOf := map[uint32]int{}
		tagOf := map[uint32]uint16{}
		for i, m := range peer.Seen {
			if _, ok := idxOf[m.Fid]; !ok {
				idxOf[m.Fid] = i
				tagOf[m.Fid] = m.Tag
			}
		}
		for i := range results {
			for j, r := range results[i] {
				kind := "ok"
				if idx, ok := idxOf[r.spec.Fid]; ok && idx < len(p.Kinds) {
					kind = p.Kinds[idx]
				}
				if msg := r.verify(kind, p.Dotu, func(f uint32) uint16 { return tagOf[f] }); msg != "" {
					return &Viol{Sig: "C09/" + sigWords(msg) + "/" + r.spec.Kind, Msg: fmt.Sprintf("caller %d call %d (%s fid %d, reply kind %s): %s\nparked: %v", i, j, r.spec.Kind, r.spec.Fid, kind, msg, x.Parked), Detail: detail}
				}
			}
		}
		for _, g := range x.Parked {
			if g.Site == "caller" {
				return &Viol{Sig: "C09/caller-blocked", Msg: fmt.Sprintf("a caller goroutine is blocked for ever in %s", g.Op), Detail: detail}
			}
		}
		return nil
	}, nil)
	return vsScenario(&VsSpec{Name: p.name(), Body: body, Check: check, P: p.P, Delay: true, Sample: func() any {
		return map[string]any{"requests_seen_by_peer": fmt.Sprint(peer.Seen)}
	}})
}

// c09TwoClients: a process may hold several clients. An earlier client (used, then
// left idle or unmounted) must not influence a later one: tags outstanding on the
// later connection stay pairwise distinct and every call gets its own reply.
func c09TwoClients(unmountFirst, dotu bool, P int) Scenario {
	var peer2 *Peer
	var res2 []*callRes
	var first string
	name := fmt.Sprintf("two-clients-in-one-process first-unmounted=%v dotu=%v", unmountFirst, dotu)
	body := func() {
		first = ""
		c1, peer1 := newClientPair(8192, dotu)
		// fewer calls at once on the first client than on the second: whatever the first
		// left behind cannot cover the second's needs, fresh and inherited resources mix
		peer1.Batch = 2
		peer1.BatchOnce = true
		r1 := make([]*callRes, 2)
		for i := 0; i < 2; i++ {
			i := i
			vs.Go("caller1", func() { r1[i] = doCall(c1, callSpec{[]string{"read", "stat", "write"}[i], uint32(10 + i)}) })
		}
		vs.Idle()
		for i, r := range r1 {
			if r == nil {
				first = fmt.Sprintf("call %d on the first client never returned", i)
			} else if msg := r.verify("ok", dotu, nil); msg != "" {
				first = fmt.Sprintf("call %d on the first client: %s", i, msg)
			}
		}
		if unmountFirst {
			c1.Unmount()
			vs.Idle()
		}
		// the second client of the process (no reset of anything in between)
		ce, se := vs.Pipe("clnt2", "peer2")
		peer2 = NewPeer(se, dotu)
		peer2.Batch = 4
		peer2.BatchOnce = true
		vs.Go("peer2", peer2.Serve)
		c2 := go9p.NewClnt(ce, 8192, dotu)
		res2 = make([]*callRes, 4)
		vs.Window(true)
		for i := 0; i < 4; i++ {
			i := i
			vs.Go("caller2", func() { res2[i] = doCall(c2, callSpec{[]string{"stat", "read", "walk", "read"}[i], uint32(40 + i)}) })
		}
		vs.Idle()
		vs.Window(false)
	}
	check := stdCheck("C09", func(x *vs.Exec) *Viol {
		if first != "" {
			return &Viol{Sig: "C09/harness/" + sigWords(first), Msg: first}
		}
		if peer2.Dup != "" {
			return &Viol{Sig: "C09/tag-reused-while-outstanding/second-client", Msg: "on the second client of the process: " + peer2.Dup}
		}
		for i, r := range res2 {
			if r == nil || !r.done {
				return &Viol{Sig: "C09/call-never-returned/second-client", Msg: fmt.Sprintf("call %d on the second client never returned (parked %v)", i, x.Parked)}
			}
			if msg := r.verify("ok", dotu, nil); msg != "" {
				return &Viol{Sig: "C09/" + sigWords(msg) + "/second-client", Msg: fmt.Sprintf("call %d (%s fid %d) on the second client of the process: %s", i, r.spec.Kind, r.spec.Fid, msg)}
			}
		}
		return nil
	}, nil)
	return vsScenario(&VsSpec{Name: name, Body: body, Check: check, P: P, Delay: true})
}

// c09AfterHelpers: the client's own helpers (path walks longer than one Twalk, open,
// stat, close) are made of the same calls and recycle the same request and message
// slots. After them, concurrent calls still get their own replies.
func c09AfterHelpers(elems int, dotu bool, P int) Scenario {
	var peer *Peer
	var res []*callRes
	var setupErr string
	name := fmt.Sprintf("calls-after-path-helpers elems=%d dotu=%v", elems, dotu)
	body := func() {
		setupErr = ""
		c, pr := newClientPair(8192, dotu)
		peer = pr
		c.Root = mkFid(c, 0)
		var names []string
		for i := 0; i < elems; i++ {
			names = append(names, fmt.Sprintf("e%d", i))
		}
		f, err := c.FWalk(strings.Join(names, "/"))
		if err != nil || f == nil {
			setupErr = fmt.Sprintf("FWalk over %d elements: %v", elems, err)
			return
		}
		if _, err := c.FStat("a/b"); err != nil {
			setupErr = fmt.Sprintf("FStat: %v", err)
			return
		}
		c.Clunk(f)
		peer.Seen = nil
		peer.Batch = 3
		peer.BatchOnce = true
		res = make([]*callRes, 3)
		vs.Window(true)
		for i := 0; i < 3; i++ {
			i := i
			vs.Go("caller", func() { res[i] = doCall(c, callSpec{[]string{"read", "stat", "write"}[i], uint32(300 + i)}) })
		}
		vs.Idle()
		vs.Window(false)
	}
	check := stdCheck("C09", func(x *vs.Exec) *Viol {
		if setupErr != "" {
			return &Viol{Sig: "C09/helper-failed/" + sigWords(setupErr), Msg: setupErr}
		}
		if peer.Dup != "" {
			return &Viol{Sig: "C09/tag-reused-while-outstanding/after-helpers", Msg: peer.Dup}
		}
		if peer.BadFrame != "" {
			return &Viol{Sig: "C09/client-sent-malformed-frame/after-helpers", Msg: peer.BadFrame}
		}
		for i, r := range res {
			if r == nil || !r.done {
				return &Viol{Sig: "C09/call-never-returned/after-helpers", Msg: fmt.Sprintf("call %d never returned after a path walk of %d elements (parked %v; the peer saw %v)", i, elems, x.Parked, peer.Seen)}
			}
			if msg := r.verify("ok", dotu, nil); msg != "" {
				return &Viol{Sig: "C09/" + sigWords(msg) + "/after-helpers", Msg: fmt.Sprintf("call %d (%s fid %d) after a path walk of %d elements: %s (the peer saw %v)", i, r.spec.Kind, r.spec.Fid, elems, msg, peer.Seen)}
			}
		}
		return nil
	}, nil)
	return vsScenario(&VsSpec{Name: name, Body: body, Check: check, P: P, Delay: true})
}

// c09AfterNonblocking: the public non-blocking path (ReqAlloc, Rpcnb, a completion
// channel the caller shares between its requests, ReqFree) recycles request slots too.
// After it, concurrent blocking calls still get their own replies.
func c09AfterNonblocking(n int, dotu bool, P int) Scenario { return c09AfterAsync(n, false, dotu, P) }

func c09AfterAsync(n int, viaTag, dotu bool, P int) Scenario {
	var peer *Peer
	var res []*callRes
	var setupErr string
	name := fmt.Sprintf("calls-after-nonblocking-requests n=%d dotu=%v", n, dotu)
	if viaTag {
		name = fmt.Sprintf("calls-after-nonblocking-requests-and-a-Tag-pipeline n=%d dotu=%v", n, dotu)
	}
	body := func() {
		setupErr = ""
		c, pr := newClientPair(8192, dotu)
		peer = pr
		shared := make(chan *go9p.Req, n)
		var rs []*go9p.Req
		for i := 0; i < n; i++ {
			r := c.ReqAlloc()
			r.Tc = c.NewFcall()
			if err := go9p.PackTstat(r.Tc, uint32(200+i)); err != nil {
				setupErr = err.Error()
				return
			}
			r.Done = shared
			if err := c.Rpcnb(r); err != nil {
				setupErr = err.Error()
				return
			}
			rs = append(rs, r)
		}
		for i := 0; i < n; i++ {
			if r := vs.Recv(shared); r.Err != nil {
				setupErr = fmt.Sprintf("non-blocking request failed: %v", r.Err)
				return
			}
		}
		for _, r := range rs {
			c.ReqFree(r)
		}
		if viaTag {
			// ... and the pipelined Tag interface, each completion released with Tag.ReqFree
			rc := make(chan *go9p.Req, n)
			tg := c.TagAlloc(rc)
			for i := 0; i < n; i++ {
				if err := tg.Read(mkFid(c, uint32(250+i)), uint64(i), 8); err != nil {
					setupErr = "Tag.Read: " + err.Error()
					return
				}
			}
			for i := 0; i < n; i++ {
				tg.ReqFree(vs.Recv(rc))
			}
		}
		peer.Seen = nil
		peer.Batch = 3
		peer.BatchOnce = true
		res = make([]*callRes, 3)
		vs.Window(true)
		for i := 0; i < 3; i++ {
			i := i
			vs.Go("caller", func() { res[i] = doCall(c, callSpec{[]string{"read", "stat", "write"}[i], uint32(300 + i)}) })
		}
		vs.Idle()
		vs.Window(false)
	}
	check := stdCheck("C09", func(x *vs.Exec) *Viol {
		if setupErr != "" {
			return &Viol{Sig: "C09/nonblocking-failed/" + sigWords(setupErr), Msg: setupErr}
		}
		if peer.Dup != "" {
			return &Viol{Sig: "C09/tag-reused-while-outstanding/after-nonblocking", Msg: peer.Dup}
		}
		for i, r := range res {
			if r == nil || !r.done {
				return &Viol{Sig: "C09/call-never-returned/after-nonblocking", Msg: fmt.Sprintf("call %d never returned after %d non-blocking requests sharing a completion channel (parked %v; the peer saw %v)", i, n, x.Parked, peer.Seen)}
			}
			if msg := r.verify("ok", dotu, nil); msg != "" {
				return &Viol{Sig: "C09/" + sigWords(msg) + "/after-nonblocking", Msg: fmt.Sprintf("call %d (%s fid %d) after %d non-blocking requests sharing a completion channel: %s (the peer saw %v)", i, r.spec.Kind, r.spec.Fid, n, msg, peer.Seen)}
			}
		}
		return nil
	}, nil)
	return vsScenario(&VsSpec{Name: name, Body: body, Check: check, P: P, Delay: true})
}

// pipelined Tag interface: requests sharing a tag complete in the order issued
func c09TagScenario(n int, dotu bool, P int) Scenario {
	var got []string
	var want []string
	var peer *Peer
	body := func() {
		c, pr := newClientPair(8192, dotu)
		peer = pr
		_ = peer
		got, want = nil, nil
		rc := make(chan *go9p.Req, 8)
		vs.Window(true)
		tag := c.TagAlloc(rc)
		for i := 0; i < n; i++ {
			f := mkFid(c, uint32(40+i))
			if err := tag.Read(f, uint64(i), 8); err != nil {
				vs.Fail("Tag.Read: %v", err)
			}
			want = append(want, fmt.Sprintf("fid%d@%d=%x", 40+i, i, peerReadData(uint32(40+i), uint64(i), 8)))
		}
		for i := 0; i < n; i++ {
			r := vs.Recv(rc)
			if r.Rc == nil {
				got = append(got, "nil")
			} else {
				// the completion pairs a request with a reply: both are looked at
				got = append(got, fmt.Sprintf("fid%d@%d=%x", r.Tc.Fid, r.Tc.Offset, r.Rc.Data))
			}
		}
		vs.Idle()
		vs.Window(false)
	}
	check := stdCheck("C09", func(x *vs.Exec) *Viol {
		if strings.Join(got, ",") != strings.Join(want, ",") {
			return &Viol{Sig: "C09/tag-pipeline-order", Msg: fmt.Sprintf("requests pipelined on one Tag completed as %v, issued as %v (parked %v)\npeer saw %v dup=%q", got, want, x.Parked, peer.Seen, peer.Dup)}
		}
		return nil
	}, nil)
	return vsScenario(&VsSpec{Name: fmt.Sprintf("tag-pipeline n=%d dotu=%v", n, dotu), Body: body, Check: check, P: P, Delay: true, Sample: func() any { return map[string]any{"completions": got} }})
}

// c09TagInterleaved: requests pipelined on two Tags of one client, in every pattern of
// four requests over the two, answered by the server in every order that keeps each
// tag's own requests first-in first-out (a server may answer different tags in any
// order). Every completion pairs a request with the reply the server sent for it.
func c09TagInterleaved(dotu bool) Scenario {
	name := fmt.Sprintf("two Tags interleaved, every pattern of 4 requests x every legal answer order dotu=%v", dotu)
	return Scenario{Name: name, Run: func(rc *RunCtx) *Result {
		res := &Result{Exhaustive: true}
		var bad string
		for pat := 0; pat < 16 && bad == ""; pat++ {
			for _, order := range perms([]int{0, 1, 2, 3}) {
				// keep each tag's requests in order
				legal := true
				pos := map[int]int{}
				for at, idx := range order {
					pos[idx] = at
				}
				for i := 0; i < 4; i++ {
					for j := i + 1; j < 4; j++ {
						if (pat>>i)&1 == (pat>>j)&1 && pos[i] > pos[j] {
							legal = false
						}
					}
				}
				if !legal {
					continue
				}
				pat, order := pat, order
				var got []string
				body := func() {
					c, peer := newClientPair(8192, dotu)
					peer.Batch = 4
					peer.Order = order
					chs := []chan *go9p.Req{make(chan *go9p.Req, 8), make(chan *go9p.Req, 8)}
					tags := []*go9p.Tag{c.TagAlloc(chs[0]), c.TagAlloc(chs[1])}
					for i := 0; i < 4; i++ {
						f := mkFid(c, uint32(40+i))
						if err := tags[(pat>>i)&1].Read(f, uint64(i), 8); err != nil {
							vs.Fail("Tag.Read: %v", err)
						}
					}
					vs.Idle()
					for t := 0; t < 2; t++ {
						cnt := 0
						for i := 0; i < 4; i++ {
							if (pat>>i)&1 == t {
								cnt++
							}
						}
						for ; cnt > 0; cnt-- {
							r := vs.Recv(chs[t])
							if r.Rc == nil {
								got = append(got, fmt.Sprintf("fid%d: no reply (%v)", r.Tc.Fid, r.Err))
							} else if want := peerReadData(r.Tc.Fid, r.Tc.Offset, 8); !bytes.Equal(r.Rc.Data, want) {
								got = append(got, fmt.Sprintf("the read of fid %d at %d completed with %x, the server's reply to it carries %x", r.Tc.Fid, r.Tc.Offset, r.Rc.Data, want))
							} else {
								got = append(got, "ok")
							}
						}
					}
				}
				x := vs.Run(nil, body, vs.Options{Horizon: 10000000})
				res.Evals++
				res.Nontrivial++
				res.States++
				res.Traces++
				if len(x.Panics) > 0 {
					bad = "panic: " + x.Panics[0].Value
				} else if len(x.Fails) > 0 {
					bad = "harness: " + x.Fails[0]
				} else if len(got) != 4 {
					bad = fmt.Sprintf("%d of 4 pipelined requests completed (pattern %04b, answer order %v): %v", len(got), pat, order, got)
				} else {
					for _, g := range got {
						if g != "ok" {
							bad = fmt.Sprintf("requests issued on Tags in pattern %04b (bit i = Tag of request i), answered in order %v: %s", pat, order, g)
						}
					}
				}
				if bad != "" {
					break
				}
			}
		}
		if bad != "" {
			res.Findings = append(res.Findings, Finding{Sig: "C09/tags-interleaved/" + sigWords(bad), Msg: bad})
		}
		return res
	}}
}

// many sequential calls over one connection: tags and request slots are recycled
func c09RecycleScenario(n int, poolForgets bool, kind string) Scenario {
	name := fmt.Sprintf("recycle %d sequential calls", n)
	if kind != "ok" {
		// calls that fail recycle their tag and slot like the others
		name += " all answered with " + kind
	}
	if poolForgets {
		// sync.Pool may drop idle items at any time: the client must not lose tags or slots with them
		name += " (every sync.Pool forgets what is put back)"
	}
	return Scenario{Name: name, Run: func(rc *RunCtx) *Result {
		res := &Result{Exhaustive: true}
		var bad string
		tags := map[uint16]bool{}
		done := 0
		body := func() {
			vsync.PoolForgets = poolForgets
			defer func() { vsync.PoolForgets = false }()
			c, peer := newClientPair(8192, true)
			if kind != "ok" {
				peer.DefaultKind = kind
			}
			tagOf := func(fid uint32) uint16 {
				for i := len(peer.Seen) - 1; i >= 0; i-- {
					if peer.Seen[i].Fid == fid {
						return peer.Seen[i].Tag
					}
				}
				return 0
			}
			var kept []keptRes
			for i := 0; i < n; i++ {
				done = i
				sp := callSpec{Kind: []string{"read", "stat", "write", "walk", "clunk"}[i%5], Fid: uint32(i % 50000)}
				r := doCall(c, sp)
				if msg := r.verify(kind, true, tagOf); msg != "" {
					bad = fmt.Sprintf("call %d (%s fid %d): %s", i, sp.Kind, sp.Fid, msg)
					return
				}
				// what an earlier call returned stays what it was (the caller may keep it)
				for k, pr := range kept {
					if now := pr.r.resultString(); now != pr.was {
						bad = fmt.Sprintf("the result of call %d (%s fid %d) was %s when it returned and reads %s after %d later calls on the same client", pr.i, pr.r.spec.Kind, pr.r.spec.Fid, pr.was, now, i-pr.i)
						return
					}
					_ = k
				}
				kept = append(kept, keptRes{i, r, r.resultString()})
				if len(kept) > 3 {
					kept = kept[1:]
				}
				if len(peer.Seen) > 64 {
					for _, m := range peer.Seen {
						tags[m.Tag] = true
					}
					peer.Seen = peer.Seen[:0]
				}
			}
			if peer.Dup != "" {
				bad = peer.Dup
			}
		}
		x := vs.Run(nil, body, vs.Options{Horizon: 100000000})
		res.Evals = int64(n)
		res.Nontrivial = int64(n)
		res.States = int64(len(tags))
		res.Transitions = int64(x.Steps)
		res.Traces = 1
		if len(x.Panics) > 0 {
			bad = "panic: " + x.Panics[0].Value
		}
		vsync.PoolForgets = false
		if x.HitHorizon {
			bad = "did not finish"
		}
		if bad == "" && done != n-1 {
			bad = fmt.Sprintf("call number %d never returned: tags or request slots are not recycled (parked: %v)", done+1, x.Parked)
		}
		if bad != "" {
			res.Findings = append(res.Findings, Finding{Sig: "C09/recycling/" + sigWords(bad), Msg: bad})
		}
		res.Samples = append(res.Samples, fmt.Sprintf("%d consecutive calls on one client, %d distinct tags seen by the peer", n, len(tags)))
		return res
	}}
}

// c09BurstRecycle: bursts of more concurrent callers than the client caches request
// slots for, many times over, with sync.Pool keeping or forgetting what is put back:
// no tag is lost (after every burst each tag is either free in the client's pool or held
// by a cached request slot), so the supply of 65 535 cannot run out.
func c09BurstRecycle(burst, rounds int, poolForgets bool) Scenario {
	name := fmt.Sprintf("recycle %d bursts of %d concurrent calls", rounds, burst)
	if poolForgets {
		name += " (every sync.Pool forgets what is put back)"
	}
	return Scenario{Name: name, Run: func(rc *RunCtx) *Result {
		res := &Result{Exhaustive: true}
		var bad string
		tags := map[uint16]bool{}
		body := func() {
			vsync.PoolForgets = poolForgets
			defer func() { vsync.PoolForgets = false }()
			c, peer := newClientPair(8192, true)
			total0 := 0
			for r := 0; r < rounds; r++ {
				results := make([]*callRes, burst)
				peer.Batch = burst
				peer.BatchOnce = true
				for i := 0; i < burst; i++ {
					i := i
					vs.Go("caller", func() {
						results[i] = doCall(c, callSpec{Kind: []string{"read", "stat", "write"}[i%3], Fid: uint32(1000 + i)})
					})
				}
				vs.Idle()
				for i, cr := range results {
					if cr == nil || !cr.done {
						bad = fmt.Sprintf("burst %d: call %d never returned", r, i)
						return
					}
					if msg := cr.verify("ok", true, nil); msg != "" {
						bad = fmt.Sprintf("burst %d call %d: %s", r, i, msg)
						return
					}
				}
				for _, m := range peer.Seen {
					tags[m.Tag] = true
				}
				peer.Seen = peer.Seen[:0]
				if peer.Dup != "" {
					bad = peer.Dup
					return
				}
				// tags are conserved: every one is either free in the client's pool or held by a cached request slot
				if free, cached := clientTagAccounting(c); r == 0 {
					total0 = free + cached
				} else if free+cached != total0 {
					bad = fmt.Sprintf("after %d bursts of %d concurrent calls %d tags are free and %d sit in cached request slots; after the first burst that was %d in all: %d tags have been lost, and the supply of 65535 will run out", r+1, burst, free, cached, total0, total0-free-cached)
					return
				}
			}
		}
		x := vs.Run(nil, body, vs.Options{Horizon: 500000000})
		vsync.PoolForgets = false
		res.Evals = int64(rounds * burst)
		res.Nontrivial = res.Evals
		res.States = int64(len(tags))
		res.Transitions = int64(x.Steps)
		res.Traces = 1
		if len(x.Panics) > 0 {
			bad = "panic: " + x.Panics[0].Value
		}
		if bad != "" {
			res.Findings = append(res.Findings, Finding{Sig: "C09/recycling/" + sigWords(bad), Msg: bad})
		}
		res.Samples = append(res.Samples, fmt.Sprintf("%d bursts of %d concurrent calls, %d distinct tags seen by the peer", rounds, burst, len(tags)))
		return res
	}}
}

// results handed to callers must stay theirs: hold the slices returned by many
// reads (not copied) while later replies stream through the client's receive buffer
func c09HeldScenario(msize uint32, n int, dotu bool) Scenario {
	return Scenario{Name: fmt.Sprintf("held-results msize=%d reads=%d dotu=%v", msize, n, dotu), Run: func(rc *RunCtx) *Result {
		res := &Result{Exhaustive: true}
		var bad string
		body := func() {
			c, _ := newClientPair(msize, dotu)
			var held [][]byte
			var want [][]byte
			for i := 0; i < n; i++ {
				f := mkFid(c, uint32(100+i))
				d, err := c.Read(f, uint64(i), 24)
				if err != nil {
					bad = fmt.Sprintf("read %d: %v", i, err)
					return
				}
				held = append(held, d)
				want = append(want, peerReadData(uint32(100+i), uint64(i), 24))
				for j := range held {
					if !bytes.Equal(held[j], want[j]) {
						bad = fmt.Sprintf("the data returned by read %d changed after read %d completed: now %x, was %x", j, i, held[j], want[j])
						return
					}
				}
			}
		}
		x := vs.Run(nil, body, vs.Options{})
		res.Evals, res.Nontrivial, res.Traces, res.States, res.Transitions = int64(n), int64(n), 1, int64(n), int64(x.Steps)
		if len(x.Panics) > 0 {
			bad = "panic: " + x.Panics[0].Value
		}
		if bad != "" {
			res.Findings = append(res.Findings, Finding{Sig: "C09/returned-data-overwritten", Msg: bad})
		}
		res.Samples = append(res.Samples, fmt.Sprintf("%d reads of 24 bytes at msize %d (receive buffer %d bytes), every returned slice re-checked after every later reply", n, msize, 8*msize))
		return res
	}}
}

func c09Scenarios(tier string) []Scenario {
	var out []Scenario
	kinds := []string{"read", "stat", "walk", "write", "clunk"}
	P := 2
	if tier == "thorough" {
		P = 4
	}
	i := 0
	// two callers, every reply order, every reply kind per call
	for a := 0; a < len(kinds); a++ {
		for b := a; b < len(kinds); b++ {
			for _, order := range [][]int{{0, 1}, {1, 0}} {
				i++
				rk := [][]string{{"ok", "ok"}, {"error", "ok"}, {"ok", "wrongtype"}, {"error", "error"}, {"wrongtype", "error"}}[i%5]
				if tier == "quick" && i%3 != 0 && !(kinds[a] == "read" && kinds[b] == "read") {
					continue
				}
				out = append(out, c09Scenario(c09Params{Calls: [][]callSpec{{{kinds[a], uint32(10 + a)}}, {{kinds[b], uint32(20 + b)}}}, Kinds: rk, Order: order, OneWrite: i%2 == 0, Dotu: i%4 < 2, P: P}))
			}
		}
	}
	out = append(out, c09TwoClients(false, true, 1), c09TwoClients(true, false, 1))
	out = append(out, c09AfterHelpers(3, true, 1), c09AfterHelpers(17, false, 1), c09AfterHelpers(40, true, 1))
	out = append(out, c09AfterNonblocking(1, false, 1), c09AfterNonblocking(3, true, 1), c09AfterAsync(3, true, false, 1), c09AfterAsync(20, true, true, 1))
	// two calls per caller (request slots and Fcalls recycled between calls)
	out = append(out, c09Scenario(c09Params{Calls: [][]callSpec{{{"read", 10}, {"stat", 11}}, {{"write", 20}, {"read", 21}}}, Kinds: []string{"ok", "error", "ok", "ok"}, Order: []int{1, 0}, Dotu: true, P: P}))
	out = append(out, c09Scenario(c09Params{Calls: [][]callSpec{{{"read", 10}, {"read", 11}}, {{"read", 20}}}, Kinds: nil, Order: []int{0, 1}, OneWrite: true, P: P}))
	out = append(out, c09Scenario(c09Params{Calls: [][]callSpec{{{"read", 10}}, {{"read", 20}}}, Kinds: []string{"ok", "error"}, Order: []int{1, 0}, Dotu: true, P: 3}))
	// three callers: every permutation
	for pi, order := range perms([]int{0, 1, 2}) {
		pp := 1
		if tier == "thorough" {
			pp = 3
		}
		out = append(out, c09Scenario(c09Params{Calls: [][]callSpec{{{"read", 10}}, {{"stat", 20}}, {{"read", 30}}}, Kinds: [][]string{nil, {"error"}, {"ok", "wrongtype"}}[pi%3], Order: order, OneWrite: pi%2 == 0, Dotu: pi%2 == 1, P: pp}))
	}
	if tier == "thorough" {
		for pi, order := range perms([]int{0, 1, 2, 3}) {
			out = append(out, c09Scenario(c09Params{Calls: [][]callSpec{{{"read", 10}}, {{"stat", 20}}, {{"read", 30}}, {{"write", 40}}}, Order: order, OneWrite: pi%2 == 0, Dotu: pi%2 == 1, P: 1}))
		}
		for pi, order := range perms([]int{0, 1, 2, 3, 4}) {
			if pi%5 != 0 {
				continue
			}
			out = append(out, c09Scenario(c09Params{Calls: [][]callSpec{{{"read", 10}}, {{"stat", 20}}, {{"read", 30}}, {{"write", 40}}, {{"walk", 50}}}, Order: order, Dotu: true, P: 0}))
		}
	}
	out = append(out, c09TagInterleaved(false), c09TagInterleaved(true))
	out = append(out, c09TagScenario(2, true, P), c09TagScenario(3, false, 2))
	// more completions than the Tag's channels hold (16 + the consumer's 8): the reader has to wait for the late consumer
	out = append(out, c09TagScenario(30, true, 1), c09TagScenario(40, false, 1))
	// ... and far more than any plausible channel capacity
	out = append(out, c09TagScenario(100, false, 1))
	if tier == "thorough" {
		out = append(out, c09TagScenario(300, true, 1))
	}
	n := 70000 // more than the 65535 tags there are
	if tier == "thorough" {
		n = 70000
	}
	out = append(out, c09RecycleScenario(n, false, "ok"), c09RecycleScenario(n, true, "ok"), c09RecycleScenario(n, false, "error"), c09RecycleScenario(n, false, "wrongtype"))
	out = append(out, c09BurstRecycle(40, 30, false), c09BurstRecycle(40, 30, true), c09BurstRecycle(17, 60, true))
	out = append(out, c09HeldScenario(64, 60, false), c09HeldScenario(128, 80, true), c09HeldScenario(8192, 2200, true))
	return out
}

func init() {
	_ = wire.NOTAG
	register(&Property{ID: "C09", Level: "model_checking",
		Technique: "stateless model checking of the real client (Rpc callers, recv, send goroutines) against a scripted peer under the controlled scheduler, all schedules within a preemption bound",
		Rule:      "k<=3 (thorough 5) caller goroutines with 1-2 calls each (read/stat/walk/write/clunk on distinct fids), the peer holding the first round until all are outstanding and answering in every permutation (k<=4; every 5th of the 120 for k=5), one frame per write or all in one, each reply matching/Rerror/wrong type; every schedule with at most P deviations from the deterministic default scheduler (delay bounding: every non-default scheduling choice counts, preemptive or not; select-case choices free) from the first call to the last return; pipelined Tag interface with 2-3 requests, and with 30, 40 and 100 (thorough 300) requests whose consumer starts late; one run of 3000 (thorough 70000) consecutive calls for tag and slot recycling. distinct = distinct per-object operation orders ; results of earlier calls (errors included) re-read after later calls on the same client ; two Tags interleaved in every pattern of 4 requests x every answer order that keeps each tag first-in first-out",
		Assumptions: []string{"code between two synchronisation operations is atomic (race-free executions)", "callers use distinct fids so a reply identifies its request"},
		Scenarios:   c09Scenarios, QuickS: 110, ThoroughS: 1500})
}

// clientTagAccounting looks into the client: tags free in its pool, and request slots
// (each holding a tag) in its cache.
func clientTagAccounting(c *go9p.Clnt) (free, cached int) {
	v := reflect.ValueOf(c).Elem()
	get := func(f reflect.Value) reflect.Value { return reflect.NewAt(f.Type(), unsafe.Pointer(f.UnsafeAddr())).Elem() }
	tp := get(v.FieldByName("tagpool"))
	if idf := tp.Elem().FieldByName("id"); idf.IsValid() {
		if ch, ok := get(idf).Interface().(chan uint32); ok {
			free = vs.Len(ch)
		}
	}
	if rc, ok := get(v.FieldByName("reqchan")).Interface().(chan *go9p.Req); ok {
		cached = vs.Len(rc)
	}
	return
}
