package main

import (
	"github.com/rminnich/go9p"
	"path/filepath"
	"os"
	"fmt"
	"strings"

	"github.com/rminnich/go9p/vs"
	"harness/wire"
)

// checkStep compares the observation of the last event of a history with the
// model's prediction. st is the model state before the event; it is updated.
func checkStep(prop string, st *mstate, e mevent, c mcfg, o *stepObs, destroyedSoFar map[int]int, probed bool, knownHit func(*Viol)) *Viol {
	pred := st.predict(e, c)
	v := func(sig, format string, a ...any) *Viol {
		return &Viol{Sig: prop + "/" + sig, Msg: fmt.Sprintf("event %s in state {%s}: ", e, st.key()) + fmt.Sprintf(format, a...)}
	}
	if o.Reply == nil {
		return v("no-reply/"+e.Op, "no reply")
	}
	if o.Frames != 1 {
		return v("reply-count/"+e.Op, "%d reply frames for one request", o.Frames)
	}
	var calls []Entry
	authcheck := []Entry{}
	for _, en := range o.Entries {
		switch en.Kind {
		case "call":
			calls = append(calls, en)
		case "authcheck":
			authcheck = append(authcheck, en)
		}
	}
	success := o.Reply.Type != wire.Rerror
	if success && o.Reply.Type != e.toMsg(0, c.Dotu).Type+1 {
		return v("wrong-reply-type/"+e.Op, "answered by %s", o.Reply)
	}
	forwarded := len(calls) > 0
	if !pred.noCheck {
		switch pred.verdict {
		case mustRefuse:
			if success {
				return v("rule-not-enforced/"+sigWords(pred.why), "must be refused (%s) but was answered by %s", pred.why, o.Reply)
			}
			if forwarded {
				return v("refused-but-forwarded/"+sigWords(pred.why), "must not reach the implementation (%s) but %s was called", pred.why, calls[0].Op)
			}
			if pred.errText != "" && o.Reply.Ename != pred.errText {
				return v("wrong-refusal-text/"+strings.ReplaceAll(pred.errText, " ", "-"), "refused with %q, the protocol error is %q", o.Reply.Ename, pred.errText)
			}
		case mustForward:
			if len(calls) != 1 || calls[0].Op != pred.fwdOp {
				var ops []string
				for _, cc := range calls {
					ops = append(ops, cc.Op)
				}
				return v("not-forwarded-once/"+e.Op, "satisfies the rules and must be forwarded exactly once as %s; implementation calls: %v, reply %s", pred.fwdOp, ops, o.Reply)
			}
			cl := calls[0]
			if mf := st.fids[pred.fwdFid]; mf != nil {
				if mf.token != 0 && cl.Token != 0 && cl.Token != mf.token {
					return v("forwarded-with-wrong-fid/"+e.Op, "implementation was handed fid identity %d, the client named the fid with identity %d", cl.Token, mf.token)
				}
				if cl.User != mf.user {
					return v("forwarded-with-wrong-user/"+e.Op, "implementation saw user %s, the fid belongs to %s", cl.User, mf.user)
				}
			}
			if want := expectArgs(e); want != "" && cl.Args != want {
				return v("forwarded-with-wrong-arguments/"+e.Op, "implementation saw %q, the client sent %q", cl.Args, want)
			}
		}
	}
	if c.Auth && e.Op == "attach" {
		attachCalled := false
		for _, cc := range calls {
			if cc.Op == "Attach" {
				attachCalled = true
			}
		}
		if attachCalled {
			ok := len(authcheck) == 1 && strings.Contains(authcheck[0].Args, `verdict=""`) && authcheck[0].Seq < calls[len(calls)-1].Seq
			if !ok {
				return v("attach-without-accepted-authcheck", "Attach reached the implementation without an accepting AuthCheck before it (authcheck entries: %v)", authcheck)
			}
		}
	}
	// who is the user of a new fid
	user := ""
	switch e.Op {
	case "attach", "auth":
		user = fmt.Sprintf("%s/%d", map[uint32]string{7: "glenda", 8: "bob", 0: "root"}[e.Uid], e.Uid)
		if id, ok := map[string]uint32{"glenda": 7, "bob": 8, "root": 0}[e.Uname]; ok && !c.Dotu {
			// the plain dialect carries no number: the name says who it is
			user = fmt.Sprintf("%s/%d", e.Uname, id)
		}
		for _, cc := range calls {
			if (cc.Op == "Attach" || cc.Op == "AuthInit") && cc.User != user && !pred.noCheck {
				sig := "forwarded-with-wrong-user/" + e.Op
				if !c.Dotu && cc.User == "root/0" {
					// plain dialect: the uname the client sent is not what reaches the implementation
					sig += "/9P2000-uname-ignored-uid0"
				}
				vv := v(sig, "implementation saw user %s for a fid bound by %s", cc.User, user)
				if k := matchKnown(knownList, prop, vv.Sig); k != nil && knownHit != nil {
					knownHit(vv)
					user = cc.User // continue with what the server did, so that later steps are still checked
				} else {
					return vv
				}
			}
		}
	}
	goneTok := map[uint32]int{}
	for f, mf := range st.fids {
		goneTok[f] = mf.token
	}
	if pred.noCheck {
		// a corner the model does not define: adopt what the server did
		for _, cc := range calls {
			if cc.Op == "Attach" || cc.Op == "AuthInit" {
				user = cc.User
			}
		}
	}
	// an Rwalk with fewer qids than names is a partial walk, whatever the tree looks
	// like: by the protocol the new fid is not made and the old one does not move
	completed := success
	if e.Op == "walk" && success && len(o.Reply.Wqid) < len(e.Names) {
		completed = false
	}
	gone := st.apply(e, forwarded, completed, user)
	// learn identities
	for _, cc := range calls {
		if (cc.Op == "Attach" && e.Op == "attach") || (cc.Op == "AuthInit" && e.Op == "auth") {
			f := e.Fid
			if e.Op == "auth" {
				f = e.Afid
			}
			if mf := st.fids[f]; mf != nil {
				mf.token = cc.Token
			}
		}
	}
	// destruction: exactly once, no later than the invalidating reply
	for _, en := range o.Entries {
		if en.Kind == "destroy" && en.Token != 0 {
			destroyedSoFar[en.Token]++
			if destroyedSoFar[en.Token] > 1 {
				return v("fid-destroyed-twice", "FidDestroy reported again for fid identity %d", en.Token)
			}
		}
	}
	for _, f := range gone {
		tok := goneTok[f]
		if tok == 0 {
			continue
		}
		found := false
		for _, en := range o.Entries {
			if en.Kind == "destroy" && en.Token == tok {
				found = true
				if en.Seq > o.ReplySeq {
					return v("destroy-after-reply/"+e.Op, "FidDestroy for fid %d (seq %d) came after the reply that invalidates it (seq %d)", f, en.Seq, o.ReplySeq)
				}
			}
		}
		if !found {
			return v("no-destroy/"+e.Op, "fid %d was invalidated but the implementation was not told of its destruction", f)
		}
	}
	if probed {
		for _, pf := range []uint32{0, 1, 2} {
			mf := st.fids[pf]
			if (mf != nil) != o.Valid[pf] {
				return v("fid-table-mismatch/"+e.Op, "after the event fid %d is valid=%v on the server, the protocol history makes it valid=%v (server table: %s)", pf, o.Valid[pf], mf != nil, o.Digest)
			}
			if mf == nil || mf.kind == 'a' {
				continue
			}
			if tok := o.PTok[pf]; tok != 0 {
				if mf.token == 0 {
					mf.token = tok
				} else if mf.token != tok && !(e.Op == "walk" && e.Newfid == pf) {
					return v("fid-identity-changed/"+e.Op, "fid %d now designates another implementation fid (identity %d, was %d)", pf, tok, mf.token)
				} else {
					mf.token = tok
				}
			}
			if u := o.PUser[pf]; u != "" && u != mf.user {
				return v("fid-user-changed/"+e.Op, "fid %d is now seen with user %s, it was bound by %s", pf, u, mf.user)
			}
		}
	}
	return nil
}

func expectArgs(e mevent) string {
	switch e.Op {
	case "walk":
		return fmt.Sprintf("newfid=%d names=%v", e.Newfid, e.Names)
	case "open":
		return fmt.Sprintf("mode=%d", e.Mode)
	case "create":
		return fmt.Sprintf("name=%q perm=%#x mode=%d ext=%q", e.Name, e.Perm, e.Mode, "")
	case "read", "write":
		return fmt.Sprintf("off=%d count=%d", e.Offset, e.Count)
	}
	return ""
}

// alphabet of the history search
func c04Alphabet(c mcfg) []mevent {
	var a []mevent
	fids := []uint32{0, 1, 2}
	for _, f := range fids[:2] {
		a = append(a, mevent{Op: "attach", Fid: f, Afid: wire.NOFID, Uid: 7, Uname: "glenda"})
	}
	a = append(a, mevent{Op: "attach", Fid: 0, Afid: wire.NOFID, Uid: 8, Uname: "bob", ImplErr: true})
	a = append(a, mevent{Op: "attach", Fid: 1, Afid: 2, Uid: 7, Uname: "glenda"})
	if c.Dotu {
		// a user the pool does not know (the plain dialect cannot express it, see the known finding)
		a = append(a, mevent{Op: "attach", Fid: 1, Afid: 2, Uid: 99, Uname: "nobody"}, mevent{Op: "attach", Fid: 2, Afid: 0, Uid: 99, Uname: "nobody"})
	}
	if c.Auth {
		a = append(a, mevent{Op: "auth", Afid: 2, Uid: 7, Uname: "glenda"}, mevent{Op: "auth", Afid: 2, Uid: 7, Uname: "glenda", ImplErr: true})
		a = append(a, mevent{Op: "attach", Fid: 0, Afid: 2, Uid: 7, Uname: "glenda", AuthNo: true})
		a = append(a, mevent{Op: "attach", Fid: 1, Afid: wire.NOFID, Uid: 7, Uname: "glenda", AuthNo: true})
	} else {
		a = append(a, mevent{Op: "auth", Afid: 2, Uid: 7, Uname: "glenda"})
	}
	names := [][]string{nil, {"d"}, {"f"}, {"d", "h"}, {"d", "zz"}, {"zz"}}
	for _, f := range fids[:2] {
		for _, g := range fids {
			for ni, n := range names {
				if f == 1 && ni > 2 {
					continue
				}
				a = append(a, mevent{Op: "walk", Fid: f, Newfid: g, Names: n})
			}
		}
	}
	// more names than a walk may carry (16): d .. d .. ... d
	long := []string{}
	for i := 0; i < 17; i++ {
		long = append(long, []string{"d", ".."}[i%2])
	}
	a = append(a, mevent{Op: "walk", Fid: 0, Newfid: 1, Names: long}, mevent{Op: "walk", Fid: 0, Newfid: 0, Names: long}, mevent{Op: "walk", Fid: 0, Newfid: 2, Names: long[:16]})
	a = append(a, mevent{Op: "walk", Fid: 0, Newfid: 1, Names: []string{"d"}, ImplErr: true})
	a = append(a, mevent{Op: "walk", Fid: 0, Newfid: 0, Names: []string{"d"}, ImplErr: true})
	for _, f := range fids {
		a = append(a, mevent{Op: "open", Fid: f, Mode: 0})
		a = append(a, mevent{Op: "clunk", Fid: f}, mevent{Op: "remove", Fid: f})
	}
	a = append(a, mevent{Op: "open", Fid: 1, Mode: 1}, mevent{Op: "open", Fid: 1, Mode: 0, ImplErr: true})
	a = append(a, mevent{Op: "create", Fid: 1, Name: "n", Perm: 0644, Mode: 1}, mevent{Op: "create", Fid: 0, Name: "n", Perm: 0644, Mode: 1, ImplErr: true})
	a = append(a, mevent{Op: "read", Fid: 1, Count: 8}, mevent{Op: "write", Fid: 1, Count: 4}, mevent{Op: "stat", Fid: 1, ImplErr: true}, mevent{Op: "wstat", Fid: 1})
	a = append(a, mevent{Op: "clunk", Fid: 1, ImplErr: true}, mevent{Op: "remove", Fid: 1, ImplErr: true})
	return a
}

// c04Search: breadth-first over histories; every transition of every reached
// state is executed on the implementation.
func c04Search(c mcfg, first int, depth int) Scenario {
	alpha := c04Alphabet(c)
	name := fmt.Sprintf("history-bfs dotu=%v auth=%v first=%s depth=%d", c.Dotu, c.Auth, alpha[first], depth)
	return Scenario{Name: name, Run: func(rc *RunCtx) *Result {
		res := &Result{Exhaustive: true, Bounds: map[string]any{"depth": depth}}
		type nodeT struct{ hist []mevent }
		seen := map[string]bool{}
		frontier := []nodeT{{hist: []mevent{alpha[first]}}}
		sigSeen := map[string]bool{}
		explore := func(hist []mevent) (key string, ok bool) {
			ho := runHistory(c, hist, []uint32{0, 1, 2}, len(hist))
			res.Evals++
			res.Traces++
			res.Transitions++
			fail := func(v *Viol) {
				if !sigSeen[v.Sig] && len(res.Findings) < 10 {
					sigSeen[v.Sig] = true
					var hs []string
					for _, e := range hist {
						hs = append(hs, e.String())
					}
					res.Findings = append(res.Findings, Finding{Sig: v.Sig, Msg: v.Msg + "\nhistory: " + strings.Join(hs, " ; "), Detail: map[string]any{"history": hs, "fslog": strings.Split(ho.FS.logString(), "\n")}})
				}
			}
			if len(ho.Panics) > 0 {
				p := ho.Panics[0]
				fail(&Viol{Sig: "C04/panic/" + p.Frame + "/" + panicClass(p.Value), Msg: "panic: " + p.Value + "\n" + trimStack(p.Stack)})
				return "", false
			}
			if ho.Fail != "" {
				fail(&Viol{Sig: "C04/harness/" + sigWords(ho.Fail), Msg: ho.Fail})
				return "", false
			}
			st := newMstate()
			destroyed := map[int]int{}
			for i, e := range hist {
				if v := checkStep("C04", st, e, c, &ho.Steps[i], destroyed, true, func(k *Viol) {
					if !sigSeen[k.Sig] {
						sigSeen[k.Sig] = true
						res.Findings = append(res.Findings, Finding{Sig: k.Sig, Msg: k.Msg})
					}
				}); v != nil {
					if i == len(hist)-1 {
						fail(v)
					}
					return "", false
				}
			}
			return st.key() + "#" + ho.Steps[len(hist)-1].Digest, true
		}
		for len(frontier) > 0 {
			var next []nodeT
			for _, n := range frontier {
				if rc.Expired() {
					res.Exhaustive = false
					res.CapHit = "internal deadline"
					frontier = nil
					next = nil
					break
				}
				key, ok := explore(n.hist)
				if !ok || seen[key] {
					continue
				}
				seen[key] = true
				res.States++
				if len(res.Samples) < 2 && len(n.hist) == depth {
					var hs []string
					for _, e := range n.hist {
						hs = append(hs, e.String())
					}
					res.Samples = append(res.Samples, map[string]any{"history": hs, "state": key})
				}
				if len(n.hist) < depth {
					for _, e := range alpha {
						h := append(append([]mevent{}, n.hist...), e)
						next = append(next, nodeT{hist: h})
					}
				}
			}
			frontier = next
		}
		res.Nontrivial = res.States
		return res
	}}
}

func c04Scenarios(tier string) []Scenario {
	var out []Scenario
	out = append(out, c04DuringDestroy("C04"), c04DisconnectDuringBind("C04"))
	depth := 4
	if tier == "thorough" {
		depth = 5
	}
	for _, c := range []mcfg{{Dotu: false, Auth: false, Msize: 256}, {Dotu: true, Auth: true, Msize: 256}, {Dotu: true, Auth: false, Msize: 256}, {Dotu: false, Auth: true, Msize: 256}} {
		if tier == "quick" && c.Dotu != c.Auth {
			continue
		}
		for i := range c04Alphabet(c) {
			out = append(out, c04Search(c, i, depth))
		}
	}
	out = append(out, c04IsolationScenario(false), c04IsolationScenario(true))
	out = append(out, c04CancelledScenario(false), c04CancelledScenario(true))
	out = append(out, heldAcrossClunkScenario("C04"))
	for i, k := range [][2]string{{"attach", "attach"}, {"walk", "walk"}, {"attach", "walk"}, {"clone", "attach"}, {"auth", "attach"}} {
		out = append(out, c04SameNewFid(k, i%2 == 0, i%3, 2))
	}
	ud := 4
	if tier == "thorough" {
		ud = 5
	}
	out = append(out, c04UfsValidity(true, ud), c04UfsValidity(false, ud))
	return out
}

// c04SameNewFid: two requests written together both try to bind the same free fid
// number (two attaches, two walks, an attach and a walk, an auth and an attach): in every
// schedule exactly one binds it, the other is told the fid is in use; the number then
// designates what the winner made, and every fid the implementation was shown is
// destroyed exactly once when the connection goes.
func c04SameNewFid(kinds [2]string, dotu bool, maxpend, P int) Scenario {
	var s *sess
	var r1, r2 *wire.Msg
	name := fmt.Sprintf("two requests binding the same free fid: %s + %s maxpend=%d dotu=%v", kinds[0], kinds[1], maxpend, dotu)
	mk := func(k string, tag uint16) *wire.Msg {
		switch k {
		case "attach":
			return tattach(tag, 5, wire.NOFID, "glenda", 7, dotu)
		case "walk":
			return twalk(tag, 0, 5, "d")
		case "clone":
			return twalk(tag, 0, 5)
		case "auth":
			return &wire.Msg{Type: wire.Tauth, Tag: tag, Afid: 5, Uname: "glenda", NUname: 7, HasNUname: dotu}
		}
		panic(k)
	}
	body := func() {
		s = newSess(SrvOpt{Msize: 256, Dotu: dotu, Maxpend: maxpend, Auth: kinds[0] == "auth" || kinds[1] == "auth"})
		s.setupN = len(s.c.Collect())
		vs.Window(true)
		s.c.Send(dotu, mk(kinds[0], 50), mk(kinds[1], 51))
		vs.Idle()
		vs.Window(false)
		r1, r2 = nil, nil
		for _, f := range s.c.Collect()[s.setupN:] {
			if f.Msg != nil && f.Msg.Tag == 50 {
				r1 = f.Msg
			}
			if f.Msg != nil && f.Msg.Tag == 51 {
				r2 = f.Msg
			}
		}
		s.c.Rpc(&wire.Msg{Type: wire.Tclunk, Tag: 60, Fid: 5})
		s.c.End.Close()
		vs.Idle()
	}
	check := stdCheck("C04", func(x *vs.Exec) *Viol {
		detail := map[string]any{"fslog": strings.Split(s.fs.logString(), "\n")}
		if r1 == nil || r2 == nil {
			return &Viol{Sig: "C04/same-new-fid/no-reply", Msg: fmt.Sprintf("replies: %v, %v", r1, r2), Detail: detail}
		}
		ok1, ok2 := r1.Type != wire.Rerror, r2.Type != wire.Rerror
		if ok1 && ok2 {
			return &Viol{Sig: "C04/same-new-fid/both-bound", Msg: fmt.Sprintf("two requests written together both bound the free fid 5: %s and %s - one of them must be told that the fid is in use", r1, r2), Detail: detail}
		}
		if !ok1 && !ok2 {
			return &Viol{Sig: "C04/same-new-fid/none-bound", Msg: fmt.Sprintf("neither request could bind the free fid 5: %s and %s", r1, r2), Detail: detail}
		}
		// every fid identity the implementation was shown is destroyed exactly once
		shown, destroyed := map[int]bool{}, map[int]int{}
		for _, e := range s.fs.Log {
			if e.Token != 0 && e.Kind == "call" {
				shown[e.Token] = true
			}
			if e.Kind == "destroy" {
				destroyed[e.Token]++
			}
		}
		for t := range shown {
			if destroyed[t] != 1 {
				return &Viol{Sig: fmt.Sprintf("C04/same-new-fid/destroyed-%d-times", destroyed[t]), Msg: fmt.Sprintf("the implementation was shown a fid (identity %d) that was reported destroyed %d times by the end of the connection", t, destroyed[t]), Detail: detail}
			}
		}
		return nil
	}, nil)
	return vsScenario(&VsSpec{Name: name, Body: body, Check: check, P: P})
}

// two connections: fid numbers are private to their connection
func c04IsolationScenario(dotu bool) Scenario {
	return Scenario{Name: fmt.Sprintf("two-connections dotu=%v", dotu), Run: func(rc *RunCtx) *Result {
		res := &Result{Exhaustive: true}
		res.Samples = append(res.Samples, "connection A binds/clunks fids 0..2 in every order while B probes the same numbers")
		// the histories on A; after each step, B's view must be unchanged
		alpha := c04Alphabet(mcfg{Dotu: dotu, Msize: 256})
		for _, first := range alpha[:2] {
			for _, second := range alpha {
				bad := runIsolation(dotu, []mevent{first, second})
				res.Evals++
				res.Nontrivial++
				res.States++
				res.Transitions += 2
				res.Traces++
				if bad != "" && len(res.Findings) == 0 {
					res.Findings = append(res.Findings, Finding{Sig: "C04/connections-not-isolated", Msg: fmt.Sprintf("A: %s ; %s: %s", first, second, bad)})
				}
			}
		}
		return res
	}}
}

func init() {
	register(&Property{ID: "C04", Level: "model_checking",
		Technique: "explicit-state breadth-first search over protocol histories of a Go reference fid-table model, every transition executed on the real server (replay of the history on a fresh instance) and compared",
		Rule:      "alphabet of ~60 requests over fid numbers {0,1,2} (attach/auth incl. bad afid, walks full/partial/failing/in place/to a used fid, open/create/read/write/stat/wstat/clunk/remove, each with implementation success or error); BFS to the stated depth from the empty connection, states deduplicated on model state + digest of the server's own fid table; after every event Tstat probes on each fid number; two-connection isolation runs; histories in which a request parked in the implementation is cancelled by Tflush (8 request kinds) and the table is probed, clunked and probed again; histories in which a request is held on a fid while the fid is clunked / removed and its number bound again, then completes (the server's own answers are the history); on the real Ufs every sequence of 4 (thorough 5) requests over walks, clunks, removes and creates of hard links / symlinks naming a second fid, with Tstat probes on every fid after each. states = distinct canonical states, transitions = histories executed ; requests naming a fid while the implementation is inside its FidDestroy (clunk / remove x 4 kinds of request x kept or not)",
		Assumptions: []string{"sequential histories on the default schedule (concurrency around fid destruction is explored by C07/C11)", "the reference model (harness/fidmodel.go) is a correct reading of the protocol rules"},
		Scenarios:   c04Scenarios, QuickS: 100, ThoroughS: 1500})
}

// heldAcrossClunk: a request is held by the implementation on fid 1 while the client
// clunks (or removes) fid 1 and at once binds the number again; then the held request
// completes. Whatever the server answered in between is the history: a fid whose
// binding was acknowledged stays valid (the completion of the old request is an
// unrelated operation), a number whose binding was refused is free once the old fid
// is gone, and at the disconnect every fid the implementation was shown is reported
// destroyed exactly once. Returns a description of what went wrong.
func heldAcrossClunk(held, drop string, dotu bool, maxpend int) string {
	var bad string
	body := func() {
		s := newSess(SrvOpt{Msize: 256, Dotu: dotu, Maxpend: maxpend})
		var m *wire.Msg
		switch held {
		case "read":
			s.rpcOK(twalk(s.tag(), 0, 1, "f"), wire.Rwalk)
			s.rpcOK(&wire.Msg{Type: wire.Topen, Tag: s.tag(), Fid: 1, Mode: 0}, wire.Ropen)
			m = &wire.Msg{Type: wire.Tread, Tag: 50, Fid: 1, Count: 8}
		case "stat":
			s.rpcOK(twalk(s.tag(), 0, 1, "f"), wire.Rwalk)
			m = &wire.Msg{Type: wire.Tstat, Tag: 50, Fid: 1}
		case "walk":
			s.rpcOK(twalk(s.tag(), 0, 1, "d"), wire.Rwalk)
			m = twalk(50, 1, 2, "h")
		case "write":
			s.rpcOK(twalk(s.tag(), 0, 1, "g"), wire.Rwalk)
			s.rpcOK(&wire.Msg{Type: wire.Topen, Tag: s.tag(), Fid: 1, Mode: 1}, wire.Ropen)
			m = &wire.Msg{Type: wire.Twrite, Tag: 50, Fid: 1, Data: []byte("xyz")}
		}
		gate := vs.NewSem(0)
		s.fs.Script[reqKey{0, 50, 0}] = &Action{Gate: gate}
		s.c.Send(dotu, m)
		vs.Idle()
		dt := uint8(wire.Tclunk)
		if drop == "remove" {
			dt = wire.Tremove
		}
		rd := s.c.Rpc(&wire.Msg{Type: dt, Tag: s.tag(), Fid: 1})
		if rd == nil {
			bad = "T" + drop + " of the fid with a request in flight was never answered"
			return
		}
		dropped := rd.Type == dt+1
		to := "d" // a file the Tremove above cannot have taken away
		if held == "walk" {
			to = "g"
		}
		rb := s.c.Rpc(twalk(s.tag(), 0, 1, to))
		if rb == nil {
			bad = "binding the number again was never answered"
			return
		}
		rebound := rb.Type == wire.Rwalk
		gate.Release()
		vs.Idle()
		stat := func(f uint32) string {
			r := s.c.Rpc(&wire.Msg{Type: wire.Tstat, Tag: s.tag(), Fid: f})
			switch {
			case r == nil:
				return "none"
			case r.Type == wire.Rstat:
				return "valid:" + r.Stat.Name
			}
			return r.Ename
		}
		got := stat(1)
		switch {
		case rebound && got == "valid:"+to && func() bool {
			// ... and the fid works: a request that satisfies the rules reaches the implementation
			n := len(s.fs.Log)
			r := s.c.Rpc(&wire.Msg{Type: wire.Topen, Tag: s.tag(), Fid: 1, Mode: 0})
			fwd := false
			for _, e := range s.fs.Log[n:] {
				if e.Kind == "call" && e.Op == "Open" {
					fwd = true
				}
			}
			return r == nil || r.Type != wire.Ropen || !fwd
		}():
			bad = fmt.Sprintf("fid 1 was bound again (Rwalk) while a %s on the old fid 1 was still held; once that %s completed, a Topen on the new fid 1 is not forwarded / not answered with Ropen", held, held)
			return
		case rebound && got != "valid:"+to:
			bad = fmt.Sprintf("fid 1 was bound again (Rwalk) while a %s on the old fid 1 was still held; once that %s completed, Tstat on fid 1 answers %q", held, held, got)
			return
		case !rebound && dropped && got != "unknown fid":
			bad = fmt.Sprintf("fid 1 was %sed (acknowledged), binding it again was refused (%s); after the held %s completed Tstat on fid 1 answers %q", drop, rb.Ename, held, got)
			return
		}
		if !rebound && dropped {
			if r := s.c.Rpc(twalk(s.tag(), 0, 1, to)); r == nil || r.Type != wire.Rwalk {
				bad = fmt.Sprintf("after the %s and the completion of the held %s the number 1 still cannot be bound: %v", drop, held, r)
				return
			}
		}
		// disconnect: everything shown is destroyed exactly once
		s.c.End.Close()
		vs.Idle()
		destroyed := map[int]int{}
		for _, e := range s.fs.Log {
			if e.Kind == "destroy" && e.Token != 0 {
				destroyed[e.Token]++
			}
		}
		for tok, conn := range s.fs.tokenConn {
			if conn != 0 {
				continue
			}
			if destroyed[tok] != 1 {
				bad = fmt.Sprintf("after the disconnect FidDestroy was reported %d times for a fid the implementation had been shown (token %d; held %s, %s, number bound again: %v)\n%s", destroyed[tok], tok, held, drop, rebound, s.fs.logString())
				return
			}
		}
	}
	x := vs.Run(nil, body, vs.Options{})
	if len(x.Panics) > 0 {
		return "panic: " + x.Panics[0].Value + " in " + x.Panics[0].Frame
	}
	if len(x.Fails) > 0 && bad == "" {
		return "harness: " + x.Fails[0]
	}
	return bad
}

func heldAcrossClunkScenario(prop string) Scenario {
	return Scenario{Name: "held-request-across-clunk-and-rebind", Run: func(rc *RunCtx) *Result {
		res := &Result{Exhaustive: true}
		seen := map[string]bool{}
		for _, held := range []string{"read", "stat", "walk", "write"} {
			for _, drop := range []string{"clunk", "remove"} {
				for _, dotu := range []bool{false, true} {
					for _, mp := range []int{0, 2} {
						bad := heldAcrossClunk(held, drop, dotu, mp)
						res.Evals++
						res.Nontrivial++
						res.States++
						res.Traces++
						res.Transitions += 7
						if bad != "" {
							sig := prop + "/held-across-" + drop + "/" + sigWords(bad)
							if !seen[sig] {
								seen[sig] = true
								res.Findings = append(res.Findings, Finding{Sig: sig, Msg: fmt.Sprintf("held %s, %s, dotu=%v, maxpend=%d: %s", held, drop, dotu, mp, bad)})
							}
						}
					}
				}
			}
		}
		res.Samples = append(res.Samples, "request held on fid 1 (read/stat/walk/write) x Tclunk/Tremove of fid 1 x number bound again x held request completes x probes x disconnect, both dialects, Maxpend 0/2")
		return res
	}}
}

// c04DuringDestroy: the implementation is slow inside FidDestroy (after Tclunk or
// Tremove of fid 1). Requests that name the fid meanwhile are refused and never reach
// the implementation - its destruction has been reported; once FidDestroy has returned
// the number is bound again and the new fid stays usable whatever happened in between.
func c04DuringDestroy(prop string) Scenario {
	return Scenario{Name: "requests naming a fid while the implementation is inside its FidDestroy", Run: func(rc *RunCtx) *Result {
		res := &Result{Exhaustive: true}
		seen := map[string]bool{}
		for _, drop := range []string{"clunk", "remove"} {
			for _, probe := range []string{"stat", "walk", "clunk", "read"} {
				for _, keep := range []bool{false, true} {
					for _, dotu := range []bool{false, true} {
						var bad string
						body := func() {
							s := newSess(SrvOpt{Msize: 256, Dotu: dotu, Maxpend: 1})
							s.rpcOK(twalk(s.tag(), 0, 1, "d", "h"), wire.Rwalk)
							if probe == "read" {
								s.rpcOK(&wire.Msg{Type: wire.Topen, Tag: s.tag(), Fid: 1, Mode: 0}, wire.Ropen)
							}
							g := vs.NewSem(0)
							s.fs.Script[reqKey{0, 100, 0}] = &Action{DestroyGate: g}
							typ := uint8(wire.Tclunk)
							if drop == "remove" {
								typ = wire.Tremove
							}
							n0 := len(s.fs.Log)
							s.c.Send(dotu, &wire.Msg{Type: typ, Tag: 100, Fid: 1})
							vs.Idle() // the implementation is inside FidDestroy now (or about to be told)
							var pm *wire.Msg
							switch probe {
							case "stat":
								pm = &wire.Msg{Type: wire.Tstat, Tag: 101, Fid: 1}
							case "walk":
								pm = twalk(101, 1, 7)
							case "clunk":
								pm = &wire.Msg{Type: wire.Tclunk, Tag: 101, Fid: 1}
							case "read":
								pm = &wire.Msg{Type: wire.Tread, Tag: 101, Fid: 1, Count: 4}
							}
							kg := vs.NewSem(0)
							if keep {
								s.fs.Script[reqKey{0, 101, 0}] = &Action{Gate: kg}
							}
							s.c.Send(dotu, pm)
							vs.Idle()
							g.Release()
							vs.Idle()
							for _, e := range s.fs.Log[n0:] {
								if e.Kind == "call" && e.Tag == 101 {
									bad = fmt.Sprintf("a T%s naming fid 1 reached the implementation (%s) although FidDestroy had been reported for that fid (it was still running)", probe, e.Op)
								}
							}
							// the number is free: bind it again, then let whatever was kept finish
							if r := s.c.Rpc(twalk(102, 0, 1, "f")); bad == "" && (r == nil || r.Type != wire.Rwalk) {
								bad = fmt.Sprintf("after Rclunk and the end of FidDestroy the fid number cannot be bound again: %v", r)
							}
							kg.Release()
							vs.Idle()
							if r := s.c.Rpc(&wire.Msg{Type: wire.Tstat, Tag: 103, Fid: 1}); bad == "" && (r == nil || r.Type != wire.Rstat) {
								bad = fmt.Sprintf("the fid bound to the number after the old one was destroyed answers Tstat with %v", r)
							}
							nd := 0
							for _, e := range s.fs.Log[n0:] {
								if e.Kind == "destroy" {
									nd++
								}
							}
							if bad == "" && nd != 1 {
								bad = fmt.Sprintf("FidDestroy was reported %d times", nd)
							}
						}
						x := vs.Run(nil, body, vs.Options{Horizon: 100000000})
						res.Evals++
						res.Nontrivial++
						res.States++
						res.Traces++
						if len(x.Panics) > 0 {
							bad = "panic: " + x.Panics[0].Value
						} else if len(x.Fails) > 0 && bad == "" {
							bad = "harness: " + x.Fails[0]
						}
						if bad != "" {
							sig := prop + "/during-destroy/" + sigWords(bad)
							if !seen[sig] {
								seen[sig] = true
								res.Findings = append(res.Findings, Finding{Sig: sig, Msg: fmt.Sprintf("T%s then T%s (kept by the implementation if it gets there: %v), dotu=%v: %s", drop, probe, keep, dotu, bad)})
							}
						}
					}
				}
			}
		}
		return res
	}}
}

// c04DisconnectDuringBind: a request that binds a fid (Tattach, complete Twalk to a new
// fid, Tauth) is inside the implementation when the client disconnects, and succeeds
// afterwards. The implementation was shown the fid: it is told of its destruction
// exactly once, as for every other fid of the connection.
func c04DisconnectDuringBind(prop string) Scenario {
	return Scenario{Name: "disconnect while a request that binds a fid is inside the implementation", Run: func(rc *RunCtx) *Result {
		res := &Result{Exhaustive: true}
		seen := map[string]bool{}
		for _, kind := range []string{"attach", "walk", "auth", "walk-failing"} {
			for _, dotu := range []bool{false, true} {
				var bad string
				body := func() {
					s := newSess(SrvOpt{Msize: 256, Dotu: dotu, Maxpend: 1, Auth: kind == "auth"})
					g := vs.NewSem(0)
					act := &Action{Gate: g}
					var m *wire.Msg
					switch kind {
					case "attach":
						m = tattach(100, 5, wire.NOFID, "glenda", 7, dotu)
					case "walk":
						m = twalk(100, 0, 5, "d", "h")
					case "walk-failing":
						m = twalk(100, 0, 5, "d", "h")
						act.Err = "refused after the disconnect"
					case "auth":
						m = &wire.Msg{Type: wire.Tauth, Tag: 100, Afid: 5, Uname: "glenda", NUname: 7, HasNUname: dotu}
						s.fs.AuthReadGate = nil
					}
					s.fs.Script[reqKey{0, 100, 0}] = act
					s.c.Send(dotu, m)
					vs.Idle()
					s.c.End.Close()
					vs.Idle()
					g.Release()
					vs.Idle()
					destroyed := map[int]int{}
					for _, e := range s.fs.Log {
						if e.Kind == "destroy" && e.Token != 0 {
							destroyed[e.Token]++
						}
					}
					for tok, conn := range s.fs.tokenConn {
						if conn != 0 {
							continue
						}
						if n := destroyed[tok]; n != 1 {
							bad = fmt.Sprintf("a fid the implementation was shown (token %d) was reported destroyed %d times after the disconnect\n%s", tok, n, s.fs.logString())
						}
					}
				}
				x := vs.Run(nil, body, vs.Options{Horizon: 100000000})
				res.Evals++
				res.Nontrivial++
				res.States++
				res.Traces++
				if len(x.Panics) > 0 {
					bad = "panic: " + x.Panics[0].Value
				} else if len(x.Fails) > 0 && bad == "" {
					bad = "harness: " + x.Fails[0]
				}
				if bad != "" {
					sig := prop + "/disconnect-during-bind/" + kind + "/" + sigWords(bad)
					if !seen[sig] {
						seen[sig] = true
						res.Findings = append(res.Findings, Finding{Sig: sig, Msg: fmt.Sprintf("T%s parked in the implementation, disconnect, then it answers (dotu=%v): %s", kind, dotu, bad)})
					}
				}
			}
		}
		return res
	}}
}

// c04UfsValidity: the same rule on the bundled Unix file server, whose operations take
// references of their own (a hard-link create names a second fid in its extension):
// every sequence of `depth` requests over a small alphabet; after each request a Tstat
// probe on every fid number must answer exactly for the fids the history made valid,
// and re-binding a number works exactly when it is free.
func c04UfsValidity(dotu bool, depth int) Scenario {
	name := fmt.Sprintf("ufs-fid-validity dotu=%v depth=%d", dotu, depth)
	return Scenario{Name: name, Run: func(rc *RunCtx) *Result {
		res := &Result{Exhaustive: true, Bounds: map[string]any{"depth": depth}}
		base, root := scratchDir("c04")
		defer os.RemoveAll(base)
		type ev struct {
			name string
			msg  func() *wire.Msg
			// effect on the set of valid fids when the reply is a success
			add, del int // fid numbers (-1 = none)
			host     func() // not a request: something the host does to the tree
		}
		link := func(n string, ext string) func() *wire.Msg {
			return func() *wire.Msg {
				return &wire.Msg{Type: wire.Tcreate, Fid: 1, Name: n, Perm: go9p.DMLINK | 0644, Mode: 0, Ext: ext}
			}
		}
		alpha := []ev{
			{name: "walk 0->1 d", msg: func() *wire.Msg { return twalk(0, 0, 1, "d") }, add: 1, del: -1},
			{name: "walk 0->2 f", msg: func() *wire.Msg { return twalk(0, 0, 2, "f") }, add: 2, del: -1},
			{name: "walk 0->3 d", msg: func() *wire.Msg { return twalk(0, 0, 3, "d") }, add: 3, del: -1},
			{name: "walk 0->2 ln (a symbolic link)", msg: func() *wire.Msg { return twalk(0, 0, 2, "ln") }, add: 2, del: -1},
			{name: "clunk 1", msg: func() *wire.Msg { return &wire.Msg{Type: wire.Tclunk, Fid: 1} }, add: -1, del: 1},
			{name: "clunk 2", msg: func() *wire.Msg { return &wire.Msg{Type: wire.Tclunk, Fid: 2} }, add: -1, del: 2},
			{name: "clunk 3", msg: func() *wire.Msg { return &wire.Msg{Type: wire.Tclunk, Fid: 3} }, add: -1, del: 3},
		}
		alpha = append(alpha, ev{name: "the host removes f", add: -1, del: -1, host: func() { os.Remove(filepath.Join(root, "f")) }})
		if dotu {
			alpha = append(alpha,
				ev{name: "link through 1 to fid 2 (a file)", msg: link("hl", "2"), add: -1, del: -1},
				ev{name: "link through 1 to fid 3 (a directory: refused)", msg: link("hd", "3"), add: -1, del: -1},
				ev{name: "link through 1 to fid 7 (unknown)", msg: link("hu", "7"), add: -1, del: -1},
				ev{name: "link through 1 to fid 1 (itself)", msg: link("hs", "1"), add: -1, del: -1},
				ev{name: "link through 1 to 2^32+2 (no fid number)", msg: link("hb", "4294967298"), add: -1, del: -1},
				ev{name: "symlink through 1", msg: func() *wire.Msg {
					return &wire.Msg{Type: wire.Tcreate, Fid: 1, Name: "sl", Perm: go9p.DMSYMLINK | 0777, Mode: 0, Ext: "f"}
				}, add: -1, del: -1})
		} else {
			alpha = append(alpha, ev{name: "create through 1", msg: func() *wire.Msg { return &wire.Msg{Type: wire.Tcreate, Fid: 1, Name: "nf", Perm: 0644, Mode: 1} }, add: -1, del: -1},
				ev{name: "remove 2", msg: func() *wire.Msg { return &wire.Msg{Type: wire.Tremove, Fid: 2} }, add: -1, del: 2})
		}
		seen := map[string]bool{}
		idx := make([]int, depth)
		for {
			if rc.Expired() {
				res.Exhaustive = false
				res.CapHit = "internal deadline"
				break
			}
			os.RemoveAll(root)
			os.MkdirAll(filepath.Join(root, "d"), 0o755)
			os.WriteFile(filepath.Join(root, "f"), []byte("x"), 0o644)
			os.Symlink("f", filepath.Join(root, "ln"))
			var bad string
			var hist []string
			body := func() {
				h := newUfsH(root, 8216, dotu)
				cl := h.Connect()
				ver := "9P2000"
				if dotu {
					ver = "9P2000.u"
				}
				cl.Version(8216, ver)
				tag := uint16(1)
				rpc := func(m *wire.Msg) *wire.Msg { tag++; m.Tag = tag; return cl.Rpc(m) }
				un := ""
				if !dotu {
					un = go9p.OsUsers.Uid2User(os.Geteuid()).Name()
				}
				if r := rpc(tattach(0, 0, wire.NOFID, un, uint32(os.Geteuid()), dotu)); r == nil || r.Type != wire.Rattach {
					bad = fmt.Sprintf("attach answered by %v", r)
					return
				}
				// fid 1 starts out on the directory d (the fid through which things are created)
				if r := rpc(twalk(0, 0, 1, "d")); r == nil || r.Type != wire.Rwalk {
					bad = fmt.Sprintf("walk to d answered by %v", r)
					return
				}
				valid := map[int]bool{0: true, 1: true}
				for _, i := range idx {
					e := alpha[i]
					hist = append(hist, e.name)
					if e.host != nil {
						e.host()
						continue
					}
					m := e.msg()
					r := rpc(m)
					if r == nil {
						bad = e.name + " was never answered"
						return
					}
					ok := r.Type == m.Type+1
					if m.Type == wire.Twalk && ok && len(r.Wqid) != len(m.Wname) {
						ok = false
					}
					if m.Type == wire.Tclunk || m.Type == wire.Tremove {
						if valid[int(m.Fid)] {
							delete(valid, int(m.Fid)) // gone whatever the answer
						}
					} else if ok && e.add >= 0 {
						if valid[e.add] {
							bad = fmt.Sprintf("%s succeeded although fid %d was already valid", e.name, e.add)
							return
						}
						valid[e.add] = true
					}
					for f := 0; f <= 3; f++ {
						pr := rpc(&wire.Msg{Type: wire.Tstat, Fid: uint32(f)})
						unknown0 := pr != nil && pr.Type == wire.Rerror && strings.Contains(pr.Ename, "unknown fid")
						// a valid fid whose file the host has removed answers with the host's error, not with "unknown fid"
						isValid := pr != nil && (pr.Type == wire.Rstat || pr.Type == wire.Rerror && !unknown0)
						unknown := pr != nil && pr.Type == wire.Rerror && strings.Contains(pr.Ename, "unknown fid")
						if valid[f] && !isValid {
							bad = fmt.Sprintf("after %v fid %d is valid by the history but Tstat answers %v", hist, f, pr)
							return
						}
						if !valid[f] && !unknown {
							bad = fmt.Sprintf("after %v fid %d is not valid by the history (never bound, or clunked) but Tstat answers %v", hist, f, pr)
							return
						}
					}
				}
			}
			x := vs.Run(nil, body, vs.Options{Horizon: 100000000})
			res.Evals++
			res.Nontrivial++
			res.States++
			res.Traces++
			res.Transitions += int64(depth)
			if len(x.Panics) > 0 {
				bad = "panic: " + x.Panics[0].Value
			}
			if bad != "" {
				sig := "C04/ufs/" + sigWords(bad)
				if !seen[sig] && len(res.Findings) < 6 {
					seen[sig] = true
					res.Findings = append(res.Findings, Finding{Sig: sig, Msg: name + ": " + bad})
				}
			}
			k := depth - 1
			for k >= 0 {
				idx[k]++
				if idx[k] < len(alpha) {
					break
				}
				idx[k] = 0
				k--
			}
			if k < 0 {
				break
			}
		}
		res.Samples = append(res.Samples, fmt.Sprintf("all sequences of %d requests over %d (walks, clunks, creates of links naming a second fid), Tstat probes on fids 0..3 after each", depth, len(alpha)))
		return res
	}}
}

// A request cancelled by Tflush while the implementation holds it must leave the
// fid table as the history without it: its new fid is not valid, the fids it
// named can still be clunked (and are then gone, with exactly one FidDestroy).
func c04CancelledScenario(dotu bool) Scenario {
	return Scenario{Name: fmt.Sprintf("cancelled-requests dotu=%v", dotu), Run: func(rc *RunCtx) *Result {
		res := &Result{Exhaustive: true}
		seen := map[string]bool{}
		kinds := []string{"walk", "walk-in-place", "stat", "read", "open", "attach", "clunk", "create"}
		for _, kind := range kinds {
			var bad string
			body := func() {
				s := newSess(SrvOpt{Msize: 256, Dotu: dotu, Flush: true})
				s.fs.FlushMode = "cancel"
				s.fs.NoLateAnswer = true
				s.rpcOK(twalk(s.tag(), 0, 1, "d"), wire.Rwalk)
				var m *wire.Msg
				newfid := uint32(wire.NOFID)
				switch kind {
				case "walk":
					m, newfid = twalk(50, 1, 2, "h"), 2
				case "walk-in-place":
					m = twalk(50, 1, 1, "h")
				case "stat":
					m = &wire.Msg{Type: wire.Tstat, Tag: 50, Fid: 1}
				case "read":
					m = &wire.Msg{Type: wire.Tread, Tag: 50, Fid: 1, Count: 8}
				case "open":
					m = &wire.Msg{Type: wire.Topen, Tag: 50, Fid: 1, Mode: 0}
				case "attach":
					m, newfid = tattach(50, 2, wire.NOFID, "glenda", 7, dotu), 2
				case "clunk":
					m = &wire.Msg{Type: wire.Tclunk, Tag: 50, Fid: 1}
				case "create":
					m = &wire.Msg{Type: wire.Tcreate, Tag: 50, Fid: 1, Name: "cx", Perm: 0644, Mode: 1}
				}
				gate := vs.NewSem(0)
				s.fs.Script[reqKey{0, 50, 0}] = &Action{Gate: gate}
				s.c.Send(dotu, m)
				vs.Idle()
				if r := s.c.Rpc(&wire.Msg{Type: wire.Tflush, Tag: 51, Oldtag: 50}); r == nil || r.Type != wire.Rflush {
					bad = fmt.Sprintf("Tflush answered by %v", r)
					return
				}
				gate.Release()
				vs.Idle()
				stat := func(f uint32) string {
					r := s.c.Rpc(&wire.Msg{Type: wire.Tstat, Tag: s.tag(), Fid: f})
					switch {
					case r == nil:
						return "none"
					case r.Type == wire.Rstat:
						return "valid:" + r.Stat.Name
					}
					return r.Ename
				}
				if newfid != wire.NOFID {
					if got := stat(newfid); got != "unknown fid" {
						bad = fmt.Sprintf("the new fid of a cancelled %s is %q, the history never made it valid", kind, got)
						return
					}
					// and the number is free
					if r := s.c.Rpc(twalk(s.tag(), 0, newfid, "f")); r == nil || r.Type != wire.Rwalk {
						bad = fmt.Sprintf("binding the fid number of a cancelled %s answered %v", kind, r)
						return
					}
				}
				if kind == "clunk" {
					return // either outcome of a cancelled clunk is allowed
				}
				if got := stat(1); !strings.HasPrefix(got, "valid:d") {
					bad = fmt.Sprintf("after a cancelled %s the fid it named is %q, it was bound to 'd' and nothing completed", kind, got)
					return
				}
				if r := s.c.Rpc(&wire.Msg{Type: wire.Tclunk, Tag: s.tag(), Fid: 1}); r == nil || r.Type != wire.Rclunk {
					bad = fmt.Sprintf("Tclunk after a cancelled %s answered %v", kind, r)
					return
				}
				if got := stat(1); got != "unknown fid" {
					bad = fmt.Sprintf("after a cancelled %s and a successful Tclunk the fid is still %q", kind, got)
					return
				}
				n := 0
				for _, e := range s.fs.Log {
					if e.Kind == "destroy" && e.Token == 2 {
						n++
					}
				}
				if n != 1 {
					bad = fmt.Sprintf("after a cancelled %s and a Tclunk, FidDestroy was reported %d times for the fid", kind, n)
				}
			}
			x := vs.Run(nil, body, vs.Options{})
			res.Evals++
			res.Nontrivial++
			res.States++
			res.Transitions += 6
			res.Traces++
			if len(x.Panics) > 0 {
				bad = "panic: " + x.Panics[0].Value + " in " + x.Panics[0].Frame
			}
			if len(x.Fails) > 0 {
				bad = x.Fails[0]
			}
			if bad != "" {
				sig := "C04/cancelled/" + sigWords(bad)
				if !seen[sig] {
					seen[sig] = true
					res.Findings = append(res.Findings, Finding{Sig: sig, Msg: bad})
				}
			}
		}
		res.Samples = append(res.Samples, "walk to fid 1; request K parked in the implementation; Tflush (FlushOp cancels) -> Rflush; then probes, Tclunk, probes, destroy count; K in "+strings.Join(kinds, ","))
		return res
	}}
}
