package vs

import "time"

// Timers belong to the environment. Under the scheduler a timer's channel is ready
// from the start: wherever the code waits for "the timer or something else", both
// outcomes are explored (select-case choices are scheduling choices), and a plain
// receive from the channel returns at once - the timer may land arbitrarily early
// compared with everything else the program does, which covers every real duration.
// Outside the scheduler these are the functions of package time.
type Timer struct {
	C <-chan time.Time
	c chan time.Time
	t *time.Timer
}

func ready() chan time.Time {
	c := make(chan time.Time, 1)
	Send(c, time.Time{})
	return c
}

func NewTimer(d time.Duration) *Timer {
	if ex == nil || ex.dead {
		t := time.NewTimer(d)
		return &Timer{C: t.C, t: t}
	}
	c := ready()
	return &Timer{C: c, c: c}
}

func (t *Timer) Stop() bool {
	if t.t != nil {
		return t.t.Stop()
	}
	return false
}

func (t *Timer) Reset(d time.Duration) bool {
	if t.t != nil {
		return t.t.Reset(d)
	}
	if Len(t.c) == 0 {
		Send(t.c, time.Time{})
	}
	return false
}

func After(d time.Duration) <-chan time.Time {
	if ex == nil || ex.dead {
		return time.After(d)
	}
	return ready()
}

func Sleep(d time.Duration) {
	if ex == nil || ex.dead {
		time.Sleep(d)
		return
	}
	Yield()
}

func AfterFunc(d time.Duration, f func()) *Timer {
	if ex == nil || ex.dead {
		return &Timer{t: time.AfterFunc(d, f)}
	}
	Go("timer", f)
	return &Timer{}
}
