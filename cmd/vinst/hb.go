package main

import (
	"fmt"
	"go/ast"
	"go/token"
	"go/types"
	"path/filepath"
	"strconv"
)

// hbrw adds memory-access tracking for the happens-before monitor (C19). It
// runs after the synchronisation lowering. Every read or write of memory that
// another goroutine could reach - fields reached through a pointer, package
// level variables, slice elements, maps, dereferences, copy/append/string
// ranges, buffers handed to Read/Write - is routed through vs.Rd / vs.Wr /
// vs.MR / vs.MW / vs.Copy / vs.IORead / vs.IOWrite. Local variables that are
// accessed by name are not tracked.
type hbrw struct {
	r     *rw
	pos   token.Pos
	count int
}

func newHB(r *rw) *hbrw { return &hbrw{r: r} }

func (h *hbrw) site() ast.Expr {
	p := h.r.fset.Position(h.pos)
	return &ast.BasicLit{Kind: token.STRING, Value: strconv.Quote(fmt.Sprintf("%s:%d", filepath.Base(p.Filename), p.Line))}
}

func (h *hbrw) at(n ast.Node) {
	if n != nil && n.Pos().IsValid() {
		h.pos = n.Pos()
	}
}

func (h *hbrw) vs(fn string, args ...ast.Expr) *ast.CallExpr {
	h.count++
	return h.r.vs(fn, append(args, h.site())...)
}

func (h *hbrw) typeOf(e ast.Expr) types.Type { return h.r.typeOf(e) }

func deref(e ast.Expr) ast.Expr { return &ast.ParenExpr{X: &ast.StarExpr{X: e}} }
func addrOf(e ast.Expr) ast.Expr { return &ast.UnaryExpr{Op: token.AND, X: e} }

func (h *hbrw) file(f *ast.File) {
	for _, d := range f.Decls {
		if fd, ok := d.(*ast.FuncDecl); ok && fd.Body != nil {
			h.block(fd.Body)
		}
	}
}

func (h *hbrw) block(b *ast.BlockStmt) {
	if b == nil {
		return
	}
	for i, s := range b.List {
		b.List[i] = h.stmt(s)
	}
}

func (h *hbrw) isPkgVar(id *ast.Ident) bool {
	if id.Name == "_" {
		return false
	}
	v, ok := h.r.info.Uses[id].(*types.Var)
	if !ok {
		return false
	}
	return !v.IsField() && v.Parent() == h.r.pkg.Scope()
}

// shared reports whether the (original) expression designates memory that
// another goroutine could reach.
func (h *hbrw) shared(e ast.Expr) bool {
	switch x := e.(type) {
	case *ast.ParenExpr:
		return h.shared(x.X)
	case *ast.Ident:
		return h.isPkgVar(x)
	case *ast.StarExpr:
		return true
	case *ast.SelectorExpr:
		sel := h.r.info.Selections[x]
		if sel == nil || sel.Kind() != types.FieldVal {
			return false
		}
		return sel.Indirect() || h.shared(x.X)
	case *ast.IndexExpr:
		t := h.typeOf(x.X)
		if t == nil {
			return false
		}
		switch u := t.Underlying().(type) {
		case *types.Slice:
			return true
		case *types.Pointer:
			_ = u
			return true
		case *types.Array:
			return h.shared(x.X)
		}
	}
	return false
}

func isPointer(t types.Type) bool {
	if t == nil {
		return false
	}
	_, ok := t.Underlying().(*types.Pointer)
	return ok
}

// addr rewrites the operands of an address computation without recording an
// access to the designated object itself.
func (h *hbrw) addr(e ast.Expr) ast.Expr {
	switch x := e.(type) {
	case *ast.ParenExpr:
		x.X = h.addr(x.X)
		return x
	case *ast.Ident:
		return x
	case *ast.SelectorExpr:
		sel := h.r.info.Selections[x]
		if sel == nil || sel.Kind() != types.FieldVal {
			return h.rd(e)
		}
		if isPointer(h.typeOf(x.X)) {
			x.X = h.rd(x.X)
		} else {
			x.X = h.addr(x.X)
		}
		return x
	case *ast.IndexExpr:
		t := h.typeOf(x.X)
		if t != nil {
			if _, isArr := t.Underlying().(*types.Array); isArr {
				x.X = h.addr(x.X)
				x.Index = h.rd(x.Index)
				return x
			}
			if _, isMap := t.Underlying().(*types.Map); isMap {
				return h.rd(e)
			}
		}
		x.X = h.rd(x.X)
		x.Index = h.rd(x.Index)
		return x
	case *ast.StarExpr:
		x.X = h.rd(x.X)
		return x
	}
	return h.rd(e)
}

func (h *hbrw) isTypeExpr(e ast.Expr) bool {
	if tv, ok := h.r.info.Types[e]; ok {
		return tv.IsType()
	}
	return false
}

// rd rewrites an expression evaluated for its value.
func (h *hbrw) rd(e ast.Expr) ast.Expr {
	if e == nil {
		return nil
	}
	switch x := e.(type) {
	case *ast.Ident:
		if h.isPkgVar(x) {
			return deref(h.vs("Rd", addrOf(x)))
		}
		return x
	case *ast.ParenExpr:
		if h.isTypeExpr(x) {
			return x
		}
		x.X = h.rd(x.X)
		return x
	case *ast.FuncLit:
		save := h.pos
		h.block(x.Body)
		h.pos = save
		return x
	case *ast.SelectorExpr:
		sel := h.r.info.Selections[x]
		if sel == nil {
			return x // qualified identifier
		}
		if sel.Kind() != types.FieldVal {
			x.X = h.recv(x.X, sel)
			return x
		}
		sh := h.shared(x)
		n := h.addr(x)
		if sh {
			return deref(h.vs("Rd", addrOf(n)))
		}
		return n
	case *ast.IndexExpr:
		t := h.typeOf(x.X)
		if t == nil {
			x.X = h.rd(x.X)
			x.Index = h.rd(x.Index)
			return x
		}
		switch t.Underlying().(type) {
		case *types.Map:
			x.X = h.vs("MR", h.rd(x.X))
			x.Index = h.rd(x.Index)
			return x
		case *types.Slice, *types.Pointer:
			x.X = h.rd(x.X)
			x.Index = h.rd(x.Index)
			return deref(h.vs("Rd", addrOf(x)))
		case *types.Array:
			sh := h.shared(x)
			x.X = h.addr(x.X)
			x.Index = h.rd(x.Index)
			if sh {
				return deref(h.vs("Rd", addrOf(x)))
			}
			return x
		case *types.Signature:
			return x // generic instantiation
		}
		x.X = h.rd(x.X)
		x.Index = h.rd(x.Index)
		return x
	case *ast.SliceExpr:
		if t := h.typeOf(x.X); t != nil {
			if _, isArr := t.Underlying().(*types.Array); isArr {
				x.X = h.addr(x.X)
			} else {
				x.X = h.rd(x.X)
			}
		} else {
			x.X = h.rd(x.X)
		}
		x.Low, x.High, x.Max = h.rd(x.Low), h.rd(x.High), h.rd(x.Max)
		return x
	case *ast.StarExpr:
		if h.isTypeExpr(x) {
			return x
		}
		return deref(h.vs("Rd", h.rd(x.X)))
	case *ast.UnaryExpr:
		if x.Op == token.AND {
			if cl, ok := x.X.(*ast.CompositeLit); ok {
				x.X = h.rd(cl)
				return x
			}
			x.X = h.addr(x.X)
			return x
		}
		x.X = h.rd(x.X)
		return x
	case *ast.BinaryExpr:
		x.X, x.Y = h.rd(x.X), h.rd(x.Y)
		return x
	case *ast.CallExpr:
		return h.call(x)
	case *ast.CompositeLit:
		isStruct := false
		if t := h.typeOf(x); t != nil {
			_, isStruct = t.Underlying().(*types.Struct)
		}
		for i, el := range x.Elts {
			if kv, ok := el.(*ast.KeyValueExpr); ok {
				if !isStruct {
					kv.Key = h.rd(kv.Key)
				}
				kv.Value = h.rd(kv.Value)
			} else {
				x.Elts[i] = h.rd(el)
			}
		}
		return x
	case *ast.TypeAssertExpr:
		x.X = h.rd(x.X)
		return x
	case *ast.KeyValueExpr:
		x.Value = h.rd(x.Value)
		return x
	}
	return e
}

// recv rewrites the receiver operand of a method call or method value.
func (h *hbrw) recv(x ast.Expr, sel *types.Selection) ast.Expr {
	fn, _ := sel.Obj().(*types.Func)
	ptrRecv := false
	if fn != nil {
		if sig, ok := fn.Type().(*types.Signature); ok && sig.Recv() != nil {
			ptrRecv = isPointer(sig.Recv().Type())
		}
	}
	if ptrRecv && !isPointer(h.typeOf(x)) {
		return h.addr(x) // implicit &x
	}
	if sel.Indirect() && !isPointer(h.typeOf(x)) {
		return h.addr(x)
	}
	return h.rd(x)
}

func (h *hbrw) builtin(id *ast.Ident) string {
	if _, ok := h.r.info.Uses[id].(*types.Builtin); ok {
		return id.Name
	}
	return ""
}

func isByteSlice(t types.Type) bool {
	if t == nil {
		return false
	}
	s, ok := t.Underlying().(*types.Slice)
	if !ok {
		return false
	}
	b, ok := s.Elem().Underlying().(*types.Basic)
	return ok && (b.Kind() == types.Uint8)
}

func isString(t types.Type) bool {
	if t == nil {
		return false
	}
	b, ok := t.Underlying().(*types.Basic)
	return ok && b.Info()&types.IsString != 0
}

func (h *hbrw) call(c *ast.CallExpr) ast.Expr {
	// conversions
	if h.isTypeExpr(c.Fun) {
		if len(c.Args) == 1 {
			at := h.typeOf(c.Args[0])
			arg := h.rd(c.Args[0])
			if isString(h.typeOf(c)) && isByteSlice(at) {
				return h.vs("StrOf", arg)
			}
			c.Args[0] = arg
		}
		return c
	}
	if id, ok := c.Fun.(*ast.Ident); ok {
		switch h.builtin(id) {
		case "copy":
			st := h.typeOf(c.Args[1])
			d, s := h.rd(c.Args[0]), h.rd(c.Args[1])
			if isString(st) {
				return h.vs("CopyStr", d, s)
			}
			return h.vs("Copy", d, s)
		case "append":
			for i := range c.Args {
				last := i == len(c.Args)-1
				t := h.typeOf(c.Args[i])
				c.Args[i] = h.rd(c.Args[i])
				if last && c.Ellipsis.IsValid() && t != nil && i > 0 {
					if _, isSl := t.Underlying().(*types.Slice); isSl {
						c.Args[i] = h.vs("RangeR", c.Args[i])
					}
				}
			}
			return c
		case "delete":
			c.Args[0] = h.vs("MW", h.rd(c.Args[0]))
			c.Args[1] = h.rd(c.Args[1])
			return c
		case "len":
			if t := h.typeOf(c.Args[0]); t != nil {
				if _, isMap := t.Underlying().(*types.Map); isMap {
					c.Args[0] = h.vs("MR", h.rd(c.Args[0]))
					return c
				}
			}
			c.Args[0] = h.rd(c.Args[0])
			return c
		case "":
		default:
			for i, a := range c.Args {
				if !h.isTypeExpr(a) {
					c.Args[i] = h.rd(a)
				}
			}
			return c
		}
	}
	// calls into the scheduler runtime generated by the lowering
	if se, ok := c.Fun.(*ast.SelectorExpr); ok {
		if pk, ok := se.X.(*ast.Ident); ok && pk.Name == "vs" && h.r.info.Uses[pk] == nil && h.r.info.Selections[se] == nil {
			for i, a := range c.Args {
				if se.Sel.Name == "SortedKeys" && i == 0 {
					c.Args[i] = h.vs("MR", h.rd(a))
					continue
				}
				c.Args[i] = h.rd(a)
			}
			return c
		}
	}
	ioKind := ""
	switch f := c.Fun.(type) {
	case *ast.SelectorExpr:
		sel := h.r.info.Selections[f]
		switch {
		case sel == nil: // pkg.Func
		case sel.Kind() == types.FieldVal:
			c.Fun = h.rd(f)
		default:
			// a Read/Write style method of a type that lives outside the package
			if fn, ok := sel.Obj().(*types.Func); ok && fn.Pkg() != h.r.pkg {
				switch fn.Name() {
				case "Read", "ReadAt":
					ioKind = "IORead"
				case "Write", "WriteAt":
					ioKind = "IOWrite"
				}
				// the transport (net.Conn) is a scheduling point already; file I/O becomes one
				if ioKind != "" && fn.Pkg() != nil && fn.Pkg().Path() != "net" {
					ioKind += "P"
				}
			}
			f.X = h.recv(f.X, sel)
		}
	case *ast.Ident:
	default:
		c.Fun = h.rd(c.Fun)
	}
	for i, a := range c.Args {
		t := h.typeOf(a)
		c.Args[i] = h.rd(a)
		if ioKind != "" && i == 0 && isByteSlice(t) {
			c.Args[i] = h.vs(ioKind, c.Args[i])
		}
	}
	return c
}

// lv rewrites an assignment target.
func (h *hbrw) lv(e ast.Expr) ast.Expr {
	switch x := e.(type) {
	case *ast.Ident:
		if h.isPkgVar(x) {
			return deref(h.vs("Wr", addrOf(x)))
		}
		return x
	case *ast.ParenExpr:
		x.X = h.lv(x.X)
		return x
	case *ast.SelectorExpr:
		sel := h.r.info.Selections[x]
		if sel == nil || sel.Kind() != types.FieldVal {
			return x
		}
		sh := h.shared(x)
		n := h.addr(x)
		if sh {
			return deref(h.vs("Wr", addrOf(n)))
		}
		return n
	case *ast.IndexExpr:
		t := h.typeOf(x.X)
		if t != nil {
			switch t.Underlying().(type) {
			case *types.Map:
				x.X = h.vs("MW", h.rd(x.X))
				x.Index = h.rd(x.Index)
				return x
			case *types.Array:
				sh := h.shared(x)
				x.X = h.addr(x.X)
				x.Index = h.rd(x.Index)
				if sh {
					return deref(h.vs("Wr", addrOf(x)))
				}
				return x
			}
		}
		x.X = h.rd(x.X)
		x.Index = h.rd(x.Index)
		if t == nil {
			return x
		}
		return deref(h.vs("Wr", addrOf(x)))
	case *ast.StarExpr:
		return deref(h.vs("Wr", h.rd(x.X)))
	}
	return e
}

func (h *hbrw) isOutputCall(e ast.Expr) bool {
	c, ok := e.(*ast.CallExpr)
	if !ok {
		return false
	}
	se, ok := c.Fun.(*ast.SelectorExpr)
	if !ok {
		return false
	}
	pk, ok := se.X.(*ast.Ident)
	if !ok {
		return false
	}
	pn, ok := h.r.info.Uses[pk].(*types.PkgName)
	if !ok {
		return false
	}
	switch pn.Imported().Path() {
	case "log":
		return true
	case "fmt":
		return len(se.Sel.Name) > 5 && se.Sel.Name[:5] == "Print"
	}
	return false
}

func (h *hbrw) stmt(s ast.Stmt) ast.Stmt {
	if s == nil {
		return nil
	}
	h.at(s)
	switch x := s.(type) {
	case *ast.BlockStmt:
		h.block(x)
	case *ast.ExprStmt:
		out := h.isOutputCall(x.X)
		x.X = h.rd(x.X)
		if out {
			h.count++
			return &ast.BlockStmt{List: []ast.Stmt{&ast.ExprStmt{X: h.r.vs("IORelease")}, x}}
		}
	case *ast.AssignStmt:
		for i := range x.Rhs {
			x.Rhs[i] = h.rd(x.Rhs[i])
		}
		if x.Tok != token.DEFINE {
			for i := range x.Lhs {
				x.Lhs[i] = h.lv(x.Lhs[i])
			}
		}
	case *ast.IncDecStmt:
		x.X = h.lv(x.X)
	case *ast.DeferStmt:
		if n, ok := h.rd(x.Call).(*ast.CallExpr); ok {
			x.Call = n
		}
	case *ast.GoStmt:
		if n, ok := h.rd(x.Call).(*ast.CallExpr); ok {
			x.Call = n
		}
	case *ast.ReturnStmt:
		for i := range x.Results {
			x.Results[i] = h.rd(x.Results[i])
		}
	case *ast.IfStmt:
		x.Init = h.stmt(x.Init)
		h.at(x)
		x.Cond = h.rd(x.Cond)
		h.block(x.Body)
		x.Else = h.stmt(x.Else)
	case *ast.ForStmt:
		x.Init = h.stmt(x.Init)
		h.at(x)
		x.Cond = h.rd(x.Cond)
		x.Post = h.stmt(x.Post)
		h.block(x.Body)
	case *ast.RangeStmt:
		t := h.typeOf(x.X)
		x.X = h.rd(x.X)
		if t != nil {
			switch u := t.Underlying().(type) {
			case *types.Slice:
				x.X = h.vs("RangeR", x.X)
			case *types.Map:
				_ = u
				x.X = h.vs("MR", x.X)
			}
		}
		if x.Tok == token.ASSIGN {
			if x.Key != nil {
				x.Key = h.lv(x.Key)
			}
			if x.Value != nil {
				x.Value = h.lv(x.Value)
			}
		}
		h.block(x.Body)
	case *ast.SwitchStmt:
		x.Init = h.stmt(x.Init)
		h.at(x)
		x.Tag = h.rd(x.Tag)
		for _, cc := range x.Body.List {
			cl := cc.(*ast.CaseClause)
			for i := range cl.List {
				cl.List[i] = h.rd(cl.List[i])
			}
			for i := range cl.Body {
				cl.Body[i] = h.stmt(cl.Body[i])
			}
		}
	case *ast.TypeSwitchStmt:
		x.Init = h.stmt(x.Init)
		switch a := x.Assign.(type) {
		case *ast.ExprStmt:
			if ta, ok := a.X.(*ast.TypeAssertExpr); ok {
				ta.X = h.rd(ta.X)
			}
		case *ast.AssignStmt:
			if ta, ok := a.Rhs[0].(*ast.TypeAssertExpr); ok {
				ta.X = h.rd(ta.X)
			}
		}
		for _, cc := range x.Body.List {
			cl := cc.(*ast.CaseClause)
			for i := range cl.Body {
				cl.Body[i] = h.stmt(cl.Body[i])
			}
		}
	case *ast.LabeledStmt:
		x.Stmt = h.stmt(x.Stmt)
	case *ast.DeclStmt:
		if gd, ok := x.Decl.(*ast.GenDecl); ok {
			for _, sp := range gd.Specs {
				if vsp, ok := sp.(*ast.ValueSpec); ok {
					for i := range vsp.Values {
						vsp.Values[i] = h.rd(vsp.Values[i])
					}
				}
			}
		}
	case *ast.SendStmt:
		x.Chan, x.Value = h.rd(x.Chan), h.rd(x.Value)
	case *ast.SelectStmt:
		fatal("%s: select statement left after lowering", h.r.fset.Position(x.Pos()))
	}
	return s
}
