package vs

import (
	"errors"
	"io"
	"net"
	"time"
)

// WriteRec is one transport write, stamped with the execution-global sequence number.
type WriteRec struct {
	Seq  int64
	Off  int // stream offset of the first byte
	Data []byte
}

// stream is one direction of a pipe: an unbounded byte queue owned by the scheduler.
type stream struct {
	id       int
	buf      []byte
	wclosed  bool // writer side closed: reader drains, then EOF
	rclosed  bool // reader side closed: reads fail locally, writes fail
	total    int  // bytes ever written
	Log      []WriteRec
	cutAt    int // >=0: stream is cut after this many bytes (the rest is dropped, writer side closes)
	failAt   int // >=0: the write that would pass this offset fails (bytes up to it are delivered)
	timeoutAt int // >=0: once this many bytes have been read, every Read fails with a timeout error
	readOff  int
	sink     bool // never delivered to a reader, only logged
	waitN    int  // WaitIncoming: number of logged writes waited for
	stallAt  int  // >=0: the write that would pass this offset blocks until either side closes (a peer that stopped reading)
}

// stalled: a write of n bytes cannot proceed (flow control: the peer does not read)
func (s *stream) stalled(n int) bool {
	return s.stallAt >= 0 && s.total+n > s.stallAt && !s.wclosed && !s.rclosed
}

func (s *stream) readable() bool {
	if s.waitN > 0 {
		return len(s.Log) >= s.waitN || s.wclosed || s.rclosed
	}
	return len(s.buf) > 0 || s.wclosed || s.rclosed || s.timedOut()
}

func (s *stream) timedOut() bool { return s.timeoutAt >= 0 && s.readOff >= s.timeoutAt }

// timeoutError is what a socket returns when its read deadline has passed.
type timeoutError struct{}

func (timeoutError) Error() string   { return "i/o timeout" }
func (timeoutError) Timeout() bool   { return true }
func (timeoutError) Temporary() bool { return true }

// SegPolicy decides how many of the n available bytes (n>=1) the next Read
// returns (at most want). It may call Choose.
type SegPolicy func(avail, want int) int

// End is one end of a Pipe; it implements net.Conn.
type End struct {
	name string
	rd   *stream
	wr   *stream
	Seg  SegPolicy
	real net.Conn // passthrough mode
}

type addr string

func (a addr) Network() string { return "vnet" }
func (a addr) String() string  { return string(a) }

// Pipe returns two connected ends. Under the scheduler they are backed by
// scheduler-owned queues; outside an execution they wrap net.Pipe.
func Pipe(nameA, nameB string) (*End, *End) {
	if ex == nil {
		a, b := net.Pipe()
		return &End{name: nameA, real: a}, &End{name: nameB, real: b}
	}
	ab := &stream{id: ex.newObj(), cutAt: -1, failAt: -1, stallAt: -1, timeoutAt: -1}
	ba := &stream{id: ex.newObj(), cutAt: -1, failAt: -1, stallAt: -1, timeoutAt: -1}
	return &End{name: nameA, rd: ba, wr: ab}, &End{name: nameB, rd: ab, wr: ba}
}

// what the real transports answer after a local Close (code may test for it with errors.Is)
var ErrClosed = net.ErrClosed
var ErrPipe = errors.New("vnet: broken pipe")

func (c *End) Read(p []byte) (int, error) {
	if c.real != nil {
		return c.real.Read(p)
	}
	e := ex
	if e == nil || e.dead {
		return 0, io.EOF
	}
	if len(p) == 0 {
		return 0, nil
	}
	e.point(op{kind: KRead, st: c.rd})
	s := c.rd
	if s.rclosed {
		return 0, ErrClosed
	}
	if s.timedOut() {
		return 0, timeoutError{}
	}
	if len(s.buf) == 0 {
		return 0, io.EOF
	}
	n := len(s.buf)
	if n > len(p) {
		n = len(p)
	}
	if s.timeoutAt >= 0 && s.readOff+n > s.timeoutAt {
		n = s.timeoutAt - s.readOff
	}
	if c.Seg != nil {
		k := c.Seg(n, len(p))
		if k >= 1 && k < n {
			n = k
		}
	}
	copy(p, s.buf[:n])
	s.buf = s.buf[n:]
	s.readOff += n
	if e.hb != nil {
		// syscall.Read: race.WriteRange(buffer) + race.Acquire(&ioSync)
		rangeAccess(p[:n], true, "net.Conn.Read")
		e.hb.acquire(e.cur.id, e.hb.ioSync)
	}
	return n, nil
}

func (c *End) Write(p []byte) (int, error) {
	if c.real != nil {
		return c.real.Write(p)
	}
	e := ex
	if e == nil || e.dead {
		return 0, ErrClosed
	}
	e.point(op{kind: KWrite, st: c.wr, wn: len(p)})
	s := c.wr
	if s.wclosed {
		return 0, ErrClosed
	}
	if s.rclosed {
		return 0, ErrPipe
	}
	if e.hb != nil {
		// syscall.Write: race.ReadRange(buffer) + race.ReleaseMerge(&ioSync)
		rangeAccess(p, false, "net.Conn.Write")
		e.hb.ioSync = e.hb.ioSync.join(e.hb.clock(e.cur.id))
		e.hb.tick(e.cur.id)
	}
	n := len(p)
	if s.failAt >= 0 && s.total+n > s.failAt {
		n = s.failAt - s.total
		if n < 0 {
			n = 0
		}
		if n > 0 {
			s.push(e, p[:n])
		}
		return n, ErrPipe
	}
	s.push(e, p)
	return len(p), nil
}

func (s *stream) push(e *Exec, p []byte) {
	d := append([]byte(nil), p...)
	e.seq++
	if e.cur != nil {
		e.note(e.cur, KYield, -2)
	}
	s.Log = append(s.Log, WriteRec{Seq: e.seq, Off: s.total, Data: d})
	keep := d
	if s.cutAt >= 0 {
		if s.total >= s.cutAt {
			keep = nil
		} else if s.total+len(d) > s.cutAt {
			keep = d[:s.cutAt-s.total]
		}
	}
	s.total += len(d)
	if !s.sink {
		s.buf = append(s.buf, keep...)
	}
	if s.cutAt >= 0 && s.total >= s.cutAt {
		s.wclosed = true
	}
}

func (c *End) Close() error {
	if c.real != nil {
		return c.real.Close()
	}
	e := ex
	if e == nil || e.dead {
		return nil
	}
	e.point(op{kind: KConnClose, st: c.wr, st2: c.rd})
	if c.wr.wclosed && c.rd.rclosed {
		return ErrClosed
	}
	c.wr.wclosed = true
	c.rd.rclosed = true
	return nil
}

// CloseWrite half-closes: the peer reads EOF after draining. (The method set is that of
// a TCP or Unix socket, which the library may look for.)
func (c *End) CloseWrite() error {
	if c.real != nil {
		return nil
	}
	e := ex
	if e == nil || e.dead {
		return nil
	}
	e.point(op{kind: KConnClose, st: c.wr})
	c.wr.wclosed = true
	return nil
}

func (c *End) LocalAddr() net.Addr                { return addr(c.name) }
func (c *End) RemoteAddr() net.Addr               { return addr(c.name + "-peer") }
func (c *End) SetDeadline(t time.Time) error      { return nil }
func (c *End) SetReadDeadline(t time.Time) error  { return nil }
func (c *End) SetWriteDeadline(t time.Time) error { return nil }

// --- harness controls (no scheduling points) --------------------------------

// Sent returns the log of everything written by this end.
func (c *End) Sent() []WriteRec { return c.wr.Log }

// SentBytes returns the concatenation of everything written by this end.
func (c *End) SentBytes() []byte {
	var b []byte
	for _, w := range c.wr.Log {
		b = append(b, w.Data...)
	}
	return b
}

// Received returns the log of everything written by the peer towards this end.
func (c *End) Received() []WriteRec { return c.rd.Log }

// Pending returns the number of bytes queued for this end's reader.
func (c *End) Pending() int { return len(c.rd.buf) }

// SinkIncoming makes bytes written towards this end be logged only (nobody needs to read them).
func (c *End) SinkIncoming() { c.rd.sink = true }

// CutIncomingAt arranges that the stream towards this end is cut (EOF) after n bytes in total.
func (c *End) CutIncomingAt(n int) {
	c.rd.cutAt = n
	if c.rd.total >= n {
		c.rd.wclosed = true
	}
}

// TimeoutIncomingAt: a read deadline set by the application expires when n bytes have
// been read: from then on every Read of this end fails with a timeout error (an expired
// deadline stays expired), as on a real socket.
func (c *End) TimeoutIncomingAt(n int) { c.rd.timeoutAt = n }

// FailOutgoingAt makes the write that would pass stream offset n fail.
func (c *End) FailOutgoingAt(n int) { c.wr.failAt = n }

// StallOutgoingAt makes the write that would pass stream offset n block (as on a
// connection whose peer stopped reading) until this end or the peer closes.
func (c *End) StallOutgoingAt(n int) { c.wr.stallAt = n }

// StallOutgoing blocks every further write of this end (the peer stops reading now);
// UnstallOutgoing lets them proceed again.
func (c *End) StallOutgoing()   { c.wr.stallAt = c.wr.total }
func (c *End) UnstallOutgoing() { c.wr.stallAt = -1 }

// WriteOffset is the number of bytes this end has written so far.
func (c *End) WriteOffset() int { return c.wr.total }

// Inject appends bytes to this end's outgoing stream without a scheduling point
// (used by drivers that already hold the baton at a point of their own).
func (c *End) Inject(p []byte) {
	if ex == nil || ex.dead {
		return
	}
	c.wr.push(ex, p)
}

// WaitIncoming blocks (a scheduling point) until at least n writes have been made
// towards this end or the peer has closed; it consumes nothing.
func (c *End) WaitIncoming(n int) {
	e := ex
	if e == nil || e.dead {
		return
	}
	c.rd.waitN = n
	e.point(op{kind: KRead, st: c.rd})
	c.rd.waitN = 0
}

// ReadOffset returns how many bytes this end has read so far.
func (c *End) ReadOffset() int { return c.rd.readOff }

// PeerClosed reports whether the peer has closed its writing side towards this end.
func (c *End) PeerClosed() bool { return c.rd.wclosed }

// ClosedByOwner reports whether this end was closed by its owner.
func (c *End) ClosedByOwner() bool { return c.wr.wclosed && c.rd.rclosed }

// StreamID returns the scheduler object ids of (read stream, write stream).
func (c *End) StreamID() (int, int) { return c.rd.id, c.wr.id }
