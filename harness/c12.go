package main

import (
	"encoding/binary"
	"fmt"
	"strings"

	"github.com/rminnich/go9p/vs"
	"harness/wire"
)

// C12: version and msize negotiation is honoured in both directions.

const defaultMsize = 1048576 + 24

func c12Negotiation(srvMsize uint32, srvDotu bool) Scenario {
	name := fmt.Sprintf("negotiate server-msize=%d server-dotu=%v", srvMsize, srvDotu)
	return Scenario{Name: name, Run: func(rc *RunCtx) *Result {
		res := &Result{Exhaustive: true}
		eff := srvMsize
		if eff < 24 {
			eff = defaultMsize // Srv.Start documents the default for values below IOHDRSZ
		}
		cms := []uint32{0, 23, 24, 25, 32, 256, 8216, 65560, 1<<20 + 24, 1 << 31, ^uint32(0)}
		for _, d := range []uint32{eff - 1, eff, eff + 1} {
			cms = append(cms, d)
		}
		vers := []string{"9P2000", "9P2000.u", "9P2000.L", "9P1999", "", "9p2000.u", "9P2000.u "}
		seen := map[string]bool{}
		for _, cm := range cms {
			for _, ver := range vers {
				var got *wire.Msg
				var fail string
				body := func() {
					h := NewSrvH(NewFS(), SrvOpt{Msize: srvMsize, Dotu: srvDotu})
					c := h.Connect()
					got = c.Rpc(&wire.Msg{Type: wire.Tversion, Tag: wire.NOTAG, Msize: cm, Version: ver})
					if got == nil {
						// a refusal is sent before any dialect is agreed: accept either encoding of the Rerror
						c.Dotu = !c.Dotu
						for _, f := range c.Collect() {
							if f.Msg != nil && f.Msg.Tag == wire.NOTAG && f.Msg.Type == wire.Rerror {
								got = f.Msg
							}
						}
					}
				}
				x := vs.Run(nil, body, vs.Options{})
				res.Evals++
				res.Nontrivial++
				if len(x.Panics) > 0 {
					fail = "panic: " + x.Panics[0].Value
				} else if got == nil {
					fail = "no reply to Tversion"
				} else if cm < 24 {
					if got.Type != wire.Rerror {
						fail = fmt.Sprintf("msize %d cannot carry an I/O header but was answered by %s", cm, got)
					}
				} else {
					wantM := cm
					if eff < wantM {
						wantM = eff
					}
					wantV := "9P2000"
					if ver == "9P2000.u" && srvDotu {
						wantV = "9P2000.u"
					}
					if got.Type != wire.Rversion || got.Msize != wantM || got.Version != wantV {
						fail = fmt.Sprintf("expected Rversion msize=%d version=%q, got %s", wantM, wantV, got)
					}
				}
				if fail != "" {
					sig := "C12/negotiation/" + sigWords(fail)
					if !seen[sig] {
						seen[sig] = true
						res.Findings = append(res.Findings, Finding{Sig: sig, Msg: fmt.Sprintf("server msize %d dotu %v, Tversion(msize=%d, %q): %s", srvMsize, srvDotu, cm, ver, fail)})
					}
				}
			}
		}
		res.Samples = append(res.Samples, fmt.Sprintf("server msize %d: client msize x version string grid of %d x %d", srvMsize, len(cms), len(vers)))
		return res
	}}
}

// after negotiation: every reply type driven to its largest form, as the first
// request after Tversion and later
func c12Replies(srvMsize, cliMsize uint32, srvDotu, cliDotu bool) Scenario {
	name := fmt.Sprintf("replies server-msize=%d client-msize=%d server-dotu=%v client-dotu=%v", srvMsize, cliMsize, srvDotu, cliDotu)
	return Scenario{Name: name, Run: func(rc *RunCtx) *Result {
		res := &Result{Exhaustive: true}
		seen := map[string]bool{}
		type reqT struct {
			name string
			mk   func(fs *FS, tag uint16, L uint32) *wire.Msg
			read uint32
		}
		var reqs []reqT
		for _, n := range []int{0, 1, 40, 100, 200, 300} {
			n := n
			reqs = append(reqs, reqT{name: fmt.Sprintf("stat-name-%d", n), mk: func(fs *FS, tag uint16, L uint32) *wire.Msg {
				fs.Script[reqKey{0, tag, 0}] = &Action{StatName: strings.Repeat("N", n)}
				return &wire.Msg{Type: wire.Tstat, Tag: tag, Fid: 0}
			}})
			reqs = append(reqs, reqT{name: fmt.Sprintf("error-text-%d", n), mk: func(fs *FS, tag uint16, L uint32) *wire.Msg {
				fs.Script[reqKey{0, tag, 0}] = &Action{Err: "E" + strings.Repeat("e", n)}
				return &wire.Msg{Type: wire.Tstat, Tag: tag, Fid: 0}
			}})
		}
		for _, k := range []int{0, 1, 8, 16} {
			k := k
			reqs = append(reqs, reqT{name: fmt.Sprintf("walk-%d", k), mk: func(fs *FS, tag uint16, L uint32) *wire.Msg {
				var names []string
				for i := 0; i < k; i++ {
					names = append(names, "..")
				}
				return twalk(tag, 0, 5, names...)
			}})
		}
		for _, which := range []string{"0", "1", "L-1", "L"} {
			which := which
			reqs = append(reqs, reqT{name: "read-" + which, mk: func(fs *FS, tag uint16, L uint32) *wire.Msg {
				n := map[string]uint32{"0": 0, "1": 1, "L-1": L - 1, "L": L}[which]
				fs.Script[reqKey{0, tag, 0}] = &Action{ReadFull: true}
				return &wire.Msg{Type: wire.Tread, Tag: tag, Fid: 0, Count: n}
			}})
		}
		for _, first := range []bool{true, false} {
			for _, rq := range reqs {
				var fail string
				var frames []Frame
				var negotiated uint32
				var dotu bool
				var reqMsg *wire.Msg
				body := func() {
					fs := NewFS()
					h := NewSrvH(fs, SrvOpt{Msize: srvMsize, Dotu: srvDotu})
					c := h.Connect()
					ver := "9P2000"
					if cliDotu {
						ver = "9P2000.u"
					}
					if !first {
						// an earlier session at the server's own size, then renegotiate down with nothing outstanding
						c.Version(srvMsize, ver)
						c.Rpc(tattach(1, 0, wire.NOFID, "", 7, c.Dotu))
						c.Rpc(&wire.Msg{Type: wire.Tstat, Tag: 2, Fid: 0})
						c.Rpc(&wire.Msg{Type: wire.Tclunk, Tag: 3, Fid: 0})
					}
					r := c.Version(cliMsize, ver)
					if r == nil || r.Type != wire.Rversion {
						fail = fmt.Sprintf("negotiation failed: %v", r)
						return
					}
					negotiated, dotu = c.Msize, c.Dotu
					n0 := len(c.Collect())
					at := tattach(10, 0, wire.NOFID, "", 7, dotu)
					if !dotu {
						at.Uname = "glenda"
					}
					c.Send(dotu, at)
					vs.Idle()
					if negotiated-24 < 1 && strings.HasPrefix(rq.name, "read-L-1") {
						return
					}
					reqMsg = rq.mk(fs, 11, negotiated-24)
					if uint32(len(wire.Encode(reqMsg, dotu))) > negotiated {
						reqMsg = nil
						return
					}
					c.Send(dotu, reqMsg)
					vs.Idle()
					frames = append([]Frame{}, c.Collect()[n0:]...)
					if len(c.Junk) > 0 {
						fail = "reply stream ends in a partial frame"
					}
				}
				x := vs.Run(nil, body, vs.Options{})
				res.Evals++
				if reqMsg != nil {
					res.Nontrivial++
				}
				if len(x.Panics) > 0 {
					fail = "panic: " + x.Panics[0].Value + " at " + x.Panics[0].Frame
				}
				if fail == "" && reqMsg != nil {
					answered := false
					for _, f := range frames {
						if uint32(len(f.Raw)) > negotiated {
							fail = fmt.Sprintf("reply frame of %d bytes exceeds the negotiated msize %d: %v", len(f.Raw), negotiated, f.Msg)
							break
						}
						if f.Msg == nil {
							fail = "reply does not parse in the negotiated dialect: " + f.Err
							break
						}
						if f.Msg.Tag == 11 {
							answered = true
							if f.Msg.Type == wire.Rread && uint32(len(f.Msg.Data)) > reqMsg.Count {
								fail = fmt.Sprintf("Rread carries %d bytes, %d were asked for", len(f.Msg.Data), reqMsg.Count)
							}
						}
					}
					if fail == "" && !answered {
						fail = "request got no reply"
					}
				}
				if fail != "" {
					sig := "C12/replies/" + sigWords(fail)
					if !seen[sig] {
						seen[sig] = true
						res.Findings = append(res.Findings, Finding{Sig: sig, Msg: fmt.Sprintf("%s, request %s as first-after-version=%v: %s", name, rq.name, first, fail)})
					}
				}
			}
		}
		res.Samples = append(res.Samples, "Rstat with 0..300-byte names, Rerror with 0..300-byte text, Rwalk with 0..16 qids, Rread of 0,1,L-1,L bytes; each as the first request after Tversion and after a renegotiation")
		return res
	}}
}

// announced frame sizes
func c12FrameSizes(msize uint32, dotu bool) Scenario {
	name := fmt.Sprintf("announced-sizes msize=%d dotu=%v", msize, dotu)
	return Scenario{Name: name, Run: func(rc *RunCtx) *Result {
		res := &Result{Exhaustive: true}
		seen := map[string]bool{}
		sizes := []uint32{0, 1, 2, 3, 4, 5, 6, 7, 8, msize - 1, msize, msize + 1, 2 * msize, 8*msize + 1, 1 << 16, 1 << 31, ^uint32(0)}
		for _, sz := range sizes {
			for _, fill := range []string{"header-only", "as-many-bytes-as-announced"} {
				var fail string
				body := func() {
					fs := NewFS()
					h := NewSrvH(fs, SrvOpt{Msize: msize, Dotu: dotu})
					c := h.Connect()
					ver := "9P2000"
					if dotu {
						ver = "9P2000.u"
					}
					c.Version(msize, ver)
					c.Rpc(tattach(1, 0, wire.NOFID, "", 7, dotu))
					n0 := len(c.Collect())
					logN := len(fs.Log)
					// a Twrite-shaped frame announcing sz bytes
					body := []byte{0, 0, 0, 0, wire.Twrite, 9, 0, 0, 0, 0, 0, 0, 0, 0, 0, 0, 0, 0, 0, 0, 0, 0, 0}
					binary.LittleEndian.PutUint32(body, sz)
					if fill != "header-only" && sz > uint32(len(body)) && sz <= 16*msize {
						pad := make([]byte, int(sz)-len(body))
						binary.LittleEndian.PutUint32(body[19:], uint32(len(pad)))
						body = append(body, pad...)
					}
					c.SendRaw(body)
					vs.Idle()
					c.Send(dotu, &wire.Msg{Type: wire.Tstat, Tag: 12, Fid: 0})
					vs.Idle()
					fr := c.Collect()[n0:]
					bad := sz > msize || sz < 7
					if bad {
						if len(fr) > 0 {
							fail = fmt.Sprintf("a frame announcing %d bytes (msize %d) was answered: %v", sz, msize, fr[0].Msg)
						} else if len(fs.Log) != logN && !onlyConnEntries(fs.Log[logN:]) {
							fail = fmt.Sprintf("a frame announcing %d bytes (msize %d) reached the implementation", sz, msize)
						} else if !c.End.PeerClosed() {
							fail = fmt.Sprintf("connection still open after a frame announcing %d bytes (msize %d)", sz, msize)
						}
					}
					nc := h.Connect()
					if r := nc.Version(msize, ver); r == nil || r.Type != wire.Rversion {
						fail = "a fresh connection cannot negotiate afterwards"
					}
				}
				x := vs.Run(nil, body, vs.Options{})
				res.Evals++
				res.Nontrivial++
				if len(x.Panics) > 0 {
					fail = "panic: " + x.Panics[0].Value + " at " + x.Panics[0].Frame
				}
				if fail != "" {
					sig := "C12/frame-size/" + sigWords(fail)
					if !seen[sig] {
						seen[sig] = true
						res.Findings = append(res.Findings, Finding{Sig: sig, Msg: fmt.Sprintf("%s (%s): %s", name, fill, fail)})
					}
				}
			}
		}
		res.Samples = append(res.Samples, fmt.Sprintf("announced sizes %v, header only and with the announced number of bytes, followed by a valid Tstat", sizes))
		return res
	}}
}

// c12Pipelined: the client does not wait for Rversion - Tversion, Tattach and the
// next frame travel in one write (and so reach the server in one read). The
// negotiated msize applies to everything behind the Tversion all the same.
func c12Pipelined(srvMsize, cliMsize uint32, dotu bool) Scenario {
	name := fmt.Sprintf("pipelined-after-version server-msize=%d client-msize=%d dotu=%v", srvMsize, cliMsize, dotu)
	return Scenario{Name: name, Run: func(rc *RunCtx) *Result {
		res := &Result{Exhaustive: true}
		seen := map[string]bool{}
		ver := "9P2000"
		if dotu {
			ver = "9P2000.u"
		}
		eff := cliMsize
		if srvMsize < eff {
			eff = srvMsize
		}
		type third struct {
			name string
			raw  func(fs *FS) []byte
			bad  bool // announces more than the negotiated msize
		}
		var thirds []third
		for _, sz := range []uint32{eff - 1, eff, eff + 1, 2 * eff, srvMsize, srvMsize + 1} {
			sz := sz
			if sz < 23 {
				continue
			}
			thirds = append(thirds, third{name: fmt.Sprintf("twrite-announcing-%d", sz), bad: sz > eff, raw: func(fs *FS) []byte {
				body := []byte{0, 0, 0, 0, wire.Twrite, 9, 0, 0, 0, 0, 0, 0, 0, 0, 0, 0, 0, 0, 0, 0, 0, 0, 0}
				binary.LittleEndian.PutUint32(body, sz)
				pad := make([]byte, int(sz)-len(body))
				binary.LittleEndian.PutUint32(body[19:], uint32(len(pad)))
				return append(body, pad...)
			}})
		}
		for _, n := range []int{0, 40, 300, 2000} {
			n := n
			thirds = append(thirds, third{name: fmt.Sprintf("stat-name-%d", n), raw: func(fs *FS) []byte {
				fs.Script[reqKey{0, 9, 0}] = &Action{StatName: strings.Repeat("N", n)}
				return wire.Encode(&wire.Msg{Type: wire.Tstat, Tag: 9, Fid: 0}, dotu)
			}})
			thirds = append(thirds, third{name: fmt.Sprintf("error-text-%d", n), raw: func(fs *FS) []byte {
				fs.Script[reqKey{0, 9, 0}] = &Action{Err: "E" + strings.Repeat("e", n)}
				return wire.Encode(&wire.Msg{Type: wire.Tstat, Tag: 9, Fid: 0}, dotu)
			}})
		}
		for _, cnt := range []uint32{eff - 24, eff - 23, srvMsize - 24} {
			cnt := cnt
			thirds = append(thirds, third{name: fmt.Sprintf("read-count-%d", cnt), raw: func(fs *FS) []byte {
				fs.Script[reqKey{0, 9, 0}] = &Action{ReadFull: true}
				return wire.Encode(&wire.Msg{Type: wire.Tread, Tag: 9, Fid: 0, Count: cnt}, dotu)
			}})
		}
		for _, th := range thirds {
			for _, split := range []string{"one-write", "version-alone"} {
				var fail string
				body := func() {
					fs := NewFS()
					h := NewSrvH(fs, SrvOpt{Msize: srvMsize, Dotu: dotu})
					c := h.Connect()
					c.Dotu = dotu
					tv := wire.Encode(&wire.Msg{Type: wire.Tversion, Tag: wire.NOTAG, Msize: cliMsize, Version: ver}, false)
					rest := append(wire.Encode(tattach(1, 0, wire.NOFID, "", 7, dotu), dotu), th.raw(fs)...)
					if split == "one-write" {
						c.SendRaw(append(tv, rest...))
					} else {
						c.SendRaw(tv)
						c.SendRaw(rest) // still before the Rversion is read
					}
					vs.Idle()
					fr := c.Collect()
					if len(fr) == 0 || fr[0].Msg == nil || fr[0].Msg.Type != wire.Rversion || fr[0].Msg.Msize != eff {
						fail = fmt.Sprintf("no Rversion with msize %d first", eff)
						return
					}
					for _, f := range fr[1:] {
						if uint32(len(f.Raw)) > eff {
							fail = fmt.Sprintf("a reply of %d bytes was sent behind an Rversion that negotiated msize %d", len(f.Raw), eff)
							return
						}
						if f.Msg == nil {
							fail = "a reply behind the Rversion does not parse: " + f.Err
							return
						}
						if f.Msg.Type == wire.Rread && uint32(len(f.Msg.Data)) > eff-24 {
							fail = "an Rread carries more data than msize allows"
							return
						}
					}
					if th.bad {
						for _, f := range fr[1:] {
							if f.Msg.Tag == 9 {
								fail = fmt.Sprintf("a frame announcing more than the negotiated msize %d, sent right behind the Tversion, was answered: %v", eff, f.Msg)
								return
							}
						}
						for _, e := range fs.Log {
							if e.Kind == "call" && e.Tag == 9 {
								fail = fmt.Sprintf("a frame announcing more than the negotiated msize %d, sent right behind the Tversion, reached the implementation", eff)
								return
							}
						}
						if !c.End.PeerClosed() {
							fail = fmt.Sprintf("connection still open after a frame announcing more than the negotiated msize %d sent right behind the Tversion", eff)
						}
					}
				}
				x := vs.Run(nil, body, vs.Options{})
				res.Evals++
				res.Nontrivial++
				if len(x.Panics) > 0 {
					fail = "panic: " + x.Panics[0].Value + " at " + x.Panics[0].Frame
				} else if len(x.Fails) > 0 && fail == "" {
					fail = "harness: " + x.Fails[0]
				}
				if fail != "" {
					sig := "C12/pipelined/" + sigWords(fail)
					if !seen[sig] {
						seen[sig] = true
						res.Findings = append(res.Findings, Finding{Sig: sig, Msg: fmt.Sprintf("%s, third frame %s (%s): %s", name, th.name, split, fail)})
					}
				}
			}
		}
		res.Samples = append(res.Samples, fmt.Sprintf("%d kinds of third frame x {one write, Tversion in its own write}", len(thirds)))
		return res
	}}
}

// c12RefusedVersion: a Tversion the server refuses (msize too small to carry an I/O
// header) changes nothing - in particular not the dialect negotiated before. The
// replies that follow are byte for byte those of a session without it.
func c12RefusedVersion(srvDotu bool) Scenario {
	name := fmt.Sprintf("refused-version-changes-nothing server-dotu=%v", srvDotu)
	return Scenario{Name: name, Run: func(rc *RunCtx) *Result {
		res := &Result{Exhaustive: true}
		seen := map[string]bool{}
		session := func(ver1 string, refused *wire.Msg) (string, string) {
			var out, bad string
			body := func() {
				fs := NewFS()
				h := NewSrvH(fs, SrvOpt{Msize: 8216, Dotu: srvDotu})
				c := h.Connect()
				r := c.Version(1024, ver1)
				if r == nil || r.Type != wire.Rversion {
					bad = fmt.Sprintf("Tversion(%s) answered by %v", ver1, r)
					return
				}
				dotu := c.Dotu
				c.Rpc(tattach(1, 0, wire.NOFID, "glenda", 7, dotu))
				if refused != nil {
					before := len(c.Collect())
					c.SendRaw(wire.Encode(refused, false))
					vs.Idle()
					fr := c.Collect()[before:]
					// the refusal itself may be in either encoding of Rerror; it must be a refusal
					if len(fr) != 1 || len(fr[0].Raw) < 7 || fr[0].Raw[4] != wire.Rerror {
						bad = fmt.Sprintf("Tversion with msize %d was not refused with an Rerror (%d frames)", refused.Msize, len(fr))
						return
					}
				}
				n0 := len(c.Collect())
				fs.Script[reqKey{0, 20, 0}] = &Action{StatName: "a-name"}
				c.Send(dotu, &wire.Msg{Type: wire.Tstat, Tag: 20, Fid: 0})
				vs.Idle()
				c.Send(dotu, twalk(21, 0, 5, "does-not-exist"))
				vs.Idle()
				fs.Script[reqKey{0, 22, 0}] = &Action{Err: "scripted"}
				c.Send(dotu, &wire.Msg{Type: wire.Tstat, Tag: 22, Fid: 0})
				vs.Idle()
				for _, f := range c.Collect()[n0:] {
					out += fmt.Sprintf("%x;", f.Raw)
				}
			}
			x := vs.Run(nil, body, vs.Options{})
			if len(x.Panics) > 0 {
				bad = "panic: " + x.Panics[0].Value
			}
			return out, bad
		}
		for _, ver1 := range []string{"9P2000", "9P2000.u"} {
			ref, bad := session(ver1, nil)
			if bad != "" || ref == "" {
				res.Findings = append(res.Findings, Finding{Sig: "C12/refused-version/control-run-failed", Msg: bad})
				continue
			}
			for _, ms := range []uint32{0, 1, 23} {
				for _, ver2 := range []string{"9P2000", "9P2000.u", "9P2000.L", "nonsense", ""} {
					got, bad := session(ver1, &wire.Msg{Type: wire.Tversion, Tag: wire.NOTAG, Msize: ms, Version: ver2})
					res.Evals++
					res.Nontrivial++
					if bad == "" && got != ref {
						bad = fmt.Sprintf("after a refused Tversion(msize %d, %q) on a %s connection the replies differ from a session without it:\n  got  %s\n  want %s", ms, ver2, ver1, got, ref)
					}
					if bad != "" {
						sig := "C12/refused-version/" + sigWords(bad)
						if !seen[sig] {
							seen[sig] = true
							res.Findings = append(res.Findings, Finding{Sig: sig, Msg: name + ": " + bad})
						}
					}
				}
			}
		}
		res.Samples = append(res.Samples, "negotiate (2 versions), attach, refused Tversion msize {0,1,23} x 5 version strings, then Rstat / Rerror replies compared with the session without it")
		return res
	}}
}

func onlyConnEntries(es []Entry) bool {
	for _, e := range es {
		if e.Kind != "connclose" && e.Kind != "destroy" && e.Kind != "connopen" {
			return false
		}
	}
	return true
}

// c12Renegotiate: a session in use at a large msize negotiates a smaller one while
// replies to earlier requests are still on their way out (the writer is stalled, the
// client has not collected them). Everything the server sends behind the Rversion
// fits the new msize, however many requests follow.
func c12Renegotiate(srvMsize, newMsize uint32, burst, pending int, stallAt int, dotu bool) Scenario {
	name := fmt.Sprintf("renegotiate-in-use %d->%d after a burst of %d, with %d replies not yet out (writer stalled at +%d) dotu=%v", srvMsize, newMsize, burst, pending, stallAt, dotu)
	return Scenario{Name: name, Run: func(rc *RunCtx) *Result {
		res := &Result{Exhaustive: true}
		var fail string
		body := func() {
			fs := NewFS()
			h := NewSrvH(fs, SrvOpt{Msize: srvMsize, Dotu: dotu})
			c := h.Connect()
			ver := "9P2000"
			if dotu {
				ver = "9P2000.u"
			}
			c.Version(srvMsize, ver)
			c.Rpc(tattach(1, 0, wire.NOFID, "glenda", 7, dotu))
			// a few requests answered the ordinary way first: their buffers are recycled
			for i := 0; i < 3; i++ {
				c.Rpc(&wire.Msg{Type: wire.Tstat, Tag: uint16(10 + i), Fid: 0})
			}
			// ... and a burst of requests in flight at once: that many buffers end up in the pool
			var bm []*wire.Msg
			for i := 0; i < burst; i++ {
				bm = append(bm, &wire.Msg{Type: wire.Tstat, Tag: uint16(30 + i), Fid: 0})
			}
			if burst > 0 {
				c.Send(dotu, bm...)
				vs.Idle()
			}
			before := len(c.Collect())
			if stallAt >= 0 {
				c.SrvEnd.StallOutgoingAt(c.SrvEnd.WriteOffset() + stallAt)
			}
			for i := 0; i < pending; i++ {
				c.Send(dotu, &wire.Msg{Type: wire.Tstat, Tag: uint16(20 + i), Fid: 0})
			}
			vs.Idle()
			c.Send(false, &wire.Msg{Type: wire.Tversion, Tag: wire.NOTAG, Msize: newMsize, Version: ver})
			vs.Idle()
			c.SrvEnd.UnstallOutgoing()
			vs.Idle()
			for i := 0; i < pending+burst+6; i++ {
				k := reqKey{0, uint16(40 + i), 0}
				var m *wire.Msg
				switch i % 3 {
				case 0:
					fs.Script[k] = &Action{StatName: strings.Repeat("N", 150+i)}
					m = &wire.Msg{Type: wire.Tstat, Tag: k.tag, Fid: 0}
				case 1:
					fs.Script[k] = &Action{Err: "E" + strings.Repeat("e", 200+i)}
					m = &wire.Msg{Type: wire.Tstat, Tag: k.tag, Fid: 0}
				default:
					m = twalk(k.tag, 0, uint32(50+i), "d", "d", "d", "d", "d", "d", "d", "d", "d", "d", "d", "d", "d", "d", "d", "d")
				}
				c.Send(dotu, m)
				vs.Idle()
			}
			fr := c.Collect()[before:]
			seenV := false
			for _, f := range fr {
				if f.Msg != nil && f.Msg.Type == wire.Rversion {
					seenV = true
					if f.Msg.Msize != newMsize {
						fail = fmt.Sprintf("Rversion carries msize %d, asked for %d", f.Msg.Msize, newMsize)
						return
					}
					continue
				}
				if seenV && uint32(len(f.Raw)) > newMsize {
					fail = fmt.Sprintf("a reply of %d bytes (%s) was sent behind an Rversion that negotiated msize %d", len(f.Raw), wire.Names[f.Raw[4]], newMsize)
					return
				}
			}
			if !seenV {
				fail = "the Tversion in mid-session was not answered"
			}
		}
		x := vs.Run(nil, body, vs.Options{})
		res.Evals++
		res.Nontrivial++
		if len(x.Panics) > 0 {
			fail = "panic: " + x.Panics[0].Value + " at " + x.Panics[0].Frame
		} else if len(x.Fails) > 0 && fail == "" {
			fail = "harness: " + x.Fails[0]
		}
		if fail != "" {
			res.Findings = append(res.Findings, Finding{Sig: "C12/renegotiate/" + sigWords(fail), Msg: name + ": " + fail})
		}
		return res
	}}
}

// c12VersionBehindSameTag: the Tversion that lowers msize has to wait for an older
// request with the same tag (NOTAG) and is carried out only when that one finishes,
// not when it is read. Whenever that is: from the Rversion on, frames larger than the
// negotiated msize are refused and replies fit it.
func c12VersionBehindSameTag(srvMsize, newMsize uint32, dotu bool) Scenario {
	name := fmt.Sprintf("version-behind-a-request-with-its-tag %d->%d dotu=%v", srvMsize, newMsize, dotu)
	return Scenario{Name: name, Run: func(rc *RunCtx) *Result {
		res := &Result{Exhaustive: true}
		var fail string
		body := func() {
			fs := NewFS()
			h := NewSrvH(fs, SrvOpt{Msize: srvMsize, Dotu: dotu})
			c := h.Connect()
			ver := "9P2000"
			if dotu {
				ver = "9P2000.u"
			}
			c.Version(srvMsize, ver)
			c.Rpc(tattach(1, 0, wire.NOFID, "glenda", 7, dotu))
			g := vs.NewSem(0)
			fs.Script[reqKey{0, wire.NOTAG, 0}] = &Action{Gate: g}
			before := len(c.Collect())
			c.Send(dotu, &wire.Msg{Type: wire.Tstat, Tag: wire.NOTAG, Fid: 0})
			vs.Idle()
			c.Send(false, &wire.Msg{Type: wire.Tversion, Tag: wire.NOTAG, Msize: newMsize, Version: ver})
			vs.Idle()
			g.Release()
			vs.Idle()
			fr := c.Collect()[before:]
			seenV := false
			for _, f := range fr {
				if f.Msg != nil && f.Msg.Type == wire.Rversion && f.Msg.Msize == newMsize {
					seenV = true
				}
			}
			if !seenV {
				// the library may answer such a Tversion differently; nothing was negotiated then
				return
			}
			n0 := len(c.Collect())
			fs.Script[reqKey{0, 9, 0}] = &Action{StatName: strings.Repeat("N", 300)}
			c.Send(dotu, &wire.Msg{Type: wire.Tstat, Tag: 9, Fid: 0})
			vs.Idle()
			big := &wire.Msg{Type: wire.Twrite, Tag: 10, Fid: 5, Data: make([]byte, newMsize)}
			c.Send(dotu, big)
			vs.Idle()
			for _, f := range c.Collect()[n0:] {
				if uint32(len(f.Raw)) > newMsize {
					fail = fmt.Sprintf("a reply of %d bytes was sent after an Rversion that negotiated msize %d", len(f.Raw), newMsize)
					return
				}
				if f.Msg != nil && f.Msg.Tag == 10 {
					fail = fmt.Sprintf("a frame of %d bytes, larger than the msize %d negotiated by the Rversion before it, was answered: %v", len(wire.Encode(big, dotu)), newMsize, f.Msg)
					return
				}
			}
			if !c.End.PeerClosed() {
				fail = fmt.Sprintf("connection still open after a frame larger than the negotiated msize %d", newMsize)
			}
		}
		x := vs.Run(nil, body, vs.Options{})
		res.Evals++
		res.Nontrivial++
		if len(x.Panics) > 0 {
			fail = "panic: " + x.Panics[0].Value + " at " + x.Panics[0].Frame
		} else if len(x.Fails) > 0 && fail == "" {
			fail = "harness: " + x.Fails[0]
		}
		if fail != "" {
			res.Findings = append(res.Findings, Finding{Sig: "C12/version-behind-same-tag/" + sigWords(fail), Msg: name + ": " + fail})
		}
		return res
	}}
}

func c12Scenarios(tier string) []Scenario {
	var out []Scenario
	sms := []uint32{0, 23, 24, 25, 32, 256, 8216, 65560, 1<<20 + 24}
	for _, sm := range sms {
		for _, d := range []bool{false, true} {
			out = append(out, c12Negotiation(sm, d))
		}
	}
	pairs := [][2]uint32{{8216, 256}, {256, 256}, {65560, 64}, {256, 8216}, {8216, 32}}
	if tier == "thorough" {
		pairs = append(pairs, [2]uint32{1<<20 + 24, 8216}, [2]uint32{65560, 4120}, [2]uint32{64, 64}, [2]uint32{32, 32}, [2]uint32{8216, 8215})
	}
	for _, p := range pairs {
		for _, sd := range []bool{false, true} {
			for _, cd := range []bool{false, true} {
				out = append(out, c12Replies(p[0], p[1], sd, cd))
			}
		}
	}
	for _, ms := range []uint32{32, 256, 8216} {
		out = append(out, c12FrameSizes(ms, false), c12FrameSizes(ms, true))
	}
	for _, pr := range [][2]uint32{{8216, 64}, {8216, 256}, {256, 8216}, {65560, 4120}} {
		out = append(out, c12Pipelined(pr[0], pr[1], false), c12Pipelined(pr[0], pr[1], true))
	}
	out = append(out, c12RefusedVersion(false), c12RefusedVersion(true))
	out = append(out, c12VersionBehindSameTag(8216, 256, false), c12VersionBehindSameTag(8216, 64, true))
	i := 0
	for _, pending := range []int{0, 1, 3} {
		for _, at := range []int{-1, 0, 70, 140} {
			i++
			out = append(out, c12Renegotiate(8216, []uint32{64, 256}[i%2], []int{0, 2, 5}[i%3], pending, at, i%3 == 0))
		}
	}
	out = append(out, c12Renegotiate(8216, 64, 3, 0, -1, false), c12Renegotiate(8216, 256, 8, 0, -1, true))
	out = append(out, c12ClientScenarios(tier)...)
	return out
}

func init() {
	register(&Property{ID: "C12", Level: "exploration",
		Technique: "bounded-exhaustive enumeration of negotiation configurations and reply forms, executed on the real server and client under the controlled scheduler",
		Rule:      "grid server msize {0,23,24,25,32,256,8216,65560,2^20+24} x client msize {0,23,24,25,32,256,8216,65560,2^20+24,2^31,2^32-1, server +-1} x server dialect x 7 version strings; after negotiation Rstat with 0..300-byte names, Rerror with 0..300-byte text, Rwalk 0..16 qids, Rread 0,1,L-1,L - each as first request after Tversion and after a renegotiation, 4 dialect combinations, 5 (thorough 10) msize pairs; announced frame sizes {0..8, msize-1, msize, msize+1, 2*msize, 8*msize+1, 2^16, 2^31, 2^32-1} header-only and full; Tversion pipelined with Tattach and a third frame (oversize Twrite, long Rstat/Rerror, reads at the limit) in one write and in two, 4 msize pairs x dialect; a refused Tversion (msize 0/1/23 x 5 version strings) in mid-session leaves dialect and replies unchanged; client direction: Connect against a scripted peer over the same grid. distinct = configurations executed",
		Assumptions: []string{"server msize above 2^20+24 is not instantiated (8 x msize receive buffer per connection)", "the framework is not required to police an implementation that returns more data than asked"},
		Scenarios:   c12Scenarios, QuickS: 100, ThoroughS: 600})
}
