package main

import (
	"github.com/rminnich/go9p"
	"path/filepath"
	"os"
	"fmt"
	"strings"

	"github.com/rminnich/go9p/vs"
	"harness/wire"
)

// C11: a disconnect releases everything the connection held.

type c11Params struct {
	Prefix  int      // number of history steps performed before the disconnect
	Parked  []string // request kinds parked in the implementation at the disconnect
	Release []int
	Close   string // boundary | midframe | afterwrite
	Maxpend int
	Dotu    bool
	P       int
	NoConnOps bool // the implementation does not ask to be told about connections
	Auth      bool // the implementation authenticates (AuthOps); the connection holds an authentication fid
}

func (p c11Params) name() string {
	n := fmt.Sprintf("disconnect prefix=%d parked=%v release=%v close=%s maxpend=%d dotu=%v", p.Prefix, p.Parked, p.Release, p.Close, p.Maxpend, p.Dotu)
	if p.NoConnOps {
		n += " implementation-without-ConnOps"
	}
	if p.Auth {
		n += " implementation-with-AuthOps"
	}
	return n
}

// the history whose prefixes are cut: fids end up attached, walked, open, created, clunked
func c11History(s *sess) []func() {
	return []func(){
		func() { s.rpcOK(twalk(s.tag(), 0, 1, "d"), wire.Rwalk) },
		func() { s.rpcOK(twalk(s.tag(), 0, 2, "f"), wire.Rwalk) },
		func() { s.rpcOK(&wire.Msg{Type: wire.Topen, Tag: s.tag(), Fid: 2, Mode: 0}, wire.Ropen) },
		func() { s.rpcOK(twalk(s.tag(), 0, 3, "d"), wire.Rwalk) },
		func() {
			s.rpcOK(&wire.Msg{Type: wire.Tcreate, Tag: s.tag(), Fid: 3, Name: "new", Perm: 0644, Mode: 1}, wire.Rcreate)
		},
		func() { s.rpcOK(&wire.Msg{Type: wire.Tclunk, Tag: s.tag(), Fid: 1}, wire.Rclunk) },
		func() { s.rpcOK(twalk(s.tag(), 2, 4), wire.Rerror) }, // walk from an open fid: refused, nothing changes
	}
}

func c11Scenario(p c11Params) Scenario { return vsScenario(c11Spec(p, false)) }

// c11Spec builds the disconnect scenario. With mapMonitor the package must be built
// with memory-access tracking (vinst -hb): the happens-before monitor then reports
// unsynchronised concurrent access to Go maps, which the runtime answers with a
// fatal error (used by C06).
func c11Spec(p c11Params, mapMonitor bool) *VsSpec {
	var s *sess
	var by *Cli
	var byOK bool
	byMidOK := true
	var byStream int
	body := func() {
		if mapMonitor {
			vs.EnableHB()
		}
		s = newSess(SrvOpt{Msize: 256, Dotu: p.Dotu, Maxpend: p.Maxpend, NoConnOps: p.NoConnOps, Auth: p.Auth})
		if p.Auth {
			// an authentication fid, and an attach made with it
			s.rpcOK(&wire.Msg{Type: wire.Tauth, Tag: s.tag(), Afid: 50, Uname: "glenda", Aname: "", NUname: 7, HasNUname: p.Dotu}, wire.Rauth)
			s.rpcOK(tattach(s.tag(), 51, 50, "glenda", 7, p.Dotu), wire.Rattach)
		}
		by = s.h.Connect()
		ver := "9P2000"
		if p.Dotu {
			ver = "9P2000.u"
		}
		by.Version(256, ver)
		if r := by.Rpc(tattach(1, 0, wire.NOFID, "bob", 8, p.Dotu)); r == nil || r.Type != wire.Rattach {
			vs.Fail("setup: bystander attach answered by %v", r)
		}
		_, byStream = by.End.StreamID()
		h := c11History(s)
		for i := 0; i < p.Prefix && i < len(h); i++ {
			h[i]()
		}
		s.gates = nil
		var parked []*wire.Msg
		for i, k := range p.Parked {
			tag := uint16(100 + i)
			g := vs.NewSem(0)
			s.gates = append(s.gates, g)
			var m *wire.Msg
			switch k {
			case "authattach": // an attach naming the authentication fid, parked in the implementation
				m = tattach(tag, uint32(10+i), 50, "glenda", 7, p.Dotu)
				s.fs.Script[reqKey{0, tag, 0}] = &Action{Gate: g}
			case "authread": // a read of the authentication fid, parked in the implementation's AuthRead
				m = &wire.Msg{Type: wire.Tread, Tag: tag, Fid: 50, Offset: 0, Count: 8}
				s.fs.AuthReadGate = g
			default:
				m = s.prepare(k, uint32(10+i), tag)
				s.fs.Script[reqKey{0, tag, 0}] = &Action{Gate: g}
			}
			parked = append(parked, m)
		}
		if len(parked) > 0 {
			s.c.Send(p.Dotu, parked...)
			vs.Idle()
		}
		vs.Window(true)
		switch p.Close {
		case "midframe":
			b := wire.Encode(&wire.Msg{Type: wire.Tstat, Tag: 200, Fid: 0}, p.Dotu)
			s.c.SendRaw(b[:5])
		case "afterwrite":
			s.c.Send(p.Dotu, &wire.Msg{Type: wire.Tclunk, Tag: 200, Fid: 0})
		case "halfclosed":
			// the client shuts down its sending side while the server's writer is blocked
			// inside Write (client not reading): the server sees EOF but cannot finish with
			// this connection yet - the others must not notice; then the client goes away
			s.c.SrvEnd.StallOutgoing()
			s.c.Send(p.Dotu, &wire.Msg{Type: wire.Tstat, Tag: 200, Fid: 0})
			vs.Idle()
			s.c.End.CloseWrite()
			vs.Idle()
			rm := by.Rpc(&wire.Msg{Type: wire.Tstat, Tag: 6, Fid: 0})
			byMidOK = rm != nil && rm.Type == wire.Rstat
		case "slowconnclosed", "slowfiddestroy":
			// the implementation is slow to clean up after the connection: the others must not wait for it
			s.fs.TeardownIn = map[string]string{"slowconnclosed": "ConnClosed", "slowfiddestroy": "FidDestroy"}[p.Close]
			tg := vs.NewSem(0)
			s.fs.TeardownGate = tg
			s.c.End.Close()
			vs.Idle()
			rm := by.Rpc(&wire.Msg{Type: wire.Tstat, Tag: 6, Fid: 0})
			byMidOK = rm != nil && rm.Type == wire.Rstat
			if byMidOK {
				// a connection opened meanwhile is served as well
				nc := s.h.Connect()
				if r := nc.Version(256, "9P2000"); r == nil || r.Type != wire.Rversion {
					byMidOK = false
				}
				nc.End.Close()
				vs.Idle()
			}
			tg.Release()
			vs.Idle()
		case "versionwhilestalled":
			// the client stopped reading, then renegotiates (Tversion is answered by the
			// reader goroutine itself, which now waits for the blocked writer), then goes away
			s.c.SrvEnd.StallOutgoing()
			s.c.Send(p.Dotu, &wire.Msg{Type: wire.Tstat, Tag: 200, Fid: 0})
			vs.Idle()
			vv := "9P2000"
			if p.Dotu {
				vv = "9P2000.u"
			}
			s.c.Send(false, &wire.Msg{Type: wire.Tversion, Tag: wire.NOTAG, Msize: 256, Version: vv})
			vs.Idle()
		case "stalledwriter":
			// the client stopped reading: the server's writer is blocked inside Write when the client goes away
			s.c.SrvEnd.StallOutgoing()
			s.c.Send(p.Dotu, &wire.Msg{Type: wire.Tstat, Tag: 200, Fid: 0}, &wire.Msg{Type: wire.Tstat, Tag: 201, Fid: 0})
			vs.Idle()
		}
		s.c.End.Close()
		if len(p.Release) > 0 {
			vs.Go("releaser", func() {
				for _, i := range p.Release {
					s.gates[i].Release()
				}
			})
		}
		vs.Idle()
		vs.Window(false)
		r := by.Rpc(&wire.Msg{Type: wire.Tstat, Tag: 7, Fid: 0})
		byOK = r != nil && r.Type == wire.Rstat
	}
	check := stdCheck("C11", func(x *vs.Exec) *Viol {
		detail := map[string]any{"fslog": strings.Split(s.fs.logString(), "\n"), "parked": x.Parked}
		v := func(sig, msg string) *Viol {
			return &Viol{Sig: "C11/" + sig, Msg: msg + "\nparked goroutines: " + fmt.Sprint(x.Parked), Detail: detail}
		}
		closed := map[int]int{}
		shown := map[int]int{} // token -> conn
		destroyed := map[int]int{}
		for _, e := range s.fs.Log {
			switch e.Kind {
			case "connclose":
				closed[e.Conn]++
			case "call":
				if e.Token != 0 {
					shown[e.Token] = e.Conn
				}
			case "destroy":
				if e.Token != 0 {
					destroyed[e.Token]++
					if _, ok := shown[e.Token]; !ok {
						shown[e.Token] = e.Conn
					}
				}
			}
		}
		// tokens handed out by Walk to a new fid appear in the log only on later use; collect them from the fid table of the script
		if closed[0] != 1 {
			if !(p.NoConnOps && closed[0] == 0) {
				return v(fmt.Sprintf("connclosed-count-%d", closed[0]), fmt.Sprintf("ConnClosed reported %d times for the disconnected connection", closed[0]))
			}
		}
		if closed[1] != 0 {
			return v("bystander-closed", "ConnClosed reported for the bystander connection")
		}
		for tok, n := range destroyed {
			if n > 1 {
				return v("fid-destroyed-twice", fmt.Sprintf("FidDestroy reported %d times for one fid (token %d)\n%s", n, tok, s.fs.logString()))
			}
		}
		for tok, conn := range s.fs.tokenConn {
			switch {
			case conn == 0 && destroyed[tok] == 0:
				return v("fid-not-destroyed", fmt.Sprintf("a fid the implementation had been shown (token %d) was never reported destroyed after the disconnect\n%s", tok, s.fs.logString()))
			case conn == 1 && destroyed[tok] != 0:
				return v("bystander-fid-destroyed", "a fid of the bystander connection was destroyed")
			}
		}
		// goroutines: only the logger and the bystander's reader and writer may remain
		reads, selects := 0, 0
		for _, g := range unexpectedParked(x, nil) {
			switch {
			case g.Op == "read" && g.Obj == byStream:
				reads++
			case g.Op == "select":
				selects++
			default:
				return v("goroutine-leak/"+g.Op, fmt.Sprintf("goroutine %d (started at %s) is still blocked in %s after the disconnect and after every request returned", g.G, g.Site, g.Op))
			}
		}
		if reads != 1 || selects != 1 {
			return v("goroutine-leak/reader-writer", fmt.Sprintf("expected exactly the bystander's reader and writer to remain, found %d readers and %d writers", reads, selects))
		}
		if !byOK {
			return v("bystander-disturbed", "the bystander connection no longer answers")
		}
		if !byMidOK {
			return v("bystander-disturbed/while-victim-"+p.Close, "while the server was not yet done with the disconnecting connection ("+p.Close+"), the bystander connection (or a new connection) got no answer")
		}
		return nil
	}, nil)
	if mapMonitor {
		inner := check
		check = func(x *vs.Exec) *Viol {
			for _, r := range x.Races() {
				if strings.HasPrefix(r.SiteA, "map@") && strings.HasPrefix(r.SiteB, "map@") && (r.WriteA || r.WriteB) {
					a, b := r.SiteA, r.SiteB
					if a > b {
						a, b = b, a
					}
					return &Viol{Sig: "C06/concurrent-map-access/" + a + "/" + b, Msg: "unsynchronised concurrent access to a Go map while a client disconnects with requests in flight - the Go runtime aborts the whole process with 'fatal error: concurrent map read/iteration and map write': " + r.String()}
				}
			}
			if v := inner(x); v != nil && strings.HasPrefix(v.Sig, "C11/panic/") {
				v.Sig = "C06" + v.Sig[3:]
				return v
			}
			return nil
		}
		return &VsSpec{Name: "map-monitor " + p.name(), Body: body, Check: check, P: p.P, Delay: true}
	}
	return &VsSpec{Name: p.name(), Body: body, Check: check, P: p.P, Sample: func() any {
		return map[string]any{"fslog_tail": tail(strings.Split(s.fs.logString(), "\n"), 12)}
	}}
}

// c11UfsDescriptors: the Unix file server closes every file it opened for the
// connection. Histories that leave files and directories open in different ways
// (opened, created, listed once and several times, some clunked) end in a disconnect;
// afterwards no descriptor of the process refers into the exported tree.
func c11UfsDescriptors(dotu bool) Scenario {
	name := fmt.Sprintf("ufs-descriptors-closed dotu=%v", dotu)
	return Scenario{Name: name, Run: func(rc *RunCtx) *Result {
		res := &Result{Exhaustive: true}
		base, root := scratchDir("c11")
		defer os.RemoveAll(base)
		into := func() []string {
			var out []string
			ents, _ := os.ReadDir("/proc/self/fd")
			for _, e := range ents {
				if t, err := os.Readlink("/proc/self/fd/" + e.Name()); err == nil && strings.HasPrefix(t, root) {
					out = append(out, t)
				}
			}
			return out
		}
		type step struct {
			what string
			do   func(rpc func(m *wire.Msg) *wire.Msg)
		}
		var cl *Cli // the connection of the history being played (for steps that need more than an rpc)
		var ver string
		open := func(fid uint32, mode uint8, names ...string) func(rpc func(m *wire.Msg) *wire.Msg) {
			return func(rpc func(m *wire.Msg) *wire.Msg) {
				rpc(twalk(0, 0, fid, names...))
				rpc(&wire.Msg{Type: wire.Topen, Fid: fid, Mode: mode})
			}
		}
		list := func(fid uint32, times int) func(rpc func(m *wire.Msg) *wire.Msg) {
			return func(rpc func(m *wire.Msg) *wire.Msg) {
				for t := 0; t < times; t++ {
					off := uint64(0)
					for {
						r := rpc(&wire.Msg{Type: wire.Tread, Fid: fid, Offset: off, Count: 4096})
						if r == nil || r.Type != wire.Rread || len(r.Data) == 0 {
							break
						}
						off += uint64(len(r.Data))
					}
				}
			}
		}
		histories := [][]step{
			{{"a file left open", open(1, 0, "f")}},
			{{"a directory left open, never listed", open(1, 0, "d")}},
			{{"a directory listed once", open(1, 0, "d")}, {"", list(1, 1)}},
			{{"a directory listed three times from offset 0", open(1, 0, "d")}, {"", list(1, 3)}},
			{{"the root listed twice and a file read", open(1, 0)}, {"", list(1, 2)}, {"", open(2, 0, "f")}, {"", func(rpc func(m *wire.Msg) *wire.Msg) { rpc(&wire.Msg{Type: wire.Tread, Fid: 2, Count: 16}) }}},
			{{"a created file left open", func(rpc func(m *wire.Msg) *wire.Msg) {
				rpc(twalk(0, 0, 1, "d"))
				rpc(&wire.Msg{Type: wire.Tcreate, Fid: 1, Name: "made", Perm: 0644, Mode: 1})
				rpc(&wire.Msg{Type: wire.Twrite, Fid: 1, Data: []byte("x")})
			}}},
			{{"a created directory left open and listed", func(rpc func(m *wire.Msg) *wire.Msg) {
				rpc(twalk(0, 0, 1, "d"))
				rpc(&wire.Msg{Type: wire.Tcreate, Fid: 1, Name: "madedir", Perm: go9p.DMDIR | 0755, Mode: 0})
			}}, {"", list(1, 2)}},
			{{"three files open, one clunked, one reopened after a failed open", open(1, 0, "f")}, {"", open(2, 2, "f")}, {"", open(3, 0, "d")}, {"", func(rpc func(m *wire.Msg) *wire.Msg) {
				rpc(&wire.Msg{Type: wire.Tclunk, Fid: 2})
				rpc(&wire.Msg{Type: wire.Topen, Fid: 1, Mode: 0}) // already open: refused
				rpc(twalk(0, 0, 4, "f"))
				rpc(&wire.Msg{Type: wire.Topen, Fid: 4, Mode: 1})
			}}, {"", list(3, 2)}},
			{{"a file opened through a symbolic link, truncating", open(1, 0x11, "ln")}},
			// the host takes its time over an open (or create); a Tversion arrives meanwhile and the reply is dropped: the file is open all the same
			{{"a file whose open was still under way in the host when a Tversion arrived", func(rpc func(m *wire.Msg) *wire.Msg) {
				rpc(twalk(0, 0, 1, "f"))
				gate := vs.NewSem(0)
				first := true
				vs.OpenFileHook = func(path string, flag int) {
					if first && strings.HasSuffix(path, "/f") {
						first = false
						gate.Acquire()
					}
				}
				cl.Send(cl.Dotu, &wire.Msg{Type: wire.Topen, Tag: 900, Fid: 1, Mode: 0})
				vs.Idle()
				cl.Version(8216, ver)
				gate.Release()
				vs.Idle()
				vs.OpenFileHook = nil
			}}},
			{{"a file created whose name the host removes before the server looks at it again", func(rpc func(m *wire.Msg) *wire.Msg) {
				rpc(twalk(0, 0, 1, "d"))
				armed := true
				vs.HostHook = func(op, path string) error {
					if armed && (op == "lstat" || op == "stat") && strings.HasSuffix(path, "/gone") {
						armed = false
						os.Remove(path)
					}
					return nil
				}
				rpc(&wire.Msg{Type: wire.Tcreate, Fid: 1, Name: "gone", Perm: 0644, Mode: 1})
				vs.HostHook = nil
				// something is left open in any case, so that the history counts
				rpc(twalk(0, 0, 2, "f"))
				rpc(&wire.Msg{Type: wire.Topen, Fid: 2, Mode: 0})
			}}},
			{{"a file whose create was still under way in the host when a Tversion arrived", func(rpc func(m *wire.Msg) *wire.Msg) {
				rpc(twalk(0, 0, 1, "d"))
				gate := vs.NewSem(0)
				first := true
				vs.OpenFileHook = func(path string, flag int) {
					if first && strings.HasSuffix(path, "/late") {
						first = false
						gate.Acquire()
					}
				}
				cl.Send(cl.Dotu, &wire.Msg{Type: wire.Tcreate, Tag: 900, Fid: 1, Name: "late", Perm: 0644, Mode: 1})
				vs.Idle()
				cl.Version(8216, ver)
				gate.Release()
				vs.Idle()
				vs.OpenFileHook = nil
			}}},
		}
		seen := map[string]bool{}
		for hi, h := range histories {
			os.RemoveAll(root)
			os.MkdirAll(filepath.Join(root, "d", "sub"), 0o755)
			os.WriteFile(filepath.Join(root, "f"), []byte("file contents"), 0o644)
			os.WriteFile(filepath.Join(root, "d", "e1"), []byte("1"), 0o644)
			os.WriteFile(filepath.Join(root, "d", "e2"), []byte("2"), 0o644)
			os.Symlink("f", filepath.Join(root, "ln"))
			before := into()
			var bad string
			body := func() {
				h9 := newUfsH(root, 8216, dotu)
				cl = h9.Connect()
				ver = "9P2000"
				if dotu {
					ver = "9P2000.u"
				}
				cl.Version(8216, ver)
				tag := uint16(1)
				rpc := func(m *wire.Msg) *wire.Msg { tag++; m.Tag = tag; return cl.Rpc(m) }
				un := ""
				if !dotu {
					un = go9p.OsUsers.Uid2User(os.Geteuid()).Name()
				}
				if r := rpc(tattach(0, 0, wire.NOFID, un, uint32(os.Geteuid()), dotu)); r == nil || r.Type != wire.Rattach {
					bad = fmt.Sprintf("attach answered by %v", r)
					return
				}
				for _, st := range h {
					st.do(rpc)
				}
				if len(into()) == len(before) {
					bad = "harness: the history left nothing open"
					return
				}
				cl.End.Close()
				vs.Idle()
			}
			x := vs.Run(nil, body, vs.Options{Horizon: 100000000})
			vs.OpenFileHook, vs.HostHook = nil, nil
			res.Evals++
			res.Nontrivial++
			res.Traces++
			if len(x.Panics) > 0 {
				bad = "panic: " + x.Panics[0].Value
			}
			if after := into(); bad == "" && len(after) != len(before) {
				bad = fmt.Sprintf("%d descriptors of the server still refer into the exported tree after the disconnect (%v), %d did before the connection", len(after), after, len(before))
			}
			if bad != "" {
				sig := "C11/ufs-descriptor-left-open"
				if strings.HasPrefix(bad, "harness") || strings.HasPrefix(bad, "panic") || strings.HasPrefix(bad, "attach") {
					sig = "C11/ufs-descriptors/" + sigWords(bad)
				}
				if !seen[sig] {
					seen[sig] = true
					res.Findings = append(res.Findings, Finding{Sig: sig, Msg: fmt.Sprintf("history %d (%s): %s", hi, h[0].what, bad)})
				}
			}
		}
		res.Samples = append(res.Samples, fmt.Sprintf("%d histories on the real Ufs (files and directories opened, created, listed 1-3 times, clunked, through a symlink), disconnect, then /proc/self/fd", len(histories)))
		return res
	}}
}

func tail(s []string, n int) []string {
	if len(s) > n {
		return s[len(s)-n:]
	}
	return s
}

func c11Scenarios(tier string) []Scenario {
	var out []Scenario
	out = append(out, heldAcrossClunkScenario("C11"))
	out = append(out, c11UfsDescriptors(false), c11UfsDescriptors(true))
	add := func(p c11Params) {
		idx := make([]int, len(p.Parked))
		for i := range idx {
			idx[i] = i
		}
		for _, rel := range perms(idx) {
			q := p
			q.Release = rel
			out = append(out, c11Scenario(q))
		}
	}
	closes := []string{"boundary", "midframe", "afterwrite", "stalledwriter", "halfclosed", "versionwhilestalled"}
	parkedSets := [][]string{{}, {"clunk"}, {"walk"}, {"read"}, {"stat"}, {"remove"}, {"clunk", "read"}, {"walk", "write"}}
	P := 2
	if tier == "thorough" {
		P = 3
	}
	i := 0
	for prefix := 0; prefix <= 7; prefix++ {
		for pi, ps := range parkedSets {
			if tier == "quick" && (prefix+pi)%4 != 0 && !(prefix == 7 && pi < 4) {
				continue
			}
			i++
			pp := P
			if len(ps) == 2 {
				pp = P - 1
			}
			if (closes[i%6] == "stalledwriter" || closes[i%6] == "halfclosed" || closes[i%6] == "versionwhilestalled") && pp > 1 {
				pp-- // two more requests are in flight at the disconnect
			}
			add(c11Params{Prefix: prefix, Parked: ps, Close: closes[i%6], Maxpend: []int{0, 2}[i%2], Dotu: i%4 < 2, P: pp})
		}
	}
	// an implementation with FidDestroy but without ConnOpened / ConnClosed (the library's Fsrv is one)
	for i, ps := range [][]string{{}, {"read"}, {"clunk"}} {
		add(c11Params{Prefix: 5 + i, Parked: ps, Close: closes[i%3], Maxpend: i % 3, Dotu: i%2 == 0, P: 1, NoConnOps: true})
	}
	// an implementation that authenticates: the connection holds an authentication fid, used or not at the disconnect
	for i, ps := range [][]string{{}, {"authattach"}, {"authread"}, {"authattach", "read"}, {"stat", "authread"}} {
		add(c11Params{Prefix: 2 + i, Parked: ps, Close: closes[i%6], Maxpend: i % 3, Dotu: i%2 == 0, P: 2 - len(ps), Auth: true})
	}
	// every way of going away while the writer is blocked, with the unbuffered reply queue too
	for i, cl := range []string{"slowconnclosed", "slowfiddestroy"} {
		add(c11Params{Prefix: 4, Parked: []string{}, Close: cl, Maxpend: i * 2, Dotu: i%2 == 0, P: 1})
	}
	for i, cl := range []string{"stalledwriter", "halfclosed", "versionwhilestalled"} {
		add(c11Params{Prefix: 3, Parked: []string{}, Close: cl, Maxpend: 0, Dotu: i%2 == 0, P: 1})
		add(c11Params{Prefix: 5, Parked: []string{"read"}, Close: cl, Maxpend: 0, Dotu: i%2 == 1, P: 1})
	}
	if tier == "thorough" {
		for _, cl := range closes {
			for _, mp := range []int{0, 1, 2} {
				add(c11Params{Prefix: 7, Parked: []string{"clunk", "walk"}, Close: cl, Maxpend: mp, P: 2})
				add(c11Params{Prefix: 5, Parked: []string{"remove"}, Close: cl, Maxpend: mp, Dotu: true, P: 3})
			}
		}
		add(c11Params{Prefix: 7, Parked: []string{"clunk", "walk", "read"}, Close: "boundary", Maxpend: 0, P: 1})
	}
	return out
}

func init() {
	register(&Property{ID: "C11", Level: "model_checking",
		Technique: "stateless model checking of the real server under a controlled scheduler; leaks decided at the final quiescent state",
		Rule:      "every schedule with at most P preemptions from the disconnect onwards, per scenario: every prefix of a history that leaves fids attached/walked/open/created/clunked x set of requests parked in the implementation x every release order x disconnect at a frame boundary / mid-frame / right after a request / while the server's writer is blocked inside Write (client stopped reading; also after the client half-closed, or sent a Tversion meanwhile; an implementation slow inside ConnClosed / FidDestroy) x Maxpend 0/2 x dialect, with a bystander connection; plus sequential histories in which a request is held on a fid across its clunk / remove and the re-binding of its number, then completes, then the client disconnects; 9 histories on the real Ufs after which no descriptor may refer into the exported tree; distinct = distinct per-object operation orders ; implementations with AuthOps: an authentication fid idle, in an attach, or being read at the disconnect",
		Assumptions: []string{"code between two synchronisation operations is atomic (race-free executions)", "a client disconnect is the client end closing: the server reads EOF after draining, its writes fail", "the Ufs file-descriptor clause is checked by sequential histories on the real Ufs with /proc/self/fd as the oracle (a garbage collection in between could only hide a leak, never invent one)"},
		Scenarios:   c11Scenarios, QuickS: 180, ThoroughS: 1500})
}
