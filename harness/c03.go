package main

import (
	"fmt"
	"strings"

	"github.com/rminnich/go9p/vs"
	"harness/wire"
)

// ---------------------------------------------------------------------------
// shared machinery for server-side batch scenarios (C03, C07, C08, C11)

type reqSpec struct {
	Kind   string // stat read write walk open clunk remove create wstat
	Script string // imm gate twice err
}

type sess struct {
	fs     *FS
	h      *SrvH
	c      *Cli
	dotu   bool
	setupN int // reply frames produced by the set-up
	tags   []uint16
	msgs   []*wire.Msg
	gates  []*vs.Sem
	nextT  uint16
}

func (s *sess) rpcOK(m *wire.Msg, want uint8) *wire.Msg {
	r := s.c.Rpc(m)
	if r == nil || r.Type != want {
		vs.Fail("setup: %s answered by %v", m, r)
	}
	return r
}

func (s *sess) tag() uint16 { s.nextT++; return s.nextT }

// newSess starts a server, negotiates and attaches fid 0 (user glenda/7).
func newSess(o SrvOpt) *sess {
	s := &sess{fs: NewFS(), dotu: o.Dotu}
	s.h = NewSrvH(s.fs, o)
	s.c = s.h.Connect()
	ver := "9P2000"
	if o.Dotu {
		ver = "9P2000.u"
	}
	if r := s.c.Version(o.Msize, ver); r == nil || r.Type != wire.Rversion {
		vs.Fail("setup: version answered by %v", r)
	}
	s.rpcOK(tattach(s.tag(), 0, wire.NOFID, "glenda", 7, o.Dotu), wire.Rattach)
	return s
}

// prepare builds the request of the given kind on a fid of its own (fid number
// base) and performs whatever set-up it needs. The request is not sent.
func (s *sess) prepare(kind string, base uint32, tag uint16) *wire.Msg {
	switch kind {
	case "stat":
		s.rpcOK(twalk(s.tag(), 0, base), wire.Rwalk)
		return &wire.Msg{Type: wire.Tstat, Tag: tag, Fid: base}
	case "read":
		s.rpcOK(twalk(s.tag(), 0, base, "f"), wire.Rwalk)
		s.rpcOK(&wire.Msg{Type: wire.Topen, Tag: s.tag(), Fid: base, Mode: 0}, wire.Ropen)
		return &wire.Msg{Type: wire.Tread, Tag: tag, Fid: base, Offset: uint64(base), Count: 16}
	case "write":
		s.rpcOK(twalk(s.tag(), 0, base, "g"), wire.Rwalk)
		s.rpcOK(&wire.Msg{Type: wire.Topen, Tag: s.tag(), Fid: base, Mode: 1}, wire.Ropen)
		d := make([]byte, 5+int(base%7))
		for i := range d {
			d[i] = byte(int(base)*5 + i)
		}
		return &wire.Msg{Type: wire.Twrite, Tag: tag, Fid: base, Offset: 3, Data: d}
	case "walk":
		s.rpcOK(twalk(s.tag(), 0, base), wire.Rwalk)
		return twalk(tag, base, base+100, "d")
	case "open":
		s.rpcOK(twalk(s.tag(), 0, base, "f"), wire.Rwalk)
		return &wire.Msg{Type: wire.Topen, Tag: tag, Fid: base, Mode: 0}
	case "clunk":
		s.rpcOK(twalk(s.tag(), 0, base), wire.Rwalk)
		return &wire.Msg{Type: wire.Tclunk, Tag: tag, Fid: base}
	case "remove":
		s.rpcOK(twalk(s.tag(), 0, base, "d", "h"), wire.Rwalk)
		return &wire.Msg{Type: wire.Tremove, Tag: tag, Fid: base}
	case "create":
		s.rpcOK(twalk(s.tag(), 0, base, "d"), wire.Rwalk)
		return &wire.Msg{Type: wire.Tcreate, Tag: tag, Fid: base, Name: fmt.Sprintf("n%d", base), Perm: 0644, Mode: 1}
	case "wstat":
		s.rpcOK(twalk(s.tag(), 0, base, "f"), wire.Rwalk)
		st := wire.Stat{Type: 0xFFFF, Dev: 0xFFFFFFFF, Qid: wire.Qid{Type: 0xFF, Vers: 0xFFFFFFFF, Path: ^uint64(0)}, Mode: 0xFFFFFFFF, Atime: 0xFFFFFFFF, Mtime: 0xFFFFFFFF, Length: ^uint64(0), NUid: 0xFFFFFFFF, NGid: 0xFFFFFFFF, NMuid: 0xFFFFFFFF}
		return &wire.Msg{Type: wire.Twstat, Tag: tag, Fid: base, Stat: st}
	case "attach":
		return tattach(tag, base, wire.NOFID, "glenda", 7, s.dotu)
	}
	panic("unknown request kind " + kind)
}

// renderReply renders a reply frame in the format ScriptFS logs its answers.
func renderReply(m *wire.Msg) string {
	switch m.Type {
	case wire.Rerror:
		return "Rerror " + m.Ename
	case wire.Rattach:
		return fmt.Sprintf("Rattach %v", m.Qid)
	case wire.Rwalk:
		if len(m.Wqid) == 0 {
			return "Rwalk []"
		}
		return fmt.Sprintf("Rwalk %v", m.Wqid)
	case wire.Ropen:
		return fmt.Sprintf("Ropen %v", m.Qid)
	case wire.Rcreate:
		return fmt.Sprintf("Rcreate %v", m.Qid)
	case wire.Rread:
		return fmt.Sprintf("Rread %x", m.Data)
	case wire.Rwrite:
		return fmt.Sprintf("Rwrite %d", m.Count)
	case wire.Rclunk:
		return "Rclunk"
	case wire.Rremove:
		return "Rremove"
	case wire.Rstat:
		return fmt.Sprintf("Rstat %s muid=%s", m.Stat.Name, m.Stat.Muid)
	case wire.Rwstat:
		return "Rwstat"
	case wire.Rflush:
		return "Rflush"
	}
	return fmt.Sprintf("type%d", m.Type)
}

// ---------------------------------------------------------------------------
// C03

type c03Params struct {
	Reqs       []reqSpec
	Release    []int // order in which gated requests are released (indices into Reqs)
	Maxpend    int
	Dotu       bool
	OneSegment bool
	SlowReader bool // the client stops reading until everything that can finish has finished
	P          int
}

func (p c03Params) name() string {
	var rs []string
	for _, r := range p.Reqs {
		rs = append(rs, r.Kind+":"+r.Script)
	}
	slow := ""
	if p.SlowReader {
		slow = " slow-reader"
	}
	return fmt.Sprintf("batch[%s] release=%v maxpend=%d dotu=%v oneseg=%v%s", strings.Join(rs, ","), p.Release, p.Maxpend, p.Dotu, p.OneSegment, slow)
}

func c03Scenario(p c03Params) Scenario {
	var s *sess
	body := func() {
		s = newSess(SrvOpt{Msize: 256, Dotu: p.Dotu, Maxpend: p.Maxpend})
		s.tags, s.msgs, s.gates = nil, nil, nil
		for i, r := range p.Reqs {
			tag := uint16(100 + i)
			m := s.prepare(r.Kind, uint32(10+i), tag)
			s.tags = append(s.tags, tag)
			s.msgs = append(s.msgs, m)
			a := &Action{}
			var g *vs.Sem
			switch r.Script {
			case "gate":
				g = vs.NewSem(0)
				a.Gate = g
			case "twice":
				a.Twice = true
			case "gatetwice":
				g = vs.NewSem(0)
				a.Gate = g
				a.Twice = true
			case "err":
				a.Err = "scripted failure"
			}
			s.gates = append(s.gates, g)
			s.fs.Script[reqKey{0, tag, 0}] = a
		}
		// one warm-up round so that the explored replies use recycled reply buffers
		s.rpcOK(&wire.Msg{Type: wire.Tstat, Tag: s.tag(), Fid: 0}, wire.Rstat)
		s.setupN = len(s.c.Collect())
		vs.Window(true)
		if len(p.Release) > 0 {
			vs.Go("releaser", func() {
				for _, i := range p.Release {
					s.gates[i].Release()
				}
			})
		}
		if p.SlowReader {
			// the client does not read for a while: the server's writer blocks inside Write
			// and finished requests pile up behind it
			s.c.SrvEnd.StallOutgoing()
		}
		if p.OneSegment {
			s.c.Send(p.Dotu, s.msgs...)
		} else {
			for _, m := range s.msgs {
				s.c.Send(p.Dotu, m)
			}
		}
		vs.Idle()
		if p.SlowReader {
			s.c.SrvEnd.UnstallOutgoing()
			vs.Idle()
		}
		vs.Window(false)
		s.c.Collect()
	}
	check := stdCheck("C03", func(x *vs.Exec) *Viol {
		frames := s.c.Frames[s.setupN:]
		detail := func() any {
			return map[string]any{"wire": strings.Split(framesString(frames), "\n"), "fslog": strings.Split(s.fs.logString(), "\n"), "parked": x.Parked}
		}
		if len(s.c.Junk) > 0 {
			return &Viol{Sig: "C03/truncated-or-garbled-frame", Msg: fmt.Sprintf("the reply stream ends in %d bytes that are not a frame: % x\n%s", len(s.c.Junk), s.c.Junk, framesString(frames)), Detail: detail()}
		}
		count := map[uint16]int{}
		// Known root cause (DESIGN.md section 7, #21): an extra answer re-packs the
		// reply buffer that the writer (or, after recycling, another request) owns.
		// Its fingerprint is the extra answer's unique text under a tag that is not
		// the answering request's, or displacing the reply of another request.
		for _, f := range frames {
			if f.Msg == nil || f.Msg.Type != wire.Rerror || f.Msg.Ename != "second answer" {
				continue
			}
			own := false
			for i, t := range s.tags {
				if t == f.Msg.Tag && strings.HasSuffix(p.Reqs[i].Script, "twice") {
					own = true
				}
			}
			if !own {
				where := "other-request"
				if f.Msg.Tag == wire.NOTAG {
					where = "notag"
				}
				return &Viol{Sig: "C03/extra-answer-clobbers-reply/" + where, Msg: fmt.Sprintf("the implementation's extra answer overwrote a reply buffer it no longer owned: frame %s\n%s", f.Msg, framesString(frames)), Detail: detail()}
			}
		}
		for _, f := range frames {
			if f.Msg == nil {
				return &Viol{Sig: "C03/malformed-frame", Msg: "server wrote a frame that does not parse: " + f.Err + "\n" + framesString(frames), Detail: detail()}
			}
			known := false
			for _, t := range s.tags {
				if t == f.Msg.Tag {
					known = true
				}
			}
			if !known {
				return &Viol{Sig: fmt.Sprintf("C03/reply-for-unknown-tag/%s", wire.Names[f.Msg.Type]), Msg: fmt.Sprintf("reply %s carries a tag with no outstanding request\n%s", f.Msg, framesString(frames)), Detail: detail()}
			}
			count[f.Msg.Tag]++
		}
		for i, t := range s.tags {
			kind := p.Reqs[i].Kind + ":" + p.Reqs[i].Script
			if count[t] == 0 {
				return &Viol{Sig: "C03/no-reply/" + p.Reqs[i].Script, Msg: fmt.Sprintf("request %d (%s, tag %d) got no reply\n%s\nparked: %+v", i, kind, t, framesString(frames), x.Parked), Detail: detail()}
			}
			if count[t] > 1 {
				return &Viol{Sig: "C03/duplicate-reply/" + p.Reqs[i].Script, Msg: fmt.Sprintf("request %d (%s, tag %d) got %d replies\n%s", i, kind, t, count[t], framesString(frames)), Detail: detail()}
			}
			var m *wire.Msg
			for _, f := range frames {
				if f.Msg.Tag == t {
					m = f.Msg
				}
			}
			if m.Type != s.msgs[i].Type+1 && m.Type != wire.Rerror {
				return &Viol{Sig: "C03/wrong-reply-type", Msg: fmt.Sprintf("request %s answered by %s", s.msgs[i], m), Detail: detail()}
			}
			rs := s.fs.resps(0, t, 0)
			got := renderReply(m)
			ok := false
			for _, r := range rs {
				if r.Reply == got {
					ok = true
				}
			}
			if !ok {
				var want []string
				for _, r := range rs {
					want = append(want, r.Reply)
				}
				return &Viol{Sig: "C03/wrong-content/" + p.Reqs[i].Script, Msg: fmt.Sprintf("request %d (%s): reply on the wire %q is not what the implementation produced %q\n%s", i, kind, got, want, framesString(frames)), Detail: detail()}
			}
		}
		return nil
	}, nil)
	sp := &VsSpec{Name: p.name(), Body: body, Check: check, P: p.P,
		Sample: func() any {
			return map[string]any{"requests": fmt.Sprint(s.msgs), "replies": strings.Split(framesString(s.c.Frames[s.setupN:]), "\n")}
		}}
	return vsScenario(sp)
}

// c03FlushScenario: a request parked in the implementation is cancelled through
// FlushOp; later requests (which receive recycled reply buffers) run while the
// cancelled worker wakes up and answers late. The cancelled request may get at
// most one reply, everything else exactly one with its own content.
func c03FlushScenario(kindA, kindB string, nB int, maxpend int, dotu bool, P int) Scenario {
	var s *sess
	var tagsB []uint16
	var msgsB []*wire.Msg
	name := fmt.Sprintf("flushed-late-answer[%s then %dx%s] maxpend=%d dotu=%v", kindA, nB, kindB, maxpend, dotu)
	body := func() {
		s = newSess(SrvOpt{Msize: 256, Dotu: dotu, Maxpend: maxpend, Flush: true})
		s.fs.FlushMode = "cancel"
		a := s.prepare(kindA, 10, 100)
		gate := vs.NewSem(0)
		s.fs.Script[reqKey{0, 100, 0}] = &Action{Gate: gate, Direct: true}
		tagsB, msgsB = nil, nil
		for i := 0; i < nB; i++ {
			t := uint16(110 + i)
			tagsB = append(tagsB, t)
			msgsB = append(msgsB, s.prepare(kindB, uint32(20+i), t))
		}
		s.c.Send(dotu, a)
		vs.Idle()
		if r := s.c.Rpc(&wire.Msg{Type: wire.Tflush, Tag: 101, Oldtag: 100}); r == nil || r.Type != wire.Rflush {
			vs.Fail("setup: Tflush of the parked request answered by %v", r)
		}
		s.setupN = len(s.c.Collect())
		vs.Window(true)
		vs.Go("releaser", func() { gate.Release() })
		s.c.Send(dotu, msgsB...)
		vs.Idle()
		vs.Window(false)
		s.c.Collect()
	}
	check := stdCheck("C03", func(x *vs.Exec) *Viol {
		frames := s.c.Frames[s.setupN:]
		detail := map[string]any{"wire": strings.Split(framesString(frames), "\n"), "fslog": strings.Split(s.fs.logString(), "\n")}
		if len(s.c.Junk) > 0 {
			return &Viol{Sig: "C03/truncated-or-garbled-frame", Msg: fmt.Sprintf("the reply stream ends in %d bytes that are not a frame\n%s", len(s.c.Junk), framesString(frames)), Detail: detail}
		}
		count := map[uint16]int{}
		for _, f := range frames {
			if f.Msg == nil {
				return &Viol{Sig: "C03/malformed-frame", Msg: "unparseable frame: " + f.Err + "\n" + framesString(frames), Detail: detail}
			}
			count[f.Msg.Tag]++
		}
		if count[100] > 0 {
			return &Viol{Sig: "C03/reply-after-cancel", Msg: "a request cancelled by Tflush (Rflush already delivered) was answered afterwards\n" + framesString(frames), Detail: detail}
		}
		for i, t := range tagsB {
			if count[t] != 1 {
				return &Viol{Sig: fmt.Sprintf("C03/reply-count-%d/after-cancelled-request", count[t]), Msg: fmt.Sprintf("request %s got %d replies\n%s", msgsB[i], count[t], framesString(frames)), Detail: detail}
			}
			for _, f := range frames {
				if f.Msg.Tag != t {
					continue
				}
				got := renderReply(f.Msg)
				ok := false
				for _, r := range s.fs.resps(0, t, 0) {
					if r.Reply == got {
						ok = true
					}
				}
				if !ok {
					return &Viol{Sig: "C03/wrong-content/after-cancelled-request", Msg: fmt.Sprintf("request %s: reply on the wire %q is not what the implementation produced for it\n%s", msgsB[i], got, framesString(frames)), Detail: detail}
				}
			}
			delete(count, t)
		}
		for t := range count {
			return &Viol{Sig: "C03/reply-for-unknown-tag/after-cancelled-request", Msg: fmt.Sprintf("frame with tag %d that no outstanding request has\n%s", t, framesString(frames)), Detail: detail}
		}
		return nil
	}, nil)
	return vsScenario(&VsSpec{Name: name, Body: body, Check: check, P: P, Sample: func() any {
		return map[string]any{"cancelled": kindA, "later": fmt.Sprint(msgsB), "replies": strings.Split(framesString(s.c.Frames[s.setupN:]), "\n")}
	}})
}

// c03ReuseScenario: a reactive client re-uses a tag the moment it has read the reply
// carrying it (the server may not have retired the first request yet), optionally
// flushes the second request while the implementation holds it, and re-uses the tag
// a third time once the Rflush has arrived.
func c03ReuseScenario(kindA, kindB string, flush string, maxpend int, dotu bool, P int) Scenario {
	var s *sess
	type sendEv struct {
		at  int // replies seen when the request was written
		msg *wire.Msg
	}
	var sends []sendEv
	name := fmt.Sprintf("tag-reuse-on-reply[%s then %s] flush=%s maxpend=%d dotu=%v", kindA, kindB, flush, maxpend, dotu)
	body := func() {
		s = newSess(SrvOpt{Msize: 256, Dotu: dotu, Maxpend: maxpend, Flush: flush == "cancel"})
		if flush == "cancel" {
			s.fs.FlushMode = "cancel"
		}
		a := s.prepare(kindA, 10, 100)
		b := s.prepare(kindB, 20, 100)
		gate := vs.NewSem(0)
		s.fs.Script[reqKey{0, 100, 1}] = &Action{Gate: gate}
		s.setupN = len(s.c.Collect())
		sends = nil
		send := func(m *wire.Msg) {
			sends = append(sends, sendEv{len(s.c.Collect()) - s.setupN, m})
			s.c.Send(dotu, m)
		}
		has := func(tag uint16, n int) bool {
			k := 0
			for _, f := range s.c.Collect()[s.setupN:] {
				if f.Msg != nil && f.Msg.Tag == tag {
					k++
				}
			}
			return k >= n
		}
		vs.Window(true)
		send(a)
		for !has(100, 1) {
			if s.c.End.PeerClosed() {
				vs.Fail("connection closed by the server")
			}
			s.c.End.WaitIncoming(len(s.c.End.Received()) + 1)
		}
		send(b)
		if flush != "none" {
			send(&wire.Msg{Type: wire.Tflush, Tag: 101, Oldtag: 100})
		}
		vs.Idle()
		early := flush != "none" && has(101, 1)
		if early && !has(100, 2) {
			// the tag is free again as far as the client can tell: use it a third time
			send(&wire.Msg{Type: wire.Tstat, Tag: 100, Fid: 0})
			vs.Idle()
		}
		gate.Release()
		vs.Idle()
		vs.Window(false)
		s.c.Collect()
	}
	check := stdCheck("C03", func(x *vs.Exec) *Viol {
		frames := s.c.Frames[s.setupN:]
		detail := map[string]any{"wire": strings.Split(framesString(frames), "\n"), "fslog": strings.Split(s.fs.logString(), "\n")}
		bad := func(sig, msg string) *Viol {
			var ss []string
			for _, e := range sends {
				ss = append(ss, fmt.Sprintf("after %d replies: %s", e.at, e.msg))
			}
			return &Viol{Sig: "C03/" + sig + "/tag-reuse", Msg: msg + "\nsent:\n  " + strings.Join(ss, "\n  ") + "\nreceived:\n" + framesString(frames), Detail: detail}
		}
		if len(s.c.Junk) > 0 {
			return bad("truncated-or-garbled-frame", "the reply stream ends in bytes that are not a frame")
		}
		// replay sends and replies in the order the client saw them
		outstanding := map[uint16]*wire.Msg{}
		occ := map[uint16]int{} // requests sent so far per tag
		cur := map[uint16]int{} // occurrence index of the outstanding request per tag
		si := 0
		for fi := 0; fi <= len(frames); fi++ {
			for si < len(sends) && sends[si].at <= fi {
				m := sends[si].msg
				outstanding[m.Tag] = m
				cur[m.Tag] = occ[m.Tag]
				occ[m.Tag]++
				si++
			}
			if fi == len(frames) {
				break
			}
			f := frames[fi]
			if f.Msg == nil {
				return bad("malformed-frame", "unparseable frame: "+f.Err)
			}
			rq := outstanding[f.Msg.Tag]
			if rq == nil {
				return bad("reply-for-unknown-tag", fmt.Sprintf("reply %d (%v) carries tag %d, which no outstanding request has: the request that had it was answered or flushed before", fi, f.Msg, f.Msg.Tag))
			}
			delete(outstanding, f.Msg.Tag)
			if rq.Type == wire.Tflush {
				if f.Msg.Type != wire.Rflush {
					return bad("wrong-type", fmt.Sprintf("Tflush answered by %v", f.Msg))
				}
				delete(outstanding, rq.Oldtag) // a flushed request gets no reply after the Rflush
				continue
			}
			if f.Msg.Type != rq.Type+1 && f.Msg.Type != wire.Rerror {
				return bad("wrong-type", fmt.Sprintf("%s answered by %v", rq, f.Msg))
			}
			got := renderReply(f.Msg)
			ok := false
			// the three uses of the tag name different fids: find the implementation's own answer by fid
			// (a request flushed before it started never reaches the implementation)
			for _, e := range s.fs.Log {
				if e.Kind == "call" && e.Conn == 0 && e.Tag == rq.Tag && e.Fid == rq.Fid {
					for _, r := range s.fs.resps(0, rq.Tag, e.Occ) {
						if r.Reply == got {
							ok = true
						}
					}
				}
			}
			if !ok {
				return bad("wrong-content", fmt.Sprintf("%s (use %d of tag %d): the reply on the wire %q is not what the implementation produced for it", rq, cur[rq.Tag]+1, rq.Tag, got))
			}
		}
		for t, rq := range outstanding {
			if rq.Type == wire.Tflush || flush == "none" || t != 100 {
				return bad("reply-count-0", fmt.Sprintf("%s was never answered", rq))
			}
		}
		return nil
	}, nil)
	return vsScenario(&VsSpec{Name: name, Body: body, Check: check, P: P, Sample: func() any {
		return map[string]any{"replies": strings.Split(framesString(s.c.Frames[s.setupN:]), "\n")}
	}})
}

// c03Renegotiate: a client renegotiates in mid-session (first a small msize, later a
// larger one); whatever msize the server then admits, every request it forwards is
// answered with exactly what the implementation produced for it - also when that
// reply is larger than the replies of the first session were allowed to be.
func c03Renegotiate(first, second uint32, dotu bool) Scenario {
	name := fmt.Sprintf("replies-across-renegotiation msize %d then %d dotu=%v", first, second, dotu)
	return Scenario{Name: name, Run: func(rc *RunCtx) *Result {
		res := &Result{Exhaustive: true}
		var bad string
		body := func() {
			fs := NewFS()
			h := NewSrvH(fs, SrvOpt{Msize: 8216, Dotu: dotu, Maxpend: 2})
			c := h.Connect()
			ver := "9P2000"
			if dotu {
				ver = "9P2000.u"
			}
			tag := uint16(0)
			rpc := func(m *wire.Msg) *wire.Msg { tag++; m.Tag = tag; return c.Rpc(m) }
			for round, ms := range []uint32{first, second} {
				if r := c.Version(ms, ver); r == nil || r.Type != wire.Rversion {
					bad = fmt.Sprintf("Tversion(%d) answered by %v", ms, r)
					return
				}
				eff := c.Msize
				fid := uint32(10 * (round + 1))
				rpc(tattach(0, fid, wire.NOFID, "glenda", 7, dotu))
				rpc(twalk(0, fid, fid+1, "f"))
				rpc(&wire.Msg{Type: wire.Topen, Fid: fid + 1, Mode: 0})
				// a burst (several reply buffers in use at once), then reads of every size class
				var burst []*wire.Msg
				for i := 0; i < 6; i++ {
					tag++
					burst = append(burst, &wire.Msg{Type: wire.Tstat, Tag: tag, Fid: fid})
				}
				c.Send(dotu, burst...)
				vs.Idle()
				for _, cnt := range []uint32{1, 16, first - 24, first - 23, eff - 24, second - 24} {
					if cnt == 0 || cnt > 1<<20 {
						continue
					}
					tag++
					fs.Script[reqKey{0, tag, 0}] = &Action{ReadFull: true}
					before := len(c.Collect())
					c.Send(dotu, &wire.Msg{Type: wire.Tread, Tag: tag, Fid: fid + 1, Offset: 3, Count: cnt})
					vs.Idle()
					res.Evals++
					fr := c.Collect()[before:]
					if len(fr) != 1 || fr[0].Msg == nil || fr[0].Msg.Tag != tag {
						bad = fmt.Sprintf("Tread count %d at msize %d: %d replies", cnt, eff, len(fr))
						return
					}
					if uint32(len(fr[0].Raw)) > eff {
						bad = fmt.Sprintf("a reply of %d bytes at msize %d", len(fr[0].Raw), eff)
						return
					}
					resps := fs.resps(0, tag, 0)
					if len(resps) == 0 {
						continue // refused by the framework: not forwarded, its own Rerror
					}
					if got := renderReply(fr[0].Msg); got != resps[0].Reply {
						bad = fmt.Sprintf("after renegotiating from msize %d to %d (now %d): Tread count %d was forwarded and the implementation produced %q, the reply on the wire is %q", first, second, eff, cnt, resps[0].Reply, got)
						return
					}
				}
			}
		}
		x := vs.Run(nil, body, vs.Options{})
		res.Nontrivial = res.Evals
		res.Traces = 1
		if len(x.Panics) > 0 {
			bad = "panic: " + x.Panics[0].Value
		} else if len(x.Fails) > 0 && bad == "" {
			bad = "harness: " + x.Fails[0]
		}
		if bad != "" {
			res.Findings = append(res.Findings, Finding{Sig: "C03/wrong-content/across-renegotiation/" + sigWords(bad), Msg: name + ": " + bad})
		}
		res.Samples = append(res.Samples, "two sessions on one connection; per session attach, walk, open, a burst of 6 Tstat, reads of 6 size classes with an implementation returning exactly count bytes")
		return res
	}}
}

// c03TwoMsizes: two connections of one server negotiate different msizes and are used
// in turn; each gets exactly what the implementation produced, whatever the other
// connection's limits are.
func c03TwoMsizes(small, large uint32, dotu bool) Scenario {
	name := fmt.Sprintf("replies-on-two-connections msize %d and %d dotu=%v", small, large, dotu)
	return Scenario{Name: name, Run: func(rc *RunCtx) *Result {
		res := &Result{Exhaustive: true}
		var bad string
		body := func() {
			fs := NewFS()
			h := NewSrvH(fs, SrvOpt{Msize: 65560, Dotu: dotu, Maxpend: 1})
			ver := "9P2000"
			if dotu {
				ver = "9P2000.u"
			}
			cs := []*Cli{h.Connect(), h.Connect()}
			ms := []uint32{small, large}
			tag := uint16(0)
			for i, c := range cs {
				if r := c.Version(ms[i], ver); r == nil || r.Type != wire.Rversion {
					bad = fmt.Sprintf("Tversion(%d) answered by %v", ms[i], r)
					return
				}
				for _, m := range []*wire.Msg{tattach(0, 0, wire.NOFID, "glenda", 7, dotu), twalk(0, 0, 1, "f"), {Type: wire.Topen, Fid: 1, Mode: 0}} {
					tag++
					m.Tag = tag
					c.Rpc(m)
				}
			}
			// alternate: bursts on the small connection (its buffers go back to wherever they are kept), large replies on the other
			for round := 0; round < 3; round++ {
				for i, c := range cs {
					var burst []*wire.Msg
					for k := 0; k < 5; k++ {
						tag++
						burst = append(burst, &wire.Msg{Type: wire.Tstat, Tag: tag, Fid: 0})
					}
					c.Send(dotu, burst...)
					vs.Idle()
					for _, cnt := range []uint32{1, small - 24, ms[i] - 24} {
						tag++
						fs.Script[reqKey{i, tag, 0}] = &Action{ReadFull: true}
						before := len(c.Collect())
						c.Send(dotu, &wire.Msg{Type: wire.Tread, Tag: tag, Fid: 1, Offset: 1, Count: cnt})
						vs.Idle()
						res.Evals++
						fr := c.Collect()[before:]
						if len(fr) != 1 || fr[0].Msg == nil || fr[0].Msg.Tag != tag {
							bad = fmt.Sprintf("connection %d (msize %d), Tread count %d: %d replies", i, ms[i], cnt, len(fr))
							return
						}
						resps := fs.resps(i, tag, 0)
						if len(resps) == 0 {
							continue
						}
						if got := renderReply(fr[0].Msg); got != resps[0].Reply {
							bad = fmt.Sprintf("connection %d (msize %d) next to a connection with msize %d: Tread count %d was forwarded and the implementation produced %q, the reply on the wire is %q", i, ms[i], ms[1-i], cnt, resps[0].Reply, got)
							return
						}
					}
				}
			}
		}
		x := vs.Run(nil, body, vs.Options{})
		res.Nontrivial = res.Evals
		res.Traces = 1
		if len(x.Panics) > 0 {
			bad = "panic: " + x.Panics[0].Value
		} else if len(x.Fails) > 0 && bad == "" {
			bad = "harness: " + x.Fails[0]
		}
		if bad != "" {
			res.Findings = append(res.Findings, Finding{Sig: "C03/wrong-content/two-connections/" + sigWords(bad), Msg: name + ": " + bad})
		}
		res.Samples = append(res.Samples, "two connections of one server with different msize used in turn: bursts of Tstat and reads of 3 size classes, 3 rounds")
		return res
	}}
}

func gatedOf(scripts ...string) []int {
	var g []int
	for i, sc := range scripts {
		if strings.HasPrefix(sc, "gate") {
			g = append(g, i)
		}
	}
	return g
}

func perms(xs []int) [][]int {
	if len(xs) <= 1 {
		return [][]int{append([]int(nil), xs...)}
	}
	var out [][]int
	for i := range xs {
		rest := append(append([]int(nil), xs[:i]...), xs[i+1:]...)
		for _, p := range perms(rest) {
			out = append(out, append([]int{xs[i]}, p...))
		}
	}
	return out
}

// c03QueueFile: n reads wait inside the implementation for data; n writes follow, each
// of which lets one read go (a queue file, a pipe). Every one of the 2n requests gets
// exactly one reply, its own - however many are outstanding.
func c03QueueFile(n int, maxpend int, dotu bool) Scenario {
	name := fmt.Sprintf("queue-file %d reads waiting for %d writes maxpend=%d dotu=%v", n, n, maxpend, dotu)
	return Scenario{Name: name, Run: func(rc *RunCtx) *Result {
		res := &Result{Exhaustive: true}
		var fail string
		body := func() {
			s := newSess(SrvOpt{Msize: 256, Dotu: dotu, Maxpend: maxpend})
			s.rpcOK(twalk(s.tag(), 0, 1, "f"), wire.Rwalk)
			s.rpcOK(&wire.Msg{Type: wire.Topen, Tag: s.tag(), Fid: 1, Mode: 0}, wire.Ropen)
			s.rpcOK(twalk(s.tag(), 0, 2, "g"), wire.Rwalk)
			s.rpcOK(&wire.Msg{Type: wire.Topen, Tag: s.tag(), Fid: 2, Mode: 1}, wire.Ropen)
			n0 := len(s.c.Collect())
			want := map[uint16]string{}
			for i := 0; i < n; i++ {
				g := vs.NewSem(0)
				rt, wt := uint16(1000+i), uint16(20000+i)
				s.fs.Script[reqKey{0, rt, 0}] = &Action{Gate: g}
				s.fs.Script[reqKey{0, wt, 0}] = &Action{Release: g}
			}
			for i := 0; i < n; i++ {
				s.c.Send(dotu, &wire.Msg{Type: wire.Tread, Tag: uint16(1000 + i), Fid: 1, Offset: uint64(i), Count: 8})
				want[uint16(1000+i)] = "Rread"
			}
			vs.Idle()
			for i := 0; i < n; i++ {
				s.c.Send(dotu, &wire.Msg{Type: wire.Twrite, Tag: uint16(20000 + i), Fid: 2, Offset: uint64(i), Data: []byte{byte(i)}})
				want[uint16(20000+i)] = "Rwrite"
			}
			vs.Idle()
			got := map[uint16]int{}
			for _, f := range s.c.Collect()[n0:] {
				if f.Msg == nil {
					fail = "a reply does not parse: " + f.Err
					return
				}
				got[f.Msg.Tag]++
				if w, ok := want[f.Msg.Tag]; !ok || wire.Names[f.Msg.Type] != w {
					fail = fmt.Sprintf("reply %s for a request answered as %q", f.Msg, w)
					return
				}
				if f.Msg.Type == wire.Rread {
					ok := false
					for _, r := range s.fs.resps(0, f.Msg.Tag, 0) {
						if r.Reply == renderReply(f.Msg) {
							ok = true
						}
					}
					if !ok {
						fail = fmt.Sprintf("the reply under tag %d is not what the implementation produced for that request: %s", f.Msg.Tag, renderReply(f.Msg))
						return
					}
				}
			}
			missing := 0
			first := uint16(0)
			for t := range want {
				if got[t] != 1 {
					if missing == 0 || t < first {
						first = t
					}
					missing++
				}
			}
			if missing > 0 {
				fail = fmt.Sprintf("%d of the %d requests did not get exactly one reply (e.g. tag %d: %d replies) with %d reads waiting in the implementation", missing, 2*n, first, got[first], n)
			}
		}
		x := vs.Run(nil, body, vs.Options{Horizon: 500000000})
		res.Evals++
		res.Nontrivial++
		res.States++
		res.Traces++
		if len(x.Panics) > 0 {
			fail = "panic: " + x.Panics[0].Value
		} else if len(x.Fails) > 0 && fail == "" {
			fail = "harness: " + x.Fails[0]
		}
		if fail != "" {
			res.Findings = append(res.Findings, Finding{Sig: "C03/queue-file/" + sigWords(fail), Msg: name + ": " + fail, Detail: map[string]any{"parked": fmt.Sprint(x.Parked)}})
		}
		return res
	}}
}

// c03AcrossVersion: a request is still busy in the implementation when a Tversion
// starts a new session; the new session uses its tag again for another slow request;
// the old one finishes; the new one is flushed; the tag is used a third time. The third
// request gets exactly one reply, its own; the second at most one.
func c03AcrossVersion(dotu bool, maxpend, P int) Scenario {
	var s *sess
	name := fmt.Sprintf("tag used three times across a Tversion maxpend=%d dotu=%v", maxpend, dotu)
	body := func() {
		s = newSess(SrvOpt{Msize: 256, Dotu: dotu, Maxpend: maxpend, Flush: maxpend > 0})
		s.fs.FlushMode = "ignore"
		a := s.prepare("read", 30, 100)
		b := s.prepare("read", 31, 100)
		c := s.prepare("stat", 32, 100)
		gA, gB := vs.NewSem(0), vs.NewSem(0)
		s.fs.Script[reqKey{0, 100, 0}] = &Action{Gate: gA}
		s.fs.Script[reqKey{0, 100, 1}] = &Action{Gate: gB}
		s.fs.Script[reqKey{0, 100, 2}] = &Action{StatName: "the-third-request"}
		s.c.Send(dotu, a)
		vs.Idle()
		ver := "9P2000"
		if dotu {
			ver = "9P2000.u"
		}
		if r := s.c.Version(256, ver); r == nil || r.Type != wire.Rversion {
			vs.Fail("Tversion in mid-session answered by %v", r)
		}
		s.setupN = len(s.c.Collect())
		vs.Window(true)
		s.c.Send(dotu, b)
		vs.Idle()
		gA.Release()
		vs.Idle()
		s.c.Send(dotu, &wire.Msg{Type: wire.Tflush, Tag: 101, Oldtag: 100})
		vs.Idle()
		// a client may use the tag again as soon as the Rflush is there
		early := false
		for _, f := range s.c.Collect()[s.setupN:] {
			if f.Msg != nil && f.Msg.Type == wire.Rflush && f.Msg.Tag == 101 {
				early = true
			}
		}
		if early {
			s.c.Send(dotu, c)
			vs.Idle()
			gB.Release()
			vs.Idle()
		} else {
			gB.Release()
			vs.Idle()
			s.c.Send(dotu, c)
			vs.Idle()
		}
		vs.Window(false)
		s.c.Collect()
	}
	check := stdCheck("C03", func(x *vs.Exec) *Viol {
		frames := s.c.Frames[s.setupN:]
		detail := map[string]any{"wire": strings.Split(framesString(frames), "\n"), "fslog": strings.Split(s.fs.logString(), "\n")}
		var t100 []*wire.Msg
		nflush := 0
		for _, f := range frames {
			if f.Msg == nil {
				return &Viol{Sig: "C03/malformed-frame", Msg: f.Err, Detail: detail}
			}
			switch f.Msg.Tag {
			case 100:
				t100 = append(t100, f.Msg)
			case 101:
				nflush++
			default:
				return &Viol{Sig: "C03/stray-reply/across-version", Msg: fmt.Sprintf("reply for a tag with no outstanding request: %s", f.Msg), Detail: detail}
			}
		}
		if nflush != 1 {
			return &Viol{Sig: fmt.Sprintf("C03/rflush-count-%d/across-version", nflush), Msg: fmt.Sprintf("the Tflush got %d replies\n%s", nflush, framesString(frames)), Detail: detail}
		}
		// the last reply under the tag is the third request's; before it at most one (the second's)
		if len(t100) == 0 || len(t100) > 2 {
			return &Viol{Sig: fmt.Sprintf("C03/reply-count-%d/tag-used-three-times", len(t100)), Msg: fmt.Sprintf("tag 100 was used for a second request (flushed) and a third after the Tversion: %d replies carry it\n%s", len(t100), framesString(frames)), Detail: detail}
		}
		last := t100[len(t100)-1]
		if last.Type != wire.Rstat || last.Stat.Name != "the-third-request" {
			return &Viol{Sig: "C03/wrong-content/tag-used-three-times", Msg: fmt.Sprintf("the third request under the tag (a Tstat) was answered by %s\n%s", last, framesString(frames)), Detail: detail}
		}
		if len(t100) == 2 && t100[0].Type == wire.Rstat {
			return &Viol{Sig: "C03/reply-count-2/third-request", Msg: "the third request under the tag got two replies\n" + framesString(frames), Detail: detail}
		}
		return nil
	}, nil)
	return vsScenario(&VsSpec{Name: name, Body: body, Check: check, P: P})
}

// c03ReplyHooks: an implementation with SrvReqProcess / SrvReqRespond that gives some
// replies their final form in SrvReqRespond; pipelined requests of several kinds. Each
// tag gets exactly one reply, its own.
func c03ReplyHooks(dotu bool, maxpend, P int) Scenario {
	name := fmt.Sprintf("implementation that packs replies again in SrvReqRespond maxpend=%d dotu=%v", maxpend, dotu)
	var s *sess
	var msgs []*wire.Msg
	body := func() {
		s = newSess(SrvOpt{Msize: 256, Dotu: dotu, Maxpend: maxpend, ReqHooks: true})
		msgs = []*wire.Msg{s.prepare("stat", 10, 100), s.prepare("open", 11, 101), s.prepare("read", 12, 102)}
		s.fs.Script[reqKey{0, 101, 0}] = &Action{Err: "refused by the implementation"}
		s.setupN = len(s.c.Collect())
		vs.Window(true)
		s.c.Send(dotu, msgs...)
		vs.Idle()
		vs.Window(false)
		s.c.Collect()
	}
	check := stdCheck("C03", func(x *vs.Exec) *Viol {
		frames := s.c.Frames[s.setupN:]
		detail := map[string]any{"wire": strings.Split(framesString(frames), "\n"), "fslog": strings.Split(s.fs.logString(), "\n")}
		got := map[uint16]int{}
		for _, f := range frames {
			if f.Msg == nil {
				return &Viol{Sig: "C03/reply-hooks/malformed-frame", Msg: f.Err, Detail: detail}
			}
			got[f.Msg.Tag]++
			ok := false
			for _, r := range s.fs.resps(0, f.Msg.Tag, 0) {
				if r.Reply == renderReply(f.Msg) {
					ok = true
				}
			}
			if !ok {
				return &Viol{Sig: "C03/reply-hooks/wrong-content", Msg: fmt.Sprintf("the reply %s is not what the implementation produced for the request with that tag\n%s", f.Msg, framesString(frames)), Detail: detail}
			}
		}
		for _, m := range msgs {
			if got[m.Tag] != 1 {
				return &Viol{Sig: fmt.Sprintf("C03/reply-hooks/reply-count-%d", got[m.Tag]), Msg: fmt.Sprintf("%s got %d replies\n%s", m, got[m.Tag], framesString(frames)), Detail: detail}
			}
		}
		return nil
	}, nil)
	return vsScenario(&VsSpec{Name: name, Body: body, Check: check, P: P})
}

// c03ReadsWhileWriterBlocked: a client may send many requests before it reads a reply
// (over a transport without buffering it cannot even finish sending them unless the
// server takes them in). While the server's writer is blocked on the first reply, the
// server still reads every request sent - flushes among them - and once the client
// reads, every request has its reply.
func c03ReadsWhileWriterBlocked(dotu bool, maxpend int) Scenario {
	name := fmt.Sprintf("requests and flushes sent while the writer is blocked are all taken in maxpend=%d dotu=%v", maxpend, dotu)
	return Scenario{Name: name, Run: func(rc *RunCtx) *Result {
		res := &Result{Exhaustive: true}
		var fail string
		body := func() {
			s := newSess(SrvOpt{Msize: 256, Dotu: dotu, Maxpend: maxpend})
			n0 := len(s.c.Collect())
			base := s.c.SrvEnd.ReadOffset()
			s.c.SrvEnd.StallOutgoing()
			msgs := []*wire.Msg{
				{Type: wire.Tstat, Tag: 10, Fid: 0},
				{Type: wire.Tflush, Tag: 11, Oldtag: 900},
				{Type: wire.Tflush, Tag: 12, Oldtag: 901},
				{Type: wire.Tstat, Tag: 13, Fid: 0},
				{Type: wire.Tflush, Tag: 14, Oldtag: 10},
				twalk(15, 0, 3, "d"),
				{Type: wire.Tflush, Tag: 16, Oldtag: 902},
				{Type: wire.Tstat, Tag: 17, Fid: 0},
			}
			total := 0
			for _, m := range msgs {
				total += len(wire.Encode(m, dotu))
				s.c.Send(dotu, m)
				vs.Idle()
			}
			if got := s.c.SrvEnd.ReadOffset() - base; got != total {
				fail = fmt.Sprintf("the client sent %d requests (%d bytes) without reading a reply; with its writer blocked the server took in only %d bytes - over a transport that does not buffer, the client could not finish sending", len(msgs), total, got)
			}
			s.c.SrvEnd.UnstallOutgoing()
			vs.Idle()
			cnt := map[uint16]int{}
			for _, f := range s.c.Collect()[n0:] {
				if f.Msg != nil {
					cnt[f.Msg.Tag]++
				}
			}
			for _, m := range msgs {
				if m.Tag == 10 {
					continue // flushed by tag 14: answered or not
				}
				if cnt[m.Tag] != 1 && fail == "" {
					fail = fmt.Sprintf("%s got %d replies once the client read again", m, cnt[m.Tag])
				}
			}
		}
		x := vs.Run(nil, body, vs.Options{Horizon: 100000000})
		res.Evals++
		res.Nontrivial++
		res.States++
		res.Traces++
		if len(x.Panics) > 0 {
			fail = "panic: " + x.Panics[0].Value
		} else if len(x.Fails) > 0 && fail == "" {
			fail = "harness: " + x.Fails[0]
		}
		if fail != "" {
			res.Findings = append(res.Findings, Finding{Sig: "C03/reads-while-writer-blocked/" + sigWords(fail), Msg: name + ": " + fail})
		}
		return res
	}}
}

// c03BurstBehindStalledWriter: n large replies (more than 64 KiB in all) become ready
// while the writer cannot write; then it can. Each request gets exactly one reply, its
// own (a writer that gathers replies must not send any of them twice).
func c03BurstBehindStalledWriter(n int, count uint32, maxpend int, dotu bool) Scenario {
	name := fmt.Sprintf("burst of %d replies of %d bytes behind a stalled writer maxpend=%d dotu=%v", n, count, maxpend, dotu)
	return Scenario{Name: name, Run: func(rc *RunCtx) *Result {
		res := &Result{Exhaustive: true}
		var fail string
		body := func() {
			s := newSess(SrvOpt{Msize: 8216, Dotu: dotu, Maxpend: maxpend})
			s.rpcOK(twalk(s.tag(), 0, 1, "f"), wire.Rwalk)
			s.rpcOK(&wire.Msg{Type: wire.Topen, Tag: s.tag(), Fid: 1, Mode: 0}, wire.Ropen)
			n0 := len(s.c.Collect())
			s.c.SrvEnd.StallOutgoing()
			for i := 0; i < n; i++ {
				tg := uint16(500 + i)
				s.fs.Script[reqKey{0, tg, 0}] = &Action{ReadFull: true}
				s.c.Send(dotu, &wire.Msg{Type: wire.Tread, Tag: tg, Fid: 1, Offset: uint64(i * 3), Count: count - uint32(i%5)})
				vs.Idle()
			}
			s.c.SrvEnd.UnstallOutgoing()
			vs.Idle()
			got := map[uint16]int{}
			for _, f := range s.c.Collect()[n0:] {
				if f.Msg == nil {
					fail = "a reply does not parse: " + f.Err
					return
				}
				got[f.Msg.Tag]++
				ok := false
				for _, r := range s.fs.resps(0, f.Msg.Tag, 0) {
					if r.Reply == renderReply(f.Msg) {
						ok = true
					}
				}
				if !ok {
					fail = fmt.Sprintf("the reply under tag %d is not what the implementation produced for that request", f.Msg.Tag)
					return
				}
			}
			for i := 0; i < n; i++ {
				if c := got[uint16(500+i)]; c != 1 {
					fail = fmt.Sprintf("tag %d was answered %d times (%d replies of about %d bytes were ready together while the writer was blocked)", 500+i, c, n, count)
					return
				}
			}
		}
		x := vs.Run(nil, body, vs.Options{Horizon: 500000000})
		res.Evals++
		res.Nontrivial++
		res.States++
		res.Traces++
		if len(x.Panics) > 0 {
			fail = "panic: " + x.Panics[0].Value
		} else if len(x.Fails) > 0 && fail == "" {
			fail = "harness: " + x.Fails[0]
		}
		if fail != "" {
			res.Findings = append(res.Findings, Finding{Sig: "C03/burst-behind-stalled-writer/" + sigWords(fail), Msg: name + ": " + fail})
		}
		return res
	}}
}

func c03Scenarios(tier string) []Scenario {
	var out []Scenario
	out = append(out, c03ReplyHooks(false, 0, 1), c03ReplyHooks(true, 2, 0))
	out = append(out, c03ReadsWhileWriterBlocked(false, 0), c03ReadsWhileWriterBlocked(true, 1), c03ReadsWhileWriterBlocked(false, 4))
	out = append(out, c03BurstBehindStalledWriter(12, 8000, 0, false), c03BurstBehindStalledWriter(20, 8192, 2, true), c03BurstBehindStalledWriter(70, 1000, 1, false))
	out = append(out, c03AcrossVersion(false, 0, 1), c03AcrossVersion(true, 2, 1))
	// Tflush is a request too: flushes of flushes are each owed exactly one reply
	for i, st := range []string{"flushflush2", "flushflush3", "twoflush"} {
		out = append(out, c07Scenario(c07Params{Prop: "C03", Kind: []string{"read", "stat", "write"}[i], Stage: st, FlushMode: "none", Gated: true, Rel: "late", Maxpend: i % 3, Dotu: i%2 == 0, P: 1}))
	}
	out = append(out, c03QueueFile(5, 0, false), c03QueueFile(64, 2, true), c03QueueFile(300, 0, true), c03QueueFile(1000, 1, false))
	if tier == "thorough" {
		out = append(out, c03QueueFile(5000, 0, false))
	}
	for i, pr := range [][2]uint32{{64, 1024}, {128, 8216}, {1024, 64}, {256, 256}} {
		out = append(out, c03Renegotiate(pr[0], pr[1], i%2 == 0))
	}
	out = append(out, c03TwoMsizes(64, 8216, true), c03TwoMsizes(256, 65560, false), c03TwoMsizes(4096, 128, true))
	add := func(reqs []reqSpec, maxpend int, dotu, oneseg bool, P int) {
		var gated []int
		for i, r := range reqs {
			if strings.HasPrefix(r.Script, "gate") {
				gated = append(gated, i)
			}
		}
		for _, rel := range perms(gated) {
			out = append(out, c03Scenario(c03Params{Reqs: append([]reqSpec(nil), reqs...), Release: rel, Maxpend: maxpend, Dotu: dotu, OneSegment: oneseg, P: P}))
		}
	}
	kinds := []string{"stat", "read", "write", "walk", "open", "clunk"}
	scripts2 := [][2]string{{"imm", "imm"}, {"gate", "imm"}, {"gate", "gate"}, {"twice", "imm"}, {"gatetwice", "gate"}, {"err", "gate"}}
	if tier == "quick" {
		i := 0
		for a := 0; a < len(kinds); a++ {
			for b := a; b < len(kinds); b++ {
				sc := scripts2[i%len(scripts2)]
				i++
				add([]reqSpec{{kinds[a], sc[0]}, {kinds[b], sc[1]}}, i%3, i%2 == 0, i%4 < 2, 2)
			}
		}
		for _, sc := range scripts2 {
			add([]reqSpec{{"read", sc[0]}, {"stat", sc[1]}}, 0, true, true, 2)
			add([]reqSpec{{"write", sc[0]}, {"read", sc[1]}}, 1, false, false, 2)
		}
		add([]reqSpec{{"read", "gate"}, {"write", "gate"}, {"stat", "gate"}}, 0, true, true, 1)
		for i, sc := range scripts2 {
			out = append(out, c03Scenario(c03Params{Reqs: []reqSpec{{"read", sc[0]}, {"stat", sc[1]}, {"write", "imm"}}, Release: gatedOf(sc[0], sc[1]), Maxpend: i % 3, Dotu: i%2 == 0, OneSegment: i%2 == 1, SlowReader: true, P: 1}))
		}
		out = append(out, c03FlushScenario("read", "stat", 1, 0, true, 2), c03FlushScenario("stat", "read", 2, 1, false, 2), c03FlushScenario("walk", "write", 1, 2, true, 2))
		out = append(out, c03ReuseScenario("stat", "read", "none", 0, true, 2), c03ReuseScenario("stat", "read", "default", 0, false, 2), c03ReuseScenario("read", "stat", "cancel", 1, true, 2), c03ReuseScenario("walk", "write", "default", 2, false, 2))
		return out
	}
	for a := 0; a < len(kinds); a++ {
		for b := a; b < len(kinds); b++ {
			for i, sc := range scripts2 {
				add([]reqSpec{{kinds[a], sc[0]}, {kinds[b], sc[1]}}, i%3, i%2 == 0, (a+b+i)%2 == 0, 3)
			}
		}
	}
	for i, sc := range scripts2 {
		for _, mp := range []int{0, 1, 2} {
			out = append(out, c03Scenario(c03Params{Reqs: []reqSpec{{"read", sc[0]}, {"stat", sc[1]}, {"write", "imm"}}, Release: gatedOf(sc[0], sc[1]), Maxpend: mp, Dotu: i%2 == 0, OneSegment: i%2 == 1, SlowReader: true, P: 2}))
		}
	}
	for _, mp := range []int{0, 1, 2} {
		add([]reqSpec{{"read", "gate"}, {"write", "gate"}, {"stat", "gate"}}, mp, true, true, 2)
		add([]reqSpec{{"walk", "gatetwice"}, {"clunk", "imm"}, {"open", "gate"}}, mp, false, false, 2)
		add([]reqSpec{{"stat", "twice"}, {"read", "twice"}, {"write", "imm"}}, mp, true, false, 2)
	}
	add([]reqSpec{{"read", "gate"}, {"write", "gate"}, {"stat", "gate"}, {"open", "gate"}}, 0, true, true, 1)
	add([]reqSpec{{"read", "gate"}, {"write", "gate"}, {"stat", "gate"}, {"open", "gate"}, {"clunk", "gate"}}, 0, false, true, 0)
	for i, ka := range kinds {
		out = append(out, c03FlushScenario(ka, kinds[(i+1)%len(kinds)], 1+i%2, i%3, i%2 == 0, 3))
	}
	for i, ka := range kinds {
		for j, fl := range []string{"none", "default", "cancel"} {
			out = append(out, c03ReuseScenario(ka, kinds[(i+2)%len(kinds)], fl, (i+j)%3, (i+j)%2 == 0, 3))
		}
	}
	// many outstanding requests, default schedule and P=1
	big := func(n int) []reqSpec {
		var r []reqSpec
		for i := 0; i < n; i++ {
			r = append(r, reqSpec{kinds[i%len(kinds)], "imm"})
		}
		return r
	}
	out = append(out, c03Scenario(c03Params{Reqs: big(8), Maxpend: 0, Dotu: true, OneSegment: true, P: 1}))
	out = append(out, c03Scenario(c03Params{Reqs: big(64), Maxpend: 2, Dotu: false, OneSegment: true, P: 0}))
	return out
}

func init() {
	register(&Property{ID: "C03", Level: "model_checking",
		Technique: "stateless model checking of the real server under a controlled scheduler (all schedules within a preemption bound)",
		Rule:      "every schedule with at most P preemptions (P iterated 0..bound, select-case choices free) of server recv/worker/send goroutines + scripted implementation + releaser, per scenario (request kinds x scripts x release order x Maxpend x dialect x segmentation; late answers of cancelled requests; a reactive client re-using a tag the moment its reply is read, with and without a Tflush of the second use and a third use after the Rflush; sessions renegotiated to a larger / smaller msize with reads of every size class; two connections of one server with different msize used in turn); distinct = distinct per-object operation orders (trace hash) ; more than 64 KiB of replies becoming ready behind a blocked writer; an implementation with SrvReqProcess / SrvReqRespond that packs replies again before they are sent",
		Assumptions: []string{"code between two synchronisation operations is atomic (sound for race-free executions; C19 checks race freedom)", "transport modelled as an unbounded reliable byte queue", "map iteration fixed to ascending key order"},
		Scenarios:   c03Scenarios, QuickS: 180, ThoroughS: 1500})
}
