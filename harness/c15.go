package main

import (
	"time"
	"strconv"
	"syscall"
	"fmt"
	"os"
	"path/filepath"
	"sort"
	"strings"

	"github.com/rminnich/go9p"
	"github.com/rminnich/go9p/vs"
	"harness/wire"
)

// C15: directory reads return whole entries, each exactly once.

func c15MakeDir(root string, nameLens []int) []string {
	os.RemoveAll(filepath.Join(root, "dir"))
	os.MkdirAll(filepath.Join(root, "dir"), 0o755)
	var names []string
	for i, l := range nameLens {
		n := fmt.Sprintf("%c", 'a'+i%26) + strings.Repeat(fmt.Sprintf("%d", i%10), l-1)
		if l >= 2 {
			n = fmt.Sprintf("%c%c", 'a'+i%26, 'a'+(i/26)%26) + strings.Repeat("x", l-2)
		}
		names = append(names, n)
		os.WriteFile(filepath.Join(root, "dir", n), []byte(strings.Repeat("z", i%5)), 0o644)
	}
	sort.Strings(names)
	return names
}

// listing reads the directory by the protocol's offset rule with a fixed count and
// returns the names seen, or an error description.
func c15List(cl *Cli, dotu bool, fid uint32, count uint32, tagBase uint16) (names []string, sizes []int, bad string) {
	off := uint64(0)
	for step := 0; step < 100000; step++ {
		r := cl.Rpc(&wire.Msg{Type: wire.Tread, Tag: tagBase, Fid: fid, Offset: off, Count: count})
		if r == nil {
			return names, sizes, "no reply to a directory Tread"
		}
		if r.Type == wire.Rerror {
			return names, sizes, "ERR:" + r.Ename
		}
		if len(r.Data) == 0 {
			return names, sizes, ""
		}
		if uint32(len(r.Data)) > count {
			return names, sizes, fmt.Sprintf("reply carries %d bytes for a count of %d", len(r.Data), count)
		}
		b := r.Data
		for len(b) > 0 {
			st, rest, err := wire.DecodeStat(b, dotu)
			if err != nil {
				return names, sizes, fmt.Sprintf("reply at offset %d (count %d) does not split into whole stat records: %v", off, count, err)
			}
			names = append(names, st.Name)
			sizes = append(sizes, len(b)-len(rest))
			b = rest
		}
		off += uint64(len(r.Data))
	}
	return names, sizes, "listing does not end"
}

func c15Scenario(nameLens []int, msize uint32, dotu bool) Scenario {
	name := fmt.Sprintf("dirread names=%v msize=%d dotu=%v", nameLens, msize, dotu)
	if len(nameLens) > 8 {
		name = fmt.Sprintf("dirread %d-entries msize=%d dotu=%v", len(nameLens), msize, dotu)
	}
	return Scenario{Name: name, Run: func(rc *RunCtx) *Result {
		res := &Result{Exhaustive: true}
		base, root := scratchDir("c15")
		defer os.RemoveAll(base)
		want := c15MakeDir(root, nameLens)
		seen := map[string]bool{}
		fail := func(sig, msg string) {
			if !seen[sig] && len(res.Findings) < 8 {
				seen[sig] = true
				res.Findings = append(res.Findings, Finding{Sig: "C15/" + sig, Msg: fmt.Sprintf("%s (directory with name lengths %v, msize %d, dotu %v)", msg, nameLens, msize, dotu)})
			}
		}
		body := func() {
			h := newUfsH(root, msize, dotu)
			cl := h.Connect()
			ver := "9P2000"
			if dotu {
				ver = "9P2000.u"
			}
			cl.Version(msize, ver)
			cl.Rpc(tattach(1, 0, wire.NOFID, "", uint32(os.Geteuid()), dotu))
			open := func(fid uint32) bool {
				r := cl.Rpc(twalk(2, 0, fid, "dir"))
				if r == nil || r.Type != wire.Rwalk {
					return false
				}
				r = cl.Rpc(&wire.Msg{Type: wire.Topen, Tag: 3, Fid: fid, Mode: 0})
				return r != nil && r.Type == wire.Ropen
			}
			if !open(1) {
				fail("setup", "cannot open the directory")
				return
			}
			L := msize - 24
			// reference listing with the largest count: gives entry sizes
			all, sizes, bad := c15List(cl, dotu, 1, L, 10)
			if bad != "" {
				fail("listing/"+sigWords(bad), "full-size listing: "+bad)
				return
			}
			got := append([]string{}, all...)
			sort.Strings(got)
			if strings.Join(got, "\x00") != strings.Join(want, "\x00") {
				fail("entries-differ", fmt.Sprintf("listing returned %d entries %v, the directory holds %d", len(got), got, len(want)))
				return
			}
			maxE, total := 0, 0
			for _, s := range sizes {
				total += s
				if s > maxE {
					maxE = s
				}
			}
			if len(sizes) == 0 {
				maxE = 1
			}
			// every count from the largest entry size to the total + 1
			hi := total + 1
			if hi > int(L) {
				hi = int(L)
			}
			var cnts []int
			if total <= 1200 {
				for c := maxE; c <= hi; c++ {
					cnts = append(cnts, c)
				}
			} else {
				cnts = []int{maxE, maxE + 1, 2*maxE - 1, 4096, int(L)}
			}
			for _, c := range cnts {
				if c > int(L) || c < 1 {
					continue
				}
				if rc.Expired() {
					res.Exhaustive = false
					res.CapHit = "internal deadline"
					return
				}
				res.Evals++
				names, _, bad := c15List(cl, dotu, 1, uint32(c), 11)
				if bad != "" {
					fail("listing/"+sigWords(bad), fmt.Sprintf("count %d: %s", c, bad))
					continue
				}
				g := append([]string{}, names...)
				sort.Strings(g)
				if strings.Join(g, "\x00") != strings.Join(want, "\x00") {
					dup := map[string]int{}
					for _, n := range names {
						dup[n]++
					}
					fail("entries-not-exactly-once", fmt.Sprintf("count %d: the listing returned %d entries for a directory of %d (multiplicities %v)", c, len(names), len(want), dup))
				}
			}
			// a count too small for the next entry: an error, not a truncated or empty reply
			offs := []int{0}
			for _, s := range sizes {
				offs = append(offs, offs[len(offs)-1]+s)
			}
			for i, s := range sizes {
				if len(sizes) > 12 && i%(len(sizes)/6) != 0 {
					continue // large directories: a sample of the boundaries (each probe re-reads the snapshot)
				}
				for _, c := range []int{1, s - 1, s / 2} {
					if c < 1 || c >= s {
						continue
					}
					res.Evals++
					// prime the snapshot, then read at the record boundary
					cl.Rpc(&wire.Msg{Type: wire.Tread, Tag: 12, Fid: 1, Offset: 0, Count: L})
					r := cl.Rpc(&wire.Msg{Type: wire.Tread, Tag: 12, Fid: 1, Offset: uint64(offs[i]), Count: uint32(c)})
					if r == nil || r.Type != wire.Rerror {
						fail("small-count-not-an-error", fmt.Sprintf("Tread at entry boundary %d with count %d (entry needs %d) answered by %v instead of an error", offs[i], c, s, r))
					}
				}
			}
			// restart at offset 0 after each prefix of the listing
			for i := range sizes {
				if len(sizes) > 12 && i%(len(sizes)/4) != 0 {
					continue
				}
				if rc.Expired() {
					res.Exhaustive = false
					res.CapHit = "internal deadline"
					return
				}
				res.Evals++
				off := uint64(0)
				for k := 0; k <= i; k++ {
					r := cl.Rpc(&wire.Msg{Type: wire.Tread, Tag: 13, Fid: 1, Offset: off, Count: uint32(sizes[k])})
					if r == nil || r.Type != wire.Rread {
						fail("prefix-read", fmt.Sprintf("reading entry %d alone: %v", k, r))
						break
					}
					off += uint64(len(r.Data))
				}
				names, _, bad := c15List(cl, dotu, 1, L, 14)
				g := append([]string{}, names...)
				sort.Strings(g)
				if bad != "" || strings.Join(g, "\x00") != strings.Join(want, "\x00") {
					fail("reread-from-zero", fmt.Sprintf("after reading %d entries, rereading from offset 0 gave %d entries (%s)", i+1, len(names), bad))
				}
			}
		}
		x := vs.Run(nil, body, vs.Options{Horizon: 500000000})
		if len(x.Panics) > 0 {
			fail("panic/"+x.Panics[0].Frame, "panic: "+x.Panics[0].Value)
		}
		// rereading from offset 0 lists the directory as it is now, also when the file
		// system's timestamps are too coarse to show that it changed (the directory's
		// mtime is put back after each change)
		if len(want) <= 12 {
			body2 := func() {
				h := newUfsH(root, msize, dotu)
				cl := h.Connect()
				ver := "9P2000"
				if dotu {
					ver = "9P2000.u"
				}
				cl.Version(msize, ver)
				un := ""
				if !dotu {
					un = go9p.OsUsers.Uid2User(os.Geteuid()).Name()
				}
				cl.Rpc(tattach(1, 0, wire.NOFID, un, uint32(os.Geteuid()), dotu))
				cl.Rpc(twalk(2, 0, 1, "dir"))
				if r := cl.Rpc(&wire.Msg{Type: wire.Topen, Tag: 3, Fid: 1, Mode: 0}); r == nil || r.Type != wire.Ropen {
					fail("open-dir", fmt.Sprintf("Topen of the directory: %v", r))
					return
				}
				dirp := filepath.Join(root, "dir")
				fi, err := os.Stat(dirp)
				if err != nil {
					return
				}
				mt := fi.ModTime()
				L := msize - 24
				c15List(cl, dotu, 1, L, 20)
				steps := []struct {
					what string
					do   func()
					want []string
				}{
					{"a file was created", func() { os.WriteFile(filepath.Join(dirp, "zz-added"), []byte("x"), 0o644) }, append(append([]string{}, want...), "zz-added")},
					{"that file was removed again", func() { os.Remove(filepath.Join(dirp, "zz-added")) }, want},
				}
				for _, st := range steps {
					st.do()
					os.Chtimes(dirp, mt, mt)
					res.Evals++
					names, _, bad := c15List(cl, dotu, 1, L, 21)
					g := append([]string{}, names...)
					sort.Strings(g)
					w := append([]string{}, st.want...)
					sort.Strings(w)
					if bad != "" || strings.Join(g, "\x00") != strings.Join(w, "\x00") {
						fail("reread-from-zero-after-change", fmt.Sprintf("%s (directory mtime unchanged): rereading from offset 0 on the open fid gave %d entries, the directory has %d (%s)", st.what, len(g), len(w), bad))
					}
				}
			}
			x2 := vs.Run(nil, body2, vs.Options{Horizon: 500000000})
			if len(x2.Panics) > 0 {
				fail("panic/"+x2.Panics[0].Frame, "panic: "+x2.Panics[0].Value)
			}
		}
		// the client's Readdir(0)
		bad := withUfsClient(root, msize, dotu, func(c *go9p.Clnt, h *SrvH) string {
			f, err := c.FOpen("dir", go9p.OREAD)
			if err != nil {
				return err.Error()
			}
			ds, err := f.Readdir(0)
			if err != nil {
				return "Readdir(0): " + err.Error()
			}
			var g []string
			for _, d := range ds {
				g = append(g, d.Name)
			}
			sort.Strings(g)
			if strings.Join(g, "\x00") != strings.Join(want, "\x00") {
				return fmt.Sprintf("Readdir(0) returned %d entries, the directory holds %d", len(g), len(want))
			}
			return ""
		})
		res.Evals++
		if bad != "" {
			fail("readdir/"+sigWords(bad), bad)
		}
		res.Nontrivial = res.Evals
		res.Samples = append(res.Samples, fmt.Sprintf("entries %v: every count from the largest entry to the listing size + 1, short counts at every boundary, restart after every prefix, Readdir(0)", want))
		return res
	}}
}

func multisets(vals []int, n int) [][]int {
	if n == 0 {
		return [][]int{{}}
	}
	var out [][]int
	for i, v := range vals {
		for _, rest := range multisets(vals[i:], n-1) {
			out = append(out, append([]int{v}, rest...))
		}
	}
	return out
}

// c15Vanishing: while the server takes its picture of the directory, the host removes
// one entry, at the worst moment: after the names were read and before the entry is
// examined (the seam is vs.Readdir, which does what package os does). Whichever entry
// that is, every other entry -- there the whole time -- is listed exactly once.
func c15Vanishing(n int, ks []int, msize uint32, dotu bool) Scenario {
	name := fmt.Sprintf("dirread %d-entries, one vanishes while being listed (positions %v) msize=%d dotu=%v", n, ks, msize, dotu)
	return Scenario{Name: name, Run: func(rc *RunCtx) *Result {
		res := &Result{Exhaustive: true}
		base, root := scratchDir("c15v")
		defer os.RemoveAll(base)
		var lens []int
		for i := 0; i < n; i++ {
			lens = append(lens, 3+(i*7)%40)
		}
		seen := map[string]bool{}
		fail := func(sig, msg string) {
			if !seen[sig] && len(res.Findings) < 8 {
				seen[sig] = true
				res.Findings = append(res.Findings, Finding{Sig: "C15/" + sig, Msg: fmt.Sprintf("%s (directory of %d entries, msize %d, dotu %v)", msg, n, msize, dotu)})
			}
		}
		defer func() { vs.ReaddirHook = nil }()
		for _, k := range ks {
			if rc.Expired() {
				res.Exhaustive = false
				res.CapHit = "internal deadline"
				break
			}
			want := c15MakeDir(root, lens)
			gone := ""
			calls := 0
			vs.ReaddirHook = func(dir, nm string) {
				if filepath.Base(dir) != "dir" {
					return
				}
				if calls == k {
					gone = nm
					os.Remove(filepath.Join(dir, nm))
				}
				calls++
			}
			body := func() {
				h := newUfsH(root, msize, dotu)
				cl := h.Connect()
				ver := "9P2000"
				if dotu {
					ver = "9P2000.u"
				}
				cl.Version(msize, ver)
				cl.Rpc(tattach(1, 0, wire.NOFID, "", uint32(os.Geteuid()), dotu))
				if r := cl.Rpc(twalk(2, 0, 1, "dir")); r == nil || r.Type != wire.Rwalk {
					fail("setup", "cannot walk to the directory")
					return
				}
				if r := cl.Rpc(&wire.Msg{Type: wire.Topen, Tag: 3, Fid: 1, Mode: 0}); r == nil || r.Type != wire.Ropen {
					fail("setup", "cannot open the directory")
					return
				}
				names, _, bad := c15List(cl, dotu, 1, msize-24, 10)
				res.Evals++
				if bad != "" {
					fail("vanishing/listing/"+sigWords(bad), fmt.Sprintf("entry %q removed by the host while it was being listed (position %d): %s", gone, k, bad))
					return
				}
				mult := map[string]int{}
				for _, nm := range names {
					mult[nm]++
				}
				var missing, repeated []string
				for _, w := range want {
					switch {
					case w == gone:
					case mult[w] == 0:
						missing = append(missing, w)
					case mult[w] > 1:
						repeated = append(repeated, w)
					}
				}
				if len(missing)+len(repeated) > 0 {
					if len(missing) > 5 {
						missing = append(missing[:5], "...")
					}
					fail("vanishing/entries-not-exactly-once", fmt.Sprintf("the host removed entry %q (position %d of the host's order) while the directory was being read; of the %d entries that were there the whole time, %d were listed; missing %v, repeated %v", gone, k, len(want)-1, len(names), missing, repeated))
				}
			}
			x := vs.Run(nil, body, vs.Options{Horizon: 100000000})
			if len(x.Panics) > 0 {
				fail("panic/"+x.Panics[0].Frame, "panic: "+x.Panics[0].Value)
			}
			if gone == "" && k < n {
				fail("vanishing/seam-not-reached", fmt.Sprintf("the directory read did not go through the Readdir seam (%d calls)", calls))
			}
		}
		res.Nontrivial = res.Evals
		res.Samples = append(res.Samples, fmt.Sprintf("%d entries, removal at positions %v of the host's order", n, ks))
		return res
	}}
}

// c15Reread: a directory open on a fid is listed, something happens to it through the
// protocol (it is renamed or its mode changed through that very fid; entries are
// created, removed, renamed through other fids), and it is listed again from offset 0
// on the same fid: the second listing is what the host holds then.
func c15Reread(msize uint32, dotu bool) Scenario {
	name := fmt.Sprintf("dirread again from offset 0 after a change made through the protocol msize=%d dotu=%v", msize, dotu)
	return Scenario{Name: name, Run: func(rc *RunCtx) *Result {
		res := &Result{Exhaustive: true}
		seen := map[string]bool{}
		fail := func(sig, msg string) {
			if !seen[sig] && len(res.Findings) < 8 {
				seen[sig] = true
				res.Findings = append(res.Findings, Finding{Sig: "C15/reread/" + sig, Msg: fmt.Sprintf("%s (msize %d, dotu %v)", msg, msize, dotu)})
			}
		}
		noch := wire.Stat{Type: 0xFFFF, Dev: 0xFFFFFFFF, Qid: wire.Qid{Type: 0xFF, Vers: 0xFFFFFFFF, Path: ^uint64(0)}, Mode: 0xFFFFFFFF, Atime: 0xFFFFFFFF, Mtime: 0xFFFFFFFF, Length: ^uint64(0), NUid: 0xFFFFFFFF, NGid: 0xFFFFFFFF, NMuid: 0xFFFFFFFF}
		events := []string{"nothing", "the directory renamed through the open fid", "the directory renamed through the open fid, twice", "its mode changed through the open fid", "an entry created", "an entry removed", "an entry renamed", "the directory renamed through the open fid and an entry created"}
		for _, ev := range events {
			base, root := scratchDir("c15r")
			dir := filepath.Join(root, "dir")
			os.MkdirAll(filepath.Join(dir, "sub"), 0o755)
			for _, n := range []string{"a", "b", "c"} {
				os.WriteFile(filepath.Join(dir, n), []byte(n), 0o644)
			}
			body := func() {
				h := newUfsH(root, msize, dotu)
				cl := h.Connect()
				ver := "9P2000"
				if dotu {
					ver = "9P2000.u"
				}
				cl.Version(msize, ver)
				cl.Rpc(tattach(1, 0, wire.NOFID, "", uint32(os.Geteuid()), dotu))
				cl.Rpc(twalk(2, 0, 1, "dir"))
				if r := cl.Rpc(&wire.Msg{Type: wire.Topen, Tag: 3, Fid: 1, Mode: 0}); r == nil || r.Type != wire.Ropen {
					fail("setup", "cannot open the directory")
					return
				}
				if _, _, bad := c15List(cl, dotu, 1, msize-24, 10); bad != "" {
					fail("setup", "first listing: "+bad)
					return
				}
				now := dir
				ok := func(r *wire.Msg, t uint8, what string) bool {
					if r == nil || r.Type != t {
						fail("setup", fmt.Sprintf("%s answered %v", what, r))
						return false
					}
					return true
				}
				rename := func(to string) bool {
					st := noch
					st.Name = to
					now = filepath.Join(root, to)
					return ok(cl.Rpc(&wire.Msg{Type: wire.Twstat, Tag: 4, Fid: 1, Stat: st}), wire.Rwstat, "Twstat renaming the directory")
				}
				create := func() bool {
					cl.Rpc(twalk(2, 0, 5, filepath.Base(now)))
					r := cl.Rpc(&wire.Msg{Type: wire.Tcreate, Tag: 4, Fid: 5, Name: "made", Perm: 0644, Mode: 1})
					cl.Rpc(&wire.Msg{Type: wire.Tclunk, Tag: 4, Fid: 5})
					return ok(r, wire.Rcreate, "Tcreate in the directory")
				}
				switch ev {
				case "the directory renamed through the open fid":
					if !rename("dir2") {
						return
					}
				case "the directory renamed through the open fid, twice":
					if !rename("dir2") || !rename("dir3") {
						return
					}
				case "its mode changed through the open fid":
					st := noch
					st.Mode = 0x80000000 | 0o750
					if !ok(cl.Rpc(&wire.Msg{Type: wire.Twstat, Tag: 4, Fid: 1, Stat: st}), wire.Rwstat, "Twstat changing the mode") {
						return
					}
				case "an entry created":
					if !create() {
						return
					}
				case "an entry removed":
					cl.Rpc(twalk(2, 0, 5, "dir", "b"))
					if !ok(cl.Rpc(&wire.Msg{Type: wire.Tremove, Tag: 4, Fid: 5}), wire.Rremove, "Tremove of an entry") {
						return
					}
				case "an entry renamed":
					cl.Rpc(twalk(2, 0, 5, "dir", "c"))
					st := noch
					st.Name = "c2"
					r := cl.Rpc(&wire.Msg{Type: wire.Twstat, Tag: 4, Fid: 5, Stat: st})
					cl.Rpc(&wire.Msg{Type: wire.Tclunk, Tag: 4, Fid: 5})
					if !ok(r, wire.Rwstat, "Twstat renaming an entry") {
						return
					}
				case "the directory renamed through the open fid and an entry created":
					if !rename("dir2") || !create() {
						return
					}
				}
				res.Evals++
				names, _, bad := c15List(cl, dotu, 1, msize-24, 10)
				if bad != "" {
					fail("listing/"+sigWords(bad), fmt.Sprintf("after %s, reading the directory again from offset 0 on the same fid: %s", ev, bad))
					return
				}
				var want []string
				ents, _ := os.ReadDir(now)
				for _, e := range ents {
					want = append(want, e.Name())
				}
				sort.Strings(names)
				sort.Strings(want)
				if strings.Join(names, ",") != strings.Join(want, ",") {
					fail("entries", fmt.Sprintf("after %s, reading the directory again from offset 0 on the same fid lists %v; the host holds %v", ev, names, want))
				}
			}
			x := vs.Run(nil, body, vs.Options{Horizon: 100000000})
			if len(x.Panics) > 0 {
				fail("panic/"+x.Panics[0].Frame, "panic: "+x.Panics[0].Value)
			}
			os.RemoveAll(base)
		}
		res.Nontrivial = res.Evals
		res.Samples = append(res.Samples, fmt.Sprintf("events: %v", events))
		return res
	}}
}

// c15AtDescriptorLimit: the server process cannot open one more file than it has open
// (its descriptor limit is reached - clients holding many fids open do that). Listing
// an open directory again from offset 0 still works: it needs no additional descriptor.
func c15AtDescriptorLimit(dotu bool) Scenario {
	name := fmt.Sprintf("dirread again from offset 0 with no spare descriptor dotu=%v", dotu)
	return Scenario{Name: name, Run: func(rc *RunCtx) *Result {
		res := &Result{Exhaustive: true}
		base, root := scratchDir("c15d")
		defer os.RemoveAll(base)
		os.MkdirAll(filepath.Join(root, "dir"), 0o755)
		want := []string{"a", "b", "c"}
		for _, n := range want {
			os.WriteFile(filepath.Join(root, "dir", n), []byte(n), 0o644)
		}
		var bad string
		var names []string
		var lim syscall.Rlimit
		syscall.Getrlimit(syscall.RLIMIT_NOFILE, &lim)
		body := func() {
			h := newUfsH(root, 8216, dotu)
			cl := h.Connect()
			ver := "9P2000"
			if dotu {
				ver = "9P2000.u"
			}
			cl.Version(8216, ver)
			cl.Rpc(tattach(1, 0, wire.NOFID, "", uint32(os.Geteuid()), dotu))
			cl.Rpc(twalk(2, 0, 1, "dir"))
			if r := cl.Rpc(&wire.Msg{Type: wire.Topen, Tag: 3, Fid: 1, Mode: 0}); r == nil || r.Type != wire.Ropen {
				bad = "cannot open the directory"
				return
			}
			if _, _, b := c15List(cl, dotu, 1, 8000, 10); b != "" {
				bad = "first listing: " + b
				return
			}
			// the lowest descriptor number not in use becomes the limit: nothing more can be opened
			used := map[int]bool{}
			if ents, err := os.ReadDir("/proc/self/fd"); err == nil {
				for _, e := range ents {
					if n, err := strconv.Atoi(e.Name()); err == nil {
						used[n] = true
					}
				}
			}
			free := 0
			for used[free] {
				free++
			}
			// (the descriptor ReadDir itself used is closed again and may be the lowest free one)
			if f, err := os.Open("/"); err == nil {
				if int(f.Fd()) < free {
					free = int(f.Fd())
				}
				f.Close()
			}
			low := lim
			low.Cur = uint64(free)
			if err := syscall.Setrlimit(syscall.RLIMIT_NOFILE, &low); err != nil {
				bad = "harness: setrlimit: " + err.Error()
				return
			}
			res.Evals++
			var b string
			names, _, b = c15List(cl, dotu, 1, 8000, 10)
			syscall.Setrlimit(syscall.RLIMIT_NOFILE, &lim)
			if b != "" {
				bad = "with every descriptor the process may have in use, reading the open directory again from offset 0: " + b
			}
		}
		x := vs.Run(nil, body, vs.Options{Horizon: 100000000})
		syscall.Setrlimit(syscall.RLIMIT_NOFILE, &lim)
		res.Nontrivial = res.Evals
		if len(x.Panics) > 0 {
			bad = "panic: " + x.Panics[0].Value
		}
		if bad == "" {
			sort.Strings(names)
			if strings.Join(names, ",") != strings.Join(want, ",") {
				bad = fmt.Sprintf("with no spare descriptor the second listing is %v, the directory holds %v", names, want)
			}
		}
		if bad != "" {
			res.Findings = append(res.Findings, Finding{Sig: "C15/descriptor-limit/" + sigWords(bad), Msg: bad})
		}
		return res
	}}
}

// c15LongTargets: entries far larger than a name allows - symbolic links whose target
// (carried in the 9P2000.u stat record) is 0..hi bytes long, so that the record sizes
// sweep every value up to well beyond 1024. Each directory {a, L -> target, z} is listed
// with a large count and with the smallest count that fits its largest entry.
func c15LongTargets(msize uint32, lo, hi int, dotu bool) Scenario {
	name := fmt.Sprintf("dirread symlink-target-lengths %d..%d msize=%d dotu=%v", lo, hi, msize, dotu)
	return Scenario{Name: name, Run: func(rc *RunCtx) *Result {
		res := &Result{Exhaustive: true}
		base, root := scratchDir("c15l")
		defer os.RemoveAll(base)
		seen := map[string]bool{}
		fail := func(sig, msg string) {
			if !seen[sig] && len(res.Findings) < 6 {
				seen[sig] = true
				res.Findings = append(res.Findings, Finding{Sig: "C15/" + sig, Msg: msg + fmt.Sprintf(" (msize %d, dotu %v)", msize, dotu)})
			}
		}
		os.MkdirAll(filepath.Join(root, "dir"), 0o755)
		os.WriteFile(filepath.Join(root, "dir", "a"), []byte("a"), 0o644)
		os.WriteFile(filepath.Join(root, "dir", "z"), []byte("zz"), 0o644)
		body := func() {
			h := newUfsH(root, msize, dotu)
			cl := h.Connect()
			ver := "9P2000"
			if dotu {
				ver = "9P2000.u"
			}
			cl.Version(msize, ver)
			cl.Rpc(tattach(1, 0, wire.NOFID, "", uint32(os.Geteuid()), dotu))
			cl.Rpc(twalk(2, 0, 1, "dir"))
			if r := cl.Rpc(&wire.Msg{Type: wire.Topen, Tag: 3, Fid: 1, Mode: 0}); r == nil || r.Type != wire.Ropen {
				fail("setup", "cannot open the directory")
				return
			}
			for t := lo; t <= hi; t++ {
				if rc.Expired() {
					res.Exhaustive = false
					res.CapHit = "internal deadline"
					return
				}
				os.Remove(filepath.Join(root, "dir", "L"))
				// the target: path elements of at most 200 bytes
				var tb []byte
				for len(tb) < t {
					if len(tb)%200 == 199 {
						tb = append(tb, '/')
					} else {
						tb = append(tb, 'x')
					}
				}
				if t > 0 {
					if err := os.Symlink(string(tb), filepath.Join(root, "dir", "L")); err != nil {
						continue
					}
				}
				want := "a,z"
				if t > 0 {
					want = "L,a,z"
				}
				all, sizes, bad := c15List(cl, dotu, 1, msize-24, 10)
				res.Evals++
				maxE := 0
				for _, s := range sizes {
					if s > maxE {
						maxE = s
					}
				}
				sort.Strings(all)
				if bad != "" || strings.Join(all, ",") != want {
					fail("long-target/listing", fmt.Sprintf("symlink target of %d bytes (largest record %d bytes): full-size listing returned %v %s", t, maxE, all, bad))
					continue
				}
				for _, cnt := range []int{maxE, maxE + 1, maxE + 60} {
					got, _, bad := c15List(cl, dotu, 1, uint32(cnt), 11)
					res.Evals++
					sort.Strings(got)
					if bad != "" || strings.Join(got, ",") != want {
						fail("long-target/entries-not-exactly-once", fmt.Sprintf("symlink target of %d bytes (largest record %d bytes), count %d: listing returned %v %s", t, maxE, cnt, got, bad))
					}
				}
			}
		}
		x := vs.Run(nil, body, vs.Options{Horizon: 500000000})
		if len(x.Panics) > 0 {
			fail("panic/"+x.Panics[0].Frame, "panic: "+x.Panics[0].Value)
		}
		res.Nontrivial = res.Evals
		return res
	}}
}

// c15UnreadableLink: the host lists a symbolic link but refuses to say where it points
// (as /proc does for some): the entry is still an entry of the directory, listed once.
func c15UnreadableLink(dotu bool, errno syscall.Errno) Scenario {
	name := fmt.Sprintf("dirread with a symbolic link the host refuses to read (%v) dotu=%v", errno, dotu)
	return Scenario{Name: name, Run: func(rc *RunCtx) *Result {
		res := &Result{Exhaustive: true}
		base, root := scratchDir("c15u")
		defer os.RemoveAll(base)
		os.MkdirAll(filepath.Join(root, "dir"), 0o755)
		os.WriteFile(filepath.Join(root, "dir", "a"), []byte("a"), 0o644)
		os.WriteFile(filepath.Join(root, "dir", "z"), []byte("zz"), 0o644)
		os.Symlink("a", filepath.Join(root, "dir", "L"))
		os.Symlink("nowhere", filepath.Join(root, "dir", "M"))
		vs.HostHook = func(op, path string) error {
			if op == "readlink" && strings.HasSuffix(path, "/dir/L") {
				return errno
			}
			return nil
		}
		defer func() { vs.HostHook = nil }()
		var bad string
		body := func() {
			h := newUfsH(root, 8216, dotu)
			cl := h.Connect()
			ver := "9P2000"
			if dotu {
				ver = "9P2000.u"
			}
			cl.Version(8216, ver)
			cl.Rpc(tattach(1, 0, wire.NOFID, "", uint32(os.Geteuid()), dotu))
			cl.Rpc(twalk(2, 0, 1, "dir"))
			if r := cl.Rpc(&wire.Msg{Type: wire.Topen, Tag: 3, Fid: 1, Mode: 0}); r == nil || r.Type != wire.Ropen {
				bad = "cannot open the directory"
				return
			}
			for _, cnt := range []uint32{8192, 200, 120} {
				got, _, b := c15List(cl, dotu, 1, cnt, 10)
				res.Evals++
				sort.Strings(got)
				if b != "" || strings.Join(got, ",") != "L,M,a,z" {
					bad = fmt.Sprintf("count %d: the listing returned %v %s; the directory holds L, M, a, z", cnt, got, b)
					return
				}
			}
		}
		x := vs.Run(nil, body, vs.Options{Horizon: 100000000})
		if len(x.Panics) > 0 {
			bad = "panic: " + x.Panics[0].Value
		}
		res.Nontrivial = res.Evals
		if bad != "" {
			res.Findings = append(res.Findings, Finding{Sig: "C15/unreadable-link/" + sigWords(bad), Msg: name + ": " + bad})
		}
		return res
	}}
}

// c15ClientLongEntries: Clnt File.Readdir(0) over a directory whose entries range from
// tiny to as large as the host allows (symbolic links with targets up to PATH_MAX - 1
// bytes): the complete set, at an msize that can carry the largest one.
func c15ClientLongEntries(msize uint32, dotu bool) Scenario {
	name := fmt.Sprintf("client Readdir(0) with entries up to PATH_MAX msize=%d dotu=%v", msize, dotu)
	return Scenario{Name: name, Run: func(rc *RunCtx) *Result {
		res := &Result{Exhaustive: true}
		base, root := scratchDir("c15c")
		defer os.RemoveAll(base)
		os.MkdirAll(filepath.Join(root, "dir"), 0o755)
		var want []string
		for i, t := range []int{1, 100, 1000, 3000, 4000, 4090, 4095, 2047, 2048} {
			var tb []byte
			for len(tb) < t {
				if len(tb)%200 == 199 {
					tb = append(tb, '/')
				} else {
					tb = append(tb, 'x')
				}
			}
			n := fmt.Sprintf("l%d", i)
			if os.Symlink(string(tb), filepath.Join(root, "dir", n)) == nil {
				want = append(want, n)
			}
		}
		os.WriteFile(filepath.Join(root, "dir", "a"), []byte("a"), 0o644)
		want = append(want, "a")
		sort.Strings(want)
		bad := withUfsClient(root, msize, dotu, func(c *go9p.Clnt, h *SrvH) string {
			f, err := c.FOpen("dir", go9p.OREAD)
			if err != nil {
				return "FOpen: " + err.Error()
			}
			ds, err := f.Readdir(0)
			res.Evals++
			if err != nil {
				return fmt.Sprintf("File.Readdir(0) of a directory with entries of up to about 4170 bytes (msize %d): %v", msize, err)
			}
			var got []string
			for _, d := range ds {
				got = append(got, d.Name)
			}
			sort.Strings(got)
			if strings.Join(got, ",") != strings.Join(want, ",") {
				return fmt.Sprintf("File.Readdir(0) returned %v, the directory holds %v", got, want)
			}
			return ""
		})
		res.Nontrivial = res.Evals
		if bad != "" {
			res.Findings = append(res.Findings, Finding{Sig: "C15/client-readdir-long-entries/" + sigWords(bad), Msg: bad})
		}
		return res
	}}
}

// c15OddNames: entries whose names are legal on the host and look special: only dots
// (three and more), leading dots, blanks, a backslash, a star, 255 dots.
func c15OddNames(msize uint32, dotu bool) Scenario {
	name := fmt.Sprintf("dirread odd names msize=%d dotu=%v", msize, dotu)
	return Scenario{Name: name, Run: func(rc *RunCtx) *Result {
		res := &Result{Exhaustive: true}
		base, root := scratchDir("c15o")
		defer os.RemoveAll(base)
		os.MkdirAll(filepath.Join(root, "dir"), 0o755)
		var want []string
		for _, n := range []string{"...", "....", ".....", strings.Repeat(".", 255), ".a", "..b", "a.", "a..", " ", "  ", "a b", "\\", "*", "?", "~", "-", "#", "%00", "\x7f", "\xff\xfe"} {
			if os.WriteFile(filepath.Join(root, "dir", n), []byte("x"), 0o644) == nil {
				want = append(want, n)
			}
		}
		// entries whose modification time 32 bits of seconds cannot carry are entries all the same
		for i, t := range []time.Time{time.Unix(-315619200, 0), time.Unix(1<<32+5, 0), time.Unix(-1, 0)} {
			n := fmt.Sprintf("odd-mtime-%d", i)
			if os.WriteFile(filepath.Join(root, "dir", n), []byte("x"), 0o644) == nil {
				os.Chtimes(filepath.Join(root, "dir", n), t, t)
				want = append(want, n)
			}
		}
		os.Mkdir(filepath.Join(root, "dir", "...d"), 0o755)
		os.Mkdir(filepath.Join(root, "dir", "......"), 0o755)
		want = append(want, "...d", "......")
		sort.Strings(want)
		var bad string
		body := func() {
			h := newUfsH(root, msize, dotu)
			cl := h.Connect()
			ver := "9P2000"
			if dotu {
				ver = "9P2000.u"
			}
			cl.Version(msize, ver)
			cl.Rpc(tattach(1, 0, wire.NOFID, "", uint32(os.Geteuid()), dotu))
			cl.Rpc(twalk(2, 0, 1, "dir"))
			if r := cl.Rpc(&wire.Msg{Type: wire.Topen, Tag: 3, Fid: 1, Mode: 0}); r == nil || r.Type != wire.Ropen {
				bad = "cannot open the directory"
				return
			}
			for _, cnt := range []uint32{msize - 24, 400, 700} {
				got, _, b := c15List(cl, dotu, 1, cnt, 10)
				res.Evals++
				sort.Strings(got)
				if b != "" || strings.Join(got, "\x00") != strings.Join(want, "\x00") {
					bad = fmt.Sprintf("count %d: the listing returned %d entries %q %s; the directory holds %d: %q", cnt, len(got), got, b, len(want), want)
					return
				}
			}
		}
		x := vs.Run(nil, body, vs.Options{Horizon: 100000000})
		if len(x.Panics) > 0 {
			bad = "panic: " + x.Panics[0].Value
		}
		res.Nontrivial = res.Evals
		if bad != "" {
			res.Findings = append(res.Findings, Finding{Sig: "C15/odd-names/" + sigWords(bad), Msg: name + ": " + bad})
		}
		return res
	}}
}

func c15Scenarios(tier string) []Scenario {
	var out []Scenario
	lens := []int{1, 2, 17, 255}
	sizes := []int{0, 1, 2, 3}
	msizes := []uint32{512, 4120}
	if tier == "thorough" {
		sizes = []int{0, 1, 2, 3, 4, 5, 6}
		msizes = []uint32{360, 512, 1024, 4120, 65560}
	}
	i := 0
	for _, n := range sizes {
		for _, ms := range multisets(lens, n) {
			for _, m := range msizes {
				i++
				if tier == "quick" && n == 3 && i%2 == 0 {
					continue
				}
				if tier == "thorough" && n == 6 && i%3 != 0 {
					continue
				}
				out = append(out, c15Scenario(ms, m, i%2 == 0))
			}
		}
	}
	big := func(n int) []int {
		var l []int
		for i := 0; i < n; i++ {
			l = append(l, 3+(i*7)%40)
		}
		return l
	}
	out = append(out, c15Scenario(big(50), 4120, true), c15Scenario(big(50), 512, false))
	all := func(n int) []int {
		var l []int
		for i := 0; i < n; i++ {
			l = append(l, i)
		}
		return l
	}
	out = append(out, c15Vanishing(3, all(3), 512, true), c15Vanishing(40, all(40), 4120, false))
	out = append(out, c15ClientLongEntries(8216, true), c15ClientLongEntries(65560, true), c15ClientLongEntries(8216, false))
	out = append(out, c15Reread(8216, false), c15Reread(256, true))
	out = append(out, c15AtDescriptorLimit(false), c15AtDescriptorLimit(true))
	// message sizes that are not a whole number of host blocks plus the header
	out = append(out, c15ClientLongEntries(6000, true), c15ClientLongEntries(8000, true), c15ClientLongEntries(4300, true), c15ClientLongEntries(12345, false))
	out = append(out, c15OddNames(8216, true), c15OddNames(4120, false))
	out = append(out, c15UnreadableLink(true, syscall.EACCES), c15UnreadableLink(true, syscall.ENOENT), c15UnreadableLink(false, syscall.EACCES))
	for lo := 0; lo < 1200; lo += 300 {
		out = append(out, c15LongTargets(8216, lo, lo+299, true))
	}
	out = append(out, c15LongTargets(8216, 0, 600, false))
	if tier == "thorough" {
		for lo := 1200; lo < 4000; lo += 400 {
			out = append(out, c15LongTargets(8216, lo, lo+399, true))
		}
	}
	out = append(out, c15Vanishing(1030, []int{0, 1, 511, 1022, 1023, 1024, 1029}, 8216, true), c15Vanishing(2050, []int{5, 1023, 1024, 2047, 2048, 2049}, 65560, false))
	if tier == "thorough" {
		out = append(out, c15Vanishing(300, all(300), 4120, true), c15Vanishing(4100, []int{0, 1023, 1024, 2047, 3000, 4095, 4096, 4099}, 65560, true))
	}
	if tier == "thorough" {
		out = append(out, c15Scenario(big(3000), 65560, true), c15Scenario(big(3000), 4120, false))
	} else {
		out = append(out, c15Scenario(big(400), 4120, false))
	}
	return out
}

func init() {
	register(&Property{ID: "C15", Level: "exploration",
		Technique: "bounded-exhaustive enumeration of directory shapes and read counts against the real Ufs, replies decoded record by record with the independent codec and compared with os.ReadDir",
		Rule:      "directories with 0..3 (thorough 0..5 all, 6 every third) entries whose name lengths are every multiset over {1,2,17,255}, plus 50-, 400- (thorough 3000-) entry directories; msize {512,4120} (thorough + 360, 1024, 65560), both dialects; for each: every count from the largest entry size to the listing size + 1 read by the offset rule to the zero-length reply, short counts at every record boundary, restart at offset 0 after every prefix, and after an entry was created / removed with the directory's mtime put back (coarse timestamps), File.Readdir(0); symbolic links with targets of every length 0..1199 (thorough ..3999) bytes, i.e. stat records of every size up to beyond 1024 (thorough 4096) bytes; one entry removed by the host while the server lists the directory (between the names being read and the entry being examined, at every position for small directories and around multiples of 1024 for directories of 1030..4100 entries): all the others listed exactly once. non-trivial = complete listings / reads compared ; a directory listed, changed through the protocol (renamed or chmod-ed through the open fid, entries created / removed / renamed) and listed again from offset 0; client Readdir at message sizes that are not block-aligned ; re-reading an open directory with no spare descriptor (RLIMIT_NOFILE lowered inside the worker process)",
		Assumptions: []string{"the host file system and package os are the reference; a directory is skipped at an msize that cannot carry its largest entry"},
		Scenarios:   c15Scenarios, QuickS: 100, ThoroughS: 900})
}
