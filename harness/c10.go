package main

import (
	"fmt"
	"strings"

	"github.com/rminnich/go9p"
	"github.com/rminnich/go9p/vs"
	"harness/wire"
)

// C10: client calls fail promptly, never hang, when the connection fails.

type c10Params struct {
	Calls    []callSpec // one per caller; all outstanding before the peer answers
	Late     bool       // one more caller enters Rpc concurrently with the failure
	Fault    string     // cut | timeout | writefail | garbage | undersize | oversize | unknowntag | unmount | peerclose
	At       int        // cut/writefail: stream offset; frame faults: index of the reply before which the bad frame is placed
	SameSeg  bool       // bad frame in the same write as the surrounding replies
	OneWrite bool
	Dotu     bool
	Stall    bool // the peer stops reading after the first request: the client's writer blocks inside Write on the second
	// Prelude: something that happened earlier in the session and went wrong on the client's side only:
	// "oversize-request" (a request the caller built itself, larger than the msize, which the peer answers
	// all the same), "pack-fails" (a call whose request does not fit the msize and is refused locally)
	Prelude string
	P       int
}

func (p c10Params) name() string {
	var cs []string
	for _, s := range p.Calls {
		cs = append(cs, fmt.Sprintf("%s%d", s.Kind, s.Fid))
	}
	st := ""
	if p.Stall {
		st = " writer-stalled"
	}
	if p.Prelude != "" {
		st += " after-" + p.Prelude
	}
	return fmt.Sprintf("fail[%s] late=%v fault=%s at=%d sameseg=%v onewrite=%v dotu=%v%s", strings.Join(cs, ","), p.Late, p.Fault, p.At, p.SameSeg, p.OneWrite, p.Dotu, st)
}

// c10Horizon: the executions of these scenarios take a few thousand steps
const c10Horizon = 200000

func c10Scenario(p c10Params) Scenario {
	var results []*callRes
	var late *callRes
	var after *callRes
	var peer *Peer
	var cend *vs.End
	var readAtUnmount int
	body := func() {
		resetClientGlobals()
		ce, se := vs.Pipe("clnt", "peer")
		cend = ce
		_ = cend
		peer = NewPeer(se, p.Dotu)
		var c *go9p.Clnt
		if p.Prelude != "" {
			vs.Go("peer", peer.Serve)
			c = go9p.NewClnt(ce, 8192, p.Dotu)
			names := make([]string, 16)
			for i := range names {
				names[i] = strings.Repeat("n", 600) // 16 of them: more than 8192 bytes
			}
			switch p.Prelude {
			case "oversize-request":
				tc := go9p.NewFcall(16384)
				if err := go9p.PackTwalk(tc, 90, 91, names); err != nil {
					vs.Fail("prelude: %v", err)
				}
				c.Rpc(tc) // whatever it returns: the peer answers it
			case "pack-fails":
				c.Walk(mkFid(c, 90), mkFid(c, 91), names)
			}
			vs.Idle()
		}
		peer.Batch = len(p.Calls)
		peer.BatchOnce = true
		peer.OneWrite = p.OneWrite
		if p.Stall {
			// requests are 11 (Tstat) and 23 (Tread) bytes: whichever comes second does not fit
			ce.StallOutgoingAt(24)
			peer.Batch = 1
		}
		// fault injection on the peer side
		switch p.Fault {
		case "garbage", "undersize", "oversize", "unknowntag":
			peer.Inject = map[int][]byte{p.At: c10BadFrame(p.Fault, p.Dotu)}
			peer.InjectSameSeg = p.SameSeg
		case "earlyreply":
			// the peer answers a request it has not received yet (the tag is in use by a call
			// that still waits for the blocked writer), then hangs up
			peer.Inject = map[int][]byte{}
			for tg := uint16(0); tg < 4; tg++ {
				r := peer.replyFor(-1, &wire.Msg{Type: wire.Tstat, Tag: tg, Fid: 30})
				peer.Inject[0] = append(peer.Inject[0], wire.Encode(r, p.Dotu)...)
			}
			peer.CloseAfterBatch = true
		case "wrongtype":
			// a well-formed reply of the wrong kind under the tag of an outstanding call
			peer.Kinds[p.At] = "wrongtype"
		case "peerclose":
			peer.CloseAfterBatch = true
		case "timeout":
			ce.TimeoutIncomingAt(p.At)
		case "cut":
			ce.CutIncomingAt(p.At)
		case "writefail":
			ce.FailOutgoingAt(p.At)
		}
		if p.Prelude == "" {
			vs.Go("peer", peer.Serve)
			c = go9p.NewClnt(ce, 8192, p.Dotu)
		}
		results = make([]*callRes, len(p.Calls))
		for i := range results {
			results[i] = &callRes{spec: p.Calls[i]}
		}
		late = nil
		vs.Window(true)
		for i := range p.Calls {
			i := i
			vs.Go("caller", func() { results[i] = doCall(c, p.Calls[i]) })
		}
		if p.Late {
			late = &callRes{spec: callSpec{"stat", 77}}
			vs.Go("caller", func() { late = doCall(c, callSpec{"stat", 77}) })
		}
		readAtUnmount = -1
		if p.Fault == "unmount" {
			vs.Go("unmounter", func() {
				// what the client's reader had taken off the connection when the failure began
				readAtUnmount = ce.ReadOffset()
				c.Unmount()
			})
		}
		vs.Idle()
		vs.Window(false)
		// one more call after the failure: it must return (with an error), not hang
		after = &callRes{spec: callSpec{"stat", 78}}
		vs.Go("caller", func() { after = doCall(c, callSpec{"stat", 78}) })
		vs.Idle()
	}
	check := stdCheck("C10", func(x *vs.Exec) *Viol {
		detail := map[string]any{"requests_seen_by_peer": fmt.Sprint(peer.Seen), "parked": x.Parked}
		if x.HitHorizon {
			return &Viol{Sig: "C10/runs-on-for-ever-after-failure", Msg: fmt.Sprintf("after the connection failed the client keeps running without ever failing its calls (step horizon of %d reached; parked: %v)", c10Horizon, x.Parked), Detail: detail}
		}
		for _, g := range x.Parked {
			if g.Site == "caller" {
				return &Viol{Sig: "C10/call-blocked-forever/" + g.Op, Msg: fmt.Sprintf("a caller is blocked for ever in %s after the connection failed (parked: %v)", g.Op, x.Parked), Detail: detail}
			}
		}
		failed := p.Fault != "none" && p.Fault != "wrongtype" // a reply of the wrong kind fails its own call, not the connection
		// which calls had their complete reply delivered before the failure
		tagOf := map[uint32]uint16{}
		for _, m := range peer.Seen {
			if _, ok := tagOf[m.Fid]; !ok {
				tagOf[m.Fid] = m.Tag
			}
		}
		all := append([]*callRes{}, results...)
		if late != nil {
			all = append(all, late)
		}
		for _, r := range all {
			if !r.done {
				return &Viol{Sig: "C10/call-never-returned", Msg: fmt.Sprintf("call %s fid %d never returned (parked: %v)", r.spec.Kind, r.spec.Fid, x.Parked), Detail: detail}
			}
			if r.spec.Kind == "readn" {
				// several requests behind one call: success means every one of them was answered
				if r.err == nil {
					if msg := r.verify("ok", p.Dotu, nil); msg != "" {
						return &Viol{Sig: "C10/success-without-complete-reply/readn", Msg: fmt.Sprintf("File.Readn on fid %d returned success although the connection failed before all its replies had arrived: %s", r.spec.Fid, msg), Detail: detail}
					}
				}
				continue
			}
			_, sent := tagOf[r.spec.Fid]
			end, answered := peer.ReplyEnds[r.spec.Fid]
			complete := sent && answered
			switch p.Fault {
			case "cut", "timeout":
				complete = complete && end <= p.At
			case "garbage", "undersize", "oversize", "unknowntag":
				complete = complete && end <= peer.InjectedAt
			case "wrongtype":
				// every call returns; whether the others succeed is the client's choice, but success must be the real reply
				if r.err == nil {
					if msg := r.verify("ok", p.Dotu, nil); msg != "" {
						return &Viol{Sig: "C10/wrong-result-after-failure", Msg: fmt.Sprintf("call %s fid %d: %s", r.spec.Kind, r.spec.Fid, msg), Detail: detail}
					}
				}
				continue
			case "earlyreply":
				// the peer made its replies up: what a call returns says nothing; it has to return
				continue
			case "unmount", "writefail", "peerclose":
				// the reply may or may not have been read before the client itself tore the
				// connection down (a failed write closes the socket, discarding unread replies): either outcome is fine, but success must be the real reply
				if p.Fault == "unmount" && complete && readAtUnmount >= 0 && end <= readAtUnmount {
					// ... unless the reader already held the complete reply when Unmount began
					if msg := r.verify("ok", p.Dotu, nil); msg != "" {
						return &Viol{Sig: "C10/complete-reply-not-delivered/unmount", Msg: fmt.Sprintf("call %s fid %d: the client's reader had taken its complete reply off the connection (%d of the %d bytes read) before Unmount began, but the call returned: %s", r.spec.Kind, r.spec.Fid, end, readAtUnmount, msg), Detail: detail}
					}
					continue
				}
				if r.err == nil {
					if msg := r.verify("ok", p.Dotu, nil); msg != "" {
						return &Viol{Sig: "C10/wrong-result-after-failure", Msg: fmt.Sprintf("call %s fid %d: %s", r.spec.Kind, r.spec.Fid, msg), Detail: detail}
					}
				}
				continue
			}
			if complete {
				if msg := r.verify("ok", p.Dotu, nil); msg != "" {
					return &Viol{Sig: "C10/complete-reply-not-delivered", Msg: fmt.Sprintf("call %s fid %d: its reply was completely received before the failure but the call returned: %s", r.spec.Kind, r.spec.Fid, msg), Detail: detail}
				}
			} else if r.err == nil && failed {
				return &Viol{Sig: "C10/success-without-complete-reply", Msg: fmt.Sprintf("call %s fid %d returned success although its reply was not completely received", r.spec.Kind, r.spec.Fid), Detail: detail}
			}
		}
		if after == nil {
			return &Viol{Sig: "C10/harness/no-later-call", Msg: "the execution ended before the later call was made", Detail: detail}
		}
		if !after.done {
			return &Viol{Sig: "C10/later-call-never-returned", Msg: fmt.Sprintf("a call made after the failure never returned (parked %v)", x.Parked), Detail: detail}
		}
		if after.err == nil && failed {
			return &Viol{Sig: "C10/later-call-succeeded", Msg: "a call made after the connection failed returned success", Detail: detail}
		}
		return nil
	}, nil)
	return vsScenario(&VsSpec{Name: p.name(), Body: body, Check: check, P: p.P, Delay: true, Horizon: c10Horizon, Livelock: true, Sample: func() any {
		var rs []string
		for _, r := range results {
			if r != nil {
				rs = append(rs, fmt.Sprintf("%s%d -> err=%v", r.spec.Kind, r.spec.Fid, r.err))
			}
		}
		a := "not made"
		if after != nil {
			a = fmt.Sprint(after.err)
		}
		return map[string]any{"results": rs, "after": a}
	}})
}

func c10BadFrame(kind string, dotu bool) []byte {
	switch kind {
	case "garbage":
		return []byte{9, 0, 0, 0, 250, 1, 0, 0xDE, 0xAD}
	case "undersize":
		return []byte{5, 0, 0, 0, wire.Rclunk, 1, 0}
	case "oversize":
		b := make([]byte, 8192*8+64)
		b[0], b[1], b[2], b[3] = 0x40, 0x00, 0x01, 0x00 // 65600 > msize 8192
		b[4] = wire.Rread
		return b
	case "unknowntag":
		return wire.Encode(&wire.Msg{Type: wire.Rclunk, Tag: 4242}, dotu)
	}
	return nil
}

// c10UnmountFromConsumer: requests issued through the non-blocking interface share one
// unbuffered completion channel; their replies arrive together; the goroutine that
// takes the completions calls Unmount after the first one. Unmount returns, and the
// other request completes too (with its reply or with an error).
func c10UnmountFromConsumer(n int, dotu bool, P int) Scenario {
	var unmounted bool
	var got int
	name := fmt.Sprintf("unmount called by the consumer of a shared completion channel, %d requests dotu=%v", n, dotu)
	body := func() {
		unmounted, got = false, 0
		c, peer := newClientPair(8192, dotu)
		peer.Batch = n
		peer.BatchOnce = true
		peer.OneWrite = true
		done := make(chan *go9p.Req)
		for i := 0; i < n; i++ {
			r := c.ReqAlloc()
			r.Tc = c.NewFcall()
			if err := go9p.PackTstat(r.Tc, uint32(200+i)); err != nil {
				vs.Fail("PackTstat: %v", err)
			}
			r.Done = done
			if err := c.Rpcnb(r); err != nil {
				vs.Fail("Rpcnb: %v", err)
			}
		}
		vs.Window(true)
		vs.Go("consumer", func() {
			vs.Recv(done)
			got++
			c.Unmount()
			unmounted = true
			for got < n {
				vs.Recv(done)
				got++
			}
		})
		vs.Idle()
		vs.Window(false)
	}
	check := stdCheck("C10", func(x *vs.Exec) *Viol {
		if !unmounted {
			return &Viol{Sig: "C10/unmount-never-returns/consumer", Msg: fmt.Sprintf("Unmount, called by the goroutine that takes the completions of the outstanding requests, never returns (completions taken: %d of %d; parked: %v)", got, n, x.Parked)}
		}
		if got != n {
			return &Viol{Sig: "C10/call-never-completed/after-unmount-by-consumer", Msg: fmt.Sprintf("after Unmount %d of %d outstanding requests completed (parked: %v)", got, n, x.Parked)}
		}
		return nil
	}, nil)
	return vsScenario(&VsSpec{Name: name, Body: body, Check: check, P: P, Delay: true})
}

// c10TagOutstanding: requests issued through the pipelined Tag interface are
// outstanding calls too: when the connection fails each of them completes on the
// Tag's channel, carrying an error, and nothing blows up.
func c10TagOutstanding(n int, fault string, dotu bool, P int) Scenario {
	var got, withErr int
	name := fmt.Sprintf("%d requests outstanding on a Tag, fault=%s dotu=%v", n, fault, dotu)
	body := func() {
		got, withErr = 0, 0
		resetClientGlobals()
		ce, se := vs.Pipe("clnt", "peer")
		peer := NewPeer(se, dotu)
		peer.Batch = n + 1 // never answers
		vs.Go("peer", peer.Serve)
		c := go9p.NewClnt(ce, 8192, dotu)
		rc := make(chan *go9p.Req, n)
		tg := c.TagAlloc(rc)
		for i := 0; i < n; i++ {
			if err := tg.Read(mkFid(c, uint32(40+i)), uint64(i), 8); err != nil {
				vs.Fail("Tag.Read: %v", err)
			}
		}
		vs.Idle()
		vs.Window(true)
		switch fault {
		case "peerclose":
			se.Close()
		case "unmount":
			vs.Go("unmounter", func() { c.Unmount() })
		case "garbage", "unknowntag":
			se.Write(c10BadFrame(fault, dotu))
		}
		vs.Go("consumer", func() {
			for got < n {
				r := vs.Recv(rc)
				got++
				if r.Err != nil {
					withErr++
				}
			}
		})
		vs.Idle()
		vs.Window(false)
	}
	check := stdCheck("C10", func(x *vs.Exec) *Viol {
		if got != n {
			return &Viol{Sig: "C10/tag-request-never-completed", Msg: fmt.Sprintf("%d requests were outstanding on a Tag when the connection failed (%s): %d completed (parked: %v)", n, fault, got, x.Parked)}
		}
		if withErr != n {
			return &Viol{Sig: "C10/tag-request-completed-without-error", Msg: fmt.Sprintf("%d requests were outstanding on a Tag when the connection failed (%s) and were never answered: %d of them completed without an error", n, fault, n-withErr)}
		}
		return nil
	}, nil)
	return vsScenario(&VsSpec{Name: name, Body: body, Check: check, P: P, Delay: true, Horizon: c10Horizon, Livelock: true})
}

func c10Scenarios(tier string) []Scenario {
	var out []Scenario
	two := []callSpec{{"read", 10}, {"stat", 20}}
	three := []callSpec{{"read", 10}, {"stat", 20}, {"write", 30}}
	D := 1
	if tier == "thorough" {
		D = 2
	}
	// reply stream of `two`: Rread (7+4+16+.. bytes) + Rstat; cut at every offset
	maxOff := 93 // always inside the first batch's reply stream (27-byte Rread + 67..81-byte Rstat)
	for off := 0; off <= maxOff; off++ {
		if tier == "quick" && off > 40 && off%3 != 0 {
			continue
		}
		out = append(out, c10Scenario(c10Params{Calls: two, Fault: "cut", At: off, OneWrite: off%2 == 0, Dotu: off%4 < 2, Late: off%5 == 0, P: D}))
	}
	for _, off := range []int{0, 1, 6, 7, 11, 22, 23, 24, 30, 33} {
		out = append(out, c10Scenario(c10Params{Calls: two, Fault: "writefail", At: off, Dotu: off%2 == 0, Late: off%3 == 0, P: D + 1}))
	}
	for _, f := range []string{"garbage", "undersize", "oversize", "unknowntag"} {
		for at := 0; at <= 2; at++ {
			for _, same := range []bool{false, true} {
				out = append(out, c10Scenario(c10Params{Calls: two, Fault: f, At: at, SameSeg: same, OneWrite: same, Dotu: at%2 == 0, Late: at == 1, P: D + 1}))
			}
		}
	}
	// a helper that needs three replies (File.Readn over three iounits): cut after every byte of them
	for off := 0; off <= 85; off++ {
		if tier == "quick" && off%2 == 1 && off != 27 && off != 55 {
			continue
		}
		out = append(out, c10Scenario(c10Params{Calls: []callSpec{{"readn", 10}}, Fault: "cut", At: off, Dotu: off%2 == 0, P: D - 1}))
	}
	out = append(out, c10Scenario(c10Params{Calls: []callSpec{{"readn", 10}, {"stat", 20}}, Fault: "unknowntag", At: 1, Late: true, P: D}),
		c10Scenario(c10Params{Calls: []callSpec{{"readn", 10}}, Fault: "peerclose", P: D}))
	for at := 0; at <= 1; at++ {
		for _, one := range []bool{false, true} {
			out = append(out, c10Scenario(c10Params{Calls: two, Fault: "wrongtype", At: at, OneWrite: one, Dotu: at == 1, Late: one, P: D + 1}))
		}
	}
	// the same faults while the client's writer is blocked inside Write (peer not reading)
	for i, f := range []string{"garbage", "undersize", "oversize", "unknowntag", "unmount", "peerclose"} {
		for at := 0; at <= 1; at++ {
			if at == 1 && (f == "unmount" || f == "peerclose") {
				continue
			}
			out = append(out, c10Scenario(c10Params{Calls: two, Fault: f, At: at, Stall: true, Dotu: (i+at)%2 == 0, Late: (i+at)%3 == 0, P: D + 1}))
		}
	}
	// replies to requests not yet written, while the writer is blocked, then the peer hangs up
	out = append(out, c10Scenario(c10Params{Calls: []callSpec{{"read", 10}, {"stat", 20}, {"stat", 30}}, Fault: "earlyreply", Stall: true, P: D + 1}),
		c10Scenario(c10Params{Calls: []callSpec{{"stat", 30}, {"read", 10}, {"stat", 20}}, Fault: "earlyreply", Stall: true, Dotu: true, Late: true, P: D}))
	for _, lateC := range []bool{false, true} {
		ud := D + 1
		if !lateC {
			ud = D + 2 // the writer-vs-recycled-request crash needed three deviations
		}
		out = append(out, c10Scenario(c10Params{Calls: two, Fault: "unmount", Late: lateC, Dotu: lateC, P: ud}))
		out = append(out, c10Scenario(c10Params{Calls: two, Fault: "unmount", OneWrite: true, Late: lateC, Dotu: !lateC, P: D + 1}))
		out = append(out, c10Scenario(c10Params{Calls: three, Fault: "peerclose", Late: lateC, P: D + 1}))
		out = append(out, c10Scenario(c10Params{Calls: nil, Fault: "cut", At: 0, Late: lateC, P: D + 2}))
		out = append(out, c10Scenario(c10Params{Calls: three[:1], Fault: "cut", At: 0, Late: lateC, Dotu: true, P: D + 2}))
	}
	out = append(out, c10UnmountFromConsumer(2, false, D), c10UnmountFromConsumer(3, true, D))
	out = append(out, c10TagOutstanding(1, "peerclose", false, D), c10TagOutstanding(2, "unmount", true, D), c10TagOutstanding(3, "garbage", false, D), c10TagOutstanding(2, "unknowntag", true, D))
	// the transport reports its failure as a timeout (the application set a read deadline)
	for _, off := range []int{0, 5, 27, 28, 60} {
		out = append(out, c10Scenario(c10Params{Calls: two, Fault: "timeout", At: off, OneWrite: off%2 == 0, Dotu: off%3 == 0, Late: off%5 == 0, P: D}))
	}
	// the connection fails some time after a call went wrong on the client's side alone
	for i, pre := range []string{"oversize-request", "pack-fails"} {
		for j, f := range []string{"peerclose", "unknowntag", "garbage", "unmount"} {
			out = append(out, c10Scenario(c10Params{Calls: two, Fault: f, At: 0, Prelude: pre, Dotu: (i+j)%2 == 0, Late: j%2 == 0, P: D}))
		}
	}
	if tier == "thorough" {
		for off := 0; off <= 104; off += 1 {
			out = append(out, c10Scenario(c10Params{Calls: three, Fault: "cut", At: off, OneWrite: off%2 == 1, Dotu: off%4 >= 2, Late: off%2 == 0, P: 2}))
		}
		out = append(out, c10Scenario(c10Params{Calls: []callSpec{{"read", 10}, {"stat", 20}, {"write", 30}, {"walk", 40}}, Fault: "cut", At: 50, Late: true, P: 2}))
	}
	return out
}

func init() {
	register(&Property{ID: "C10", Level: "model_checking",
		Technique: "fault enumeration crossed with stateless model checking of the real client under the controlled scheduler; hangs decided at quiescence",
		Rule:      "0-3 (thorough 4) outstanding calls (raw calls, and File.Readn spanning three replies) plus an optional caller entering Rpc during the failure; faults: server-to-client stream cut after every byte offset of the scripted reply stream, client writes failing at 10 offsets inside the first requests, garbage / undersize / oversize / unknown-tag frames and well-formed replies of the wrong kind placed before, between and after complete replies (own segment and same segment), Unmount from another goroutine, peer closing; replies to requests not yet written; the frame faults, Unmount and peer close also while the client's writer is blocked inside Write (peer stopped reading after the first request); every schedule with at most D deviations from the default scheduler (delay bounding; quick D=1-3 by fault kind, thorough D=2-4); afterwards one more call. distinct = distinct per-object operation orders",
		Assumptions: []string{"'within bounded time' is decided as: no reachable quiescent state in which a caller is blocked", "transport: a cut delivers exactly the bytes before the offset, then EOF"},
		Scenarios:   c10Scenarios, QuickS: 180, ThoroughS: 1500})
}
