package main

import (
	"strings"
	"bytes"
	"encoding/binary"
	"fmt"
	"reflect"
	"runtime"
	"runtime/metrics"
	"unsafe"

	"github.com/rminnich/go9p"
	"harness/wire"
)

// C02: decoding is total and bounded. Every truncation, declared-size
// variation, byte substitution and length-field overwrite of canonical packets
// of every type in both dialects, plus all tiny frames for every type byte.

func fromFcall(fc *go9p.Fcall, dotu bool) *wire.Msg {
	m := &wire.Msg{Type: fc.Type, Tag: fc.Tag, Size: fc.Size}
	wq := func(q go9p.Qid) wire.Qid { return wire.Qid{Type: q.Type, Vers: q.Version, Path: q.Path} }
	for _, f := range wire.Layout(fc.Type, dotu) {
		switch f {
		case "Msize":
			m.Msize = fc.Msize
		case "Version":
			m.Version = fc.Version
		case "Afid":
			m.Afid = fc.Afid
		case "Fid":
			m.Fid = fc.Fid
		case "Newfid":
			m.Newfid = fc.Newfid
		case "Uname":
			m.Uname = fc.Uname
		case "Aname":
			m.Aname = fc.Aname
		case "NUname":
			m.NUname = fc.Unamenum
			m.HasNUname = true
		case "Qid":
			m.Qid = wq(fc.Qid)
		case "Ename":
			m.Ename = fc.Error
		case "Errno":
			m.Errno = fc.Errornum
		case "Oldtag":
			m.Oldtag = fc.Oldtag
		case "Wname":
			m.Wname = fc.Wname
		case "Wqid":
			for _, q := range fc.Wqid {
				m.Wqid = append(m.Wqid, wq(q))
			}
		case "Mode":
			m.Mode = fc.Mode
		case "Iounit":
			m.Iounit = fc.Iounit
		case "Name":
			m.Name = fc.Name
		case "Perm":
			m.Perm = fc.Perm
		case "Ext":
			m.Ext = fc.Ext
		case "Offset":
			m.Offset = fc.Offset
		case "Count":
			m.Count = fc.Count
		case "Data":
			m.Data = fc.Data
			m.Count = fc.Count
		case "Stat":
			d := fc.Dir
			m.Stat = wire.Stat{Type: d.Type, Dev: d.Dev, Qid: wq(d.Qid), Mode: d.Mode, Atime: d.Atime, Mtime: d.Mtime, Length: d.Length, Name: d.Name, Uid: d.Uid, Gid: d.Gid, Muid: d.Muid, Ext: d.Ext, NUid: d.Uidnum, NGid: d.Gidnum, NMuid: d.Muidnum}
		}
	}
	return m
}

var allocSample = []metrics.Sample{{Name: "/gc/heap/allocs:bytes"}}

func allocBytes() uint64 {
	metrics.Read(allocSample)
	return allocSample[0].Value.Uint64()
}

type decOut struct {
	fc    *go9p.Fcall
	n     int
	err   string
	pan   string
	alloc uint64
}

func safeUnpack(in []byte, dotu bool) (o decOut) {
	defer func() {
		if r := recover(); r != nil {
			o.pan = fmt.Sprint(r)
		}
	}()
	a0 := allocBytes()
	fc, n, err := go9p.Unpack(in, dotu)
	o.alloc = allocBytes() - a0
	o.fc, o.n = fc, n
	if err != nil {
		o.err = err.Error()
	}
	return
}

func exactAlloc(in []byte, dotu bool) uint64 {
	var a, b runtime.MemStats
	runtime.ReadMemStats(&a)
	func() {
		defer func() { recover() }()
		go9p.Unpack(in, dotu)
	}()
	runtime.ReadMemStats(&b)
	return b.TotalAlloc - a.TotalAlloc
}

type c02State struct {
	res  *Result
	seen map[string]bool
	dotu bool
	name string
	sufA []byte
	sufB []byte
}

func (s *c02State) fail(sig, msg string, in []byte) {
	if s.seen[sig] || len(s.res.Findings) > 12 {
		return
	}
	s.seen[sig] = true
	show := in
	if len(show) > 64 {
		show = show[:64]
	}
	s.res.Findings = append(s.res.Findings, Finding{Sig: sig, Msg: fmt.Sprintf("%s\ninput (%d bytes, dotu=%v): % x", msg, len(in), s.dotu, show), Detail: map[string]any{"input_hex": fmt.Sprintf("%x", in), "dotu": s.dotu}})
}

func typeName(in []byte) string {
	if len(in) >= 5 {
		if n, ok := wire.Names[in[4]]; ok {
			return n
		}
		return "undefined-type"
	}
	return "short"
}

// try decodes one input (the bytes a peer could send) and applies the oracle.
func (s *c02State) try(frame []byte) {
	s.res.Evals++
	// the declared size decides what belongs to the message; vary what follows it.
	// When the declaration exceeds what is present there is nothing beyond it to vary.
	inA := append([]byte{}, frame...)
	inB := inA
	if len(frame) >= 4 {
		if d := uint64(binary.LittleEndian.Uint32(frame)); d <= uint64(len(frame)) {
			inA = append(append([]byte{}, frame[:d]...), s.sufA...)
			inB = append(append([]byte{}, frame[:d]...), s.sufB...)
		}
	}
	a := safeUnpack(inA, s.dotu)
	tn := typeName(frame)
	if a.pan != "" {
		s.fail("C02/panic/"+tn+"/"+panicClass(a.pan), "Unpack panics: "+a.pan, inA)
		return
	}
	b := safeUnpack(inB, s.dotu)
	if b.pan != "" {
		s.fail("C02/panic/"+tn+"/"+panicClass(b.pan), "Unpack panics: "+b.pan, inB)
		return
	}
	limit := uint64(16*len(inA) + 8192)
	if a.alloc > limit {
		// confirm with the exact counter; background allocations are sporadic, so take
		// the minimum of several measurements of the same call
		ex := exactAlloc(inA, s.dotu)
		for k := 0; k < 4 && ex > uint64(16*len(inA)+2048); k++ {
			if e2 := exactAlloc(inA, s.dotu); e2 < ex {
				ex = e2
			}
		}
		if ex > uint64(16*len(inA)+2048) {
			s.fail("C02/alloc/"+tn, fmt.Sprintf("Unpack allocates %d bytes for a %d-byte input", ex, len(inA)), inA)
			return
		}
	}
	if (a.err == "") != (b.err == "") || a.n != b.n {
		s.fail("C02/suffix-dependent/"+tn, fmt.Sprintf("result depends on bytes beyond the declared size: (%d,%q) vs (%d,%q)", a.n, a.err, b.n, b.err), inA)
		return
	}
	if a.err != "" {
		return
	}
	s.res.addExtra("accepted", 1)
	fc := a.fc
	size := int(binary.LittleEndian.Uint32(inA))
	if a.n != size || size < 7 || size > len(inA) {
		s.fail("C02/consumed/"+tn, fmt.Sprintf("consumed %d, size field %d, input %d", a.n, size, len(inA)), inA)
		return
	}
	if !wire.Known(fc.Type) {
		s.fail("C02/undefined-type-accepted", fmt.Sprintf("type %d accepted", fc.Type), inA)
		return
	}
	ma, mb := fromFcall(a.fc, s.dotu), fromFcall(b.fc, s.dotu)
	if !reflect.DeepEqual(ma, mb) {
		s.fail("C02/suffix-dependent-fields/"+tn, "decoded fields depend on bytes beyond the declared size", inA)
		return
	}
	if len(fc.Data) > 0 {
		p := uintptr(unsafe.Pointer(&fc.Data[0]))
		lo := uintptr(unsafe.Pointer(&inA[0]))
		if p < lo || p+uintptr(len(fc.Data)) > lo+uintptr(size) {
			s.fail("C02/data-outside-packet/"+tn, fmt.Sprintf("Data (%d bytes) does not lie inside the %d-byte packet", len(fc.Data), size), inA)
			return
		}
	}
	if (fc.Type == wire.Rread || fc.Type == wire.Twrite) && int(fc.Count) != len(fc.Data) {
		s.fail("C02/count-data-mismatch/"+tn, fmt.Sprintf("Count %d but Data has %d bytes", fc.Count, len(fc.Data)), inA)
		return
	}
	if *go9p.Akaros && fc.Type == wire.Rerror {
		// with the Akaros option the library's PackRerror puts the error number in front
		// of the text: the packet it makes is not the one that was decoded, by design
		return
	}
	// re-encode with the library's own constructors and decode again
	out := go9p.NewFcall(uint32(size + 64))
	if err := packWith(out, ma, s.dotu); err != nil {
		s.fail("C02/reencode-too-large/"+tn, fmt.Sprintf("decoded fields do not fit the %d-byte packet they came from: %v", size, err), inA)
		return
	}
	legacy := s.dotu && (fc.Type == wire.Tauth || fc.Type == wire.Tattach) && len(out.Pkt) == size+4
	if len(out.Pkt) != size && !legacy {
		s.fail("C02/reencode-length/"+tn, fmt.Sprintf("re-encoded packet has %d bytes, original %d: a variable-length field does not lie inside the packet", len(out.Pkt), size), inA)
		return
	}
	go9p.SetTag(out, fc.Tag)
	again, _, err := go9p.Unpack(out.Pkt, s.dotu)
	if err != nil {
		s.fail("C02/reencode-rejected/"+tn, "re-encoded packet is rejected: "+err.Error(), inA)
		return
	}
	if d := cmpFcall(ma, again, s.dotu); d != "" {
		s.fail("C02/reencode-fields/"+tn, "re-encoded packet decodes differently: "+d, inA)
	}
}

// c02BaseMsgs: the messages the last call of c02Bases encoded
var c02BaseMsgs []*wire.Msg

// c02StringSweep: well-formed variants of the base messages in which one string field
// at a time has every length 0..40 (a check that looks at the k-th byte of a text is
// wrong for texts of exactly k bytes only).
func c02StringSweep(dotu bool) [][]byte {
	var out [][]byte
	seen := map[string]bool{}
	for _, m := range c02BaseMsgs {
		base := wire.Encode(m, dotu)
		for k := 0; k <= 40; k++ {
			txt := strings.Repeat("e", k)
			if k > 4 {
				txt = "0A1F " + strings.Repeat("e", k-5) // looks like a number and a text
			}
			for f := 0; f < 14; f++ {
				c := *m
				c.Wname = append([]string{}, m.Wname...)
				switch f {
				case 0:
					c.Version = txt
				case 1:
					c.Uname = txt
				case 2:
					c.Aname = txt
				case 3:
					c.Ename = txt
				case 4:
					c.Name = txt
				case 5:
					c.Ext = txt
				case 6:
					c.Stat.Name = txt
				case 7:
					c.Stat.Uid = txt
				case 8:
					c.Stat.Gid = txt
				case 9:
					c.Stat.Muid = txt
				case 10:
					c.Stat.Ext = txt
				case 11:
					if len(c.Wname) == 0 {
						continue
					}
					c.Wname[0] = txt
				case 12:
					if len(c.Wname) < 2 {
						continue
					}
					c.Wname[len(c.Wname)-1] = txt
				case 13:
					if k > 16 {
						continue
					}
					c.Wname = nil
					for i := 0; i < k; i++ {
						c.Wname = append(c.Wname, "n")
					}
				}
				b := wire.Encode(&c, dotu)
				if bytes.Equal(b, base) || seen[string(b)] {
					continue
				}
				seen[string(b)] = true
				out = append(out, b)
			}
		}
	}
	return out
}

func c02Bases(g c01Gen, dotu bool) [][]byte {
	doms, _ := g.doms(false)
	var out [][]byte
	pick := func(sel func(d []any) any) {
		v := make([]any, len(doms))
		for i, d := range doms {
			v[i] = sel(d)
		}
		var m *wire.Msg
		switch g.typ {
		case wire.Rstat:
			m = &wire.Msg{Stat: mkStat(v, dotu)}
		case wire.Twstat:
			m = &wire.Msg{Fid: v[0].(uint32), Stat: mkStat(v[1:], dotu)}
		default:
			m = g.mk(v)
		}
		m.Type, m.Tag = g.typ, 0x0102
		if !dotu {
			m.HasNUname = false
		}
		b := wire.Encode(m, dotu)
		if len(b) <= 400 {
			out = append(out, b)
		}
		c02BaseMsgs = append(c02BaseMsgs, m)
	}
	c02BaseMsgs = nil
	pick(func(d []any) any { return d[0] })
	pick(func(d []any) any { return d[1%len(d)] })
	pick(func(d []any) any { return d[2%len(d)] })
	pick(func(d []any) any { return d[3%len(d)] })
	pick(func(d []any) any { return d[(len(d)/2)%len(d)] })
	// dedupe
	var uniq [][]byte
	for _, b := range out {
		dup := false
		for _, u := range uniq {
			if bytes.Equal(u, b) {
				dup = true
			}
		}
		if !dup {
			uniq = append(uniq, b)
		}
	}
	return uniq
}

func c02Scenario(g c01Gen, dotu bool) Scenario {
	name := fmt.Sprintf("mutate %s dotu=%v", wire.Names[g.typ], dotu)
	return Scenario{Name: name, Run: func(c *RunCtx) *Result {
		s := &c02State{res: &Result{Exhaustive: true}, seen: map[string]bool{}, dotu: dotu, name: name,
			sufA: []byte{0, 0, 0, 0, 0, 0, 0, 0, 0, 0, 0, 0, 0, 0, 0, 0}, sufB: bytes.Repeat([]byte{0xFF}, 16)}
		th := c.Thorough()
		distinct := map[string]bool{}
		countSweepDone := map[byte]bool{}
		try := func(b []byte) {
			k := string(b)
			if !distinct[k] {
				distinct[k] = true
				s.res.Nontrivial++
			}
			s.try(b)
		}
		bases := c02Bases(g, dotu)
		for _, b := range c02StringSweep(dotu) {
			try(b)
		}
		// Rstat / Twstat: the two 16-bit counts of the stat record agree with each other and with the
		// frame, for every size 0..90 (smaller than any stat record, and around its fixed part)
		if g.typ == wire.Rstat || g.typ == wire.Twstat {
			for sz := 0; sz <= 90; sz++ {
				for _, fill := range []byte{0, 1, 0xFF} {
					hdr := []byte{0, 0, 0, 0, g.typ, 2, 1}
					if g.typ == wire.Twstat {
						hdr = append(hdr, 5, 0, 0, 0)
					}
					b := append(hdr, byte(sz+2), byte((sz+2)>>8), byte(sz), byte(sz>>8))
					b = append(b, bytes.Repeat([]byte{fill}, sz)...)
					binary.LittleEndian.PutUint32(b, uint32(len(b)))
					try(b)
				}
				// ... and the same two counts written into complete packets (frame and body untouched)
				off := 7
				if g.typ == wire.Twstat {
					off = 11
				}
				for _, base := range bases {
					if len(base) >= off+4 {
						t := append([]byte{}, base...)
						binary.LittleEndian.PutUint16(t[off:], uint16(sz+2))
						binary.LittleEndian.PutUint16(t[off+2:], uint16(sz))
						try(t)
					}
				}
			}
		}
		for bi, base := range bases {
			L := len(base)
			if bi == 0 {
				s.res.Samples = append(s.res.Samples, fmt.Sprintf("base %x: all truncations, declared sizes 0..%d+big, byte substitutions, u16/u32 overwrites at every offset", base, L+8))
			}
			// 1. truncations, with the original and with an adjusted size field
			for k := 0; k <= L; k++ {
				try(append([]byte{}, base[:k]...))
				if k >= 4 {
					t := append([]byte{}, base[:k]...)
					binary.LittleEndian.PutUint32(t, uint32(k))
					try(t)
				}
			}
			// 2. declared-size variations
			sizes := []uint32{1 << 16, 1 << 31, 0xFFFFFFFF, 0xFFFFFFF9}
			for v := 0; v <= L+8; v++ {
				sizes = append(sizes, uint32(v))
			}
			for _, v := range sizes {
				t := append(append([]byte{}, base...), 1, 2, 3, 4, 5, 6, 7, 8)
				binary.LittleEndian.PutUint32(t, v)
				try(t)
			}
			// 3. byte substitutions
			for off := 0; off < L; off++ {
				var vals []int
				if L <= 96 || (th && L <= 200) {
					for v := 0; v < 256; v++ {
						vals = append(vals, v)
					}
				} else {
					vals = []int{0, 1, 0x7F, 0x80, 0xFF, int(base[off]) + 1, int(base[off]) - 1}
				}
				for _, v := range vals {
					if byte(v) == base[off] {
						continue
					}
					t := append([]byte{}, base...)
					t[off] = byte(v)
					try(t)
				}
			}
			// 4a. the 16-bit element counts (Twalk nwname, Rwalk nwqid): every one of the 65536
			// values - a check computed in 16-bit arithmetic is wrong for isolated values only
			if cntOff := map[byte]int{wire.Twalk: 15, wire.Rwalk: 7}[base[4]]; cntOff > 0 && cntOff+2 <= L && L <= 80 {
				for v := 0; v < 65536; v++ {
					t := append([]byte{}, base...)
					binary.LittleEndian.PutUint16(t[cntOff:], uint16(v))
					try(t)
				}
				// ... and with every length 0..30 of what follows the count (size field adjusted),
				// once per packet kind
				if !countSweepDone[base[4]] {
					countSweepDone[base[4]] = true
					// ... and counts that agree with what follows (well-formed messages with 0..600,
					// and a few thousand, elements - more than a walk may carry), and bodies one
					// byte short / long of that
					for _, v := range append(seqInts(0, 600), 1000, 4096, 5000, 5041) {
						t := append([]byte{}, base[:cntOff+2]...)
						binary.LittleEndian.PutUint16(t[cntOff:], uint16(v))
						for i := 0; i < v; i++ {
							if base[4] == wire.Rwalk {
								t = append(t, byte(i), 1, 0, 0, 0, byte(i), byte(i>>8), 0, 0, 0, 0, 0, 0)
							} else {
								t = append(t, 1, 0, byte('a'+i%26))
							}
						}
						for _, d := range []int{0, -1, 1} {
							u := append([]byte{}, t...)
							if d == 1 {
								u = append(u, 0)
							} else if d == -1 && len(u) > cntOff+2 {
								u = u[:len(u)-1]
							}
							binary.LittleEndian.PutUint32(u, uint32(len(u)))
							try(u)
						}
					}
					for n := 0; n <= 30; n++ {
						t := append([]byte{}, base[:cntOff+2]...)
						for i := 0; i < n; i++ {
							t = append(t, byte(i+1))
						}
						binary.LittleEndian.PutUint32(t, uint32(len(t)))
						for v := 0; v < 65536; v++ {
							binary.LittleEndian.PutUint16(t[cntOff:], uint16(v))
							try(append([]byte{}, t...))
						}
					}
				}
			}
			// 4. every offset taken as a 16/32-bit length or count field
			for off := 7; off < L; off++ {
				for _, v := range []uint16{0, 1, 2, uint16(L), uint16(L - off), uint16(L-off) - 2, uint16(L-off) - 1, 0x7FFF, 0x8000, 0xFFFF, 300} {
					if off+2 <= L {
						t := append([]byte{}, base...)
						binary.LittleEndian.PutUint16(t[off:], v)
						try(t)
					}
				}
				for _, v := range []uint32{0, 1, uint32(L), uint32(L - off), uint32(L-off) - 4, 0x7FFFFFFF, 0x80000000, 0xFFFFFFFF, 0xFFFFFFF0, 1 << 20, 1 << 24} {
					if off+4 <= L {
						t := append([]byte{}, base...)
						binary.LittleEndian.PutUint32(t[off:], v)
						try(t)
					}
				}
			}
		}
		return s.res
	}}
}

// every type byte with header + up to 3 body bytes over a small alphabet
func c02TinyScenario(dotu bool, lo, hi int) Scenario {
	return Scenario{Name: fmt.Sprintf("tiny-frames types %d..%d dotu=%v", lo, hi, dotu), Run: func(c *RunCtx) *Result {
		s := &c02State{res: &Result{Exhaustive: true}, seen: map[string]bool{}, dotu: dotu,
			sufA: make([]byte, 16), sufB: bytes.Repeat([]byte{0xFF}, 16)}
		alpha := []byte{0, 1, 2, 0x7F, 0xFF}
		maxBody := 3
		if c.Thorough() {
			maxBody = 4
		}
		for t := lo; t <= hi; t++ {
			var rec func(body []byte)
			rec = func(body []byte) {
				f := make([]byte, 7+len(body))
				binary.LittleEndian.PutUint32(f, uint32(len(f)))
				f[4] = byte(t)
				f[5], f[6] = 1, 0
				copy(f[7:], body)
				s.res.Nontrivial++
				s.try(f)
				if len(body) < maxBody {
					for _, a := range alpha {
						rec(append(append([]byte{}, body...), a))
					}
				}
			}
			rec(nil)
		}
		s.res.Samples = append(s.res.Samples, fmt.Sprintf("size[4]=7+n type=%d tag=1 body in {00,01,02,7f,ff}^n, n<=%d", lo, maxBody))
		return s.res
	}}
}

// stat records on their own
func c02StatScenario(dotu bool) Scenario {
	return Scenario{Name: fmt.Sprintf("unpackdir dotu=%v", dotu), Run: func(c *RunCtx) *Result {
		res := &Result{Exhaustive: true}
		seen := map[string]bool{}
		fail := func(sig, msg string, in []byte) {
			if !seen[sig] {
				seen[sig] = true
				res.Findings = append(res.Findings, Finding{Sig: sig, Msg: fmt.Sprintf("%s\ninput (%d bytes): % x", msg, len(in), in), Detail: map[string]any{"input_hex": fmt.Sprintf("%x", in), "dotu": dotu}})
			}
		}
		try := func(in []byte) {
			res.Evals++
			res.Nontrivial++
			var d *go9p.Dir
			var rest []byte
			var amt int
			var err error
			pan := ""
			func() {
				defer func() {
					if r := recover(); r != nil {
						pan = fmt.Sprint(r)
					}
				}()
				d, rest, amt, err = go9p.UnpackDir(in, dotu)
			}()
			if pan != "" {
				fail("C02/unpackdir/panic/"+panicClass(pan), "UnpackDir panics: "+pan, in)
				return
			}
			if err != nil {
				return
			}
			if amt < 0 || amt > len(in) || len(rest) != len(in)-amt {
				fail("C02/unpackdir/consumed", fmt.Sprintf("amt=%d rest=%d input=%d", amt, len(rest), len(in)), in)
				return
			}
			// the fields must lie inside the consumed bytes: re-encoding cannot be longer
			if re := go9p.PackDir(d, dotu); len(re) != amt {
				fail("C02/unpackdir/reencode-length", fmt.Sprintf("record re-encodes to %d bytes but %d were consumed", len(re), amt), in)
			}
		}
		doms, _ := statDoms(false)
		for _, sel := range []int{0, 1, 2} {
			v := make([]any, len(doms))
			for i, d := range doms {
				v[i] = d[sel%len(d)]
			}
			st := mkStat(v, dotu)
			base := wire.EncodeStat(&st, dotu)
			if len(base) > 400 {
				continue
			}
			L := len(base)
			for k := 0; k <= L; k++ {
				try(append([]byte{}, base[:k]...))
			}
			for off := 0; off < L; off++ {
				for _, b := range []byte{0, 1, 0x7F, 0x80, 0xFF, base[off] + 1} {
					t := append([]byte{}, base...)
					t[off] = b
					try(t)
				}
				for _, v := range []uint16{0, 1, uint16(L), uint16(L - off), 0x7FFF, 0xFFFF} {
					if off+2 <= L {
						t := append([]byte{}, base...)
						binary.LittleEndian.PutUint16(t[off:], v)
						try(t)
					}
				}
			}
		}
		res.Samples = append(res.Samples, "stat records: all truncations, byte and u16 overwrites at every offset")
		return res
	}}
}

// withAkaros runs a scenario with the library's global "Akaros extensions" option
// switched on (a process-wide flag that changes how errors and symbolic links travel).
func withAkaros(sc Scenario) Scenario {
	run := sc.Run
	sc.Name += " akaros-option=on"
	sc.Run = func(c *RunCtx) *Result {
		old := *go9p.Akaros
		*go9p.Akaros = true
		defer func() { *go9p.Akaros = old }()
		return run(c)
	}
	return sc
}

func c02Scenarios(tier string) []Scenario {
	var out []Scenario
	for _, g := range c01Gens() {
		for _, dotu := range []bool{false, true} {
			out = append(out, c02Scenario(g, dotu))
			if tier == "thorough" || g.typ == wire.Rerror || g.typ == wire.Rstat || g.typ == wire.Twstat || g.typ == wire.Tcreate {
				out = append(out, withAkaros(c02Scenario(g, dotu)))
			}
		}
	}
	for _, dotu := range []bool{false, true} {
		for lo := 0; lo < 256; lo += 32 {
			out = append(out, c02TinyScenario(dotu, lo, lo+31))
		}
		out = append(out, c02StatScenario(dotu), withAkaros(c02StatScenario(dotu)))
	}
	return out
}

func init() {
	register(&Property{ID: "C02", Level: "exploration",
		Technique: "bounded-exhaustive enumeration of packet mutations (truncations, declared sizes, byte substitutions, length-field overwrites, all tiny frames)",
		Rule:      "for up to 5 canonical packets per type and dialect: every truncation (with and without adjusted size field), every declared size 0..len+8 and extremes, every byte value at every offset (packets <= 96 bytes; boundary values otherwise), 11 u16 and 11 u32 values written at every offset, all 65536 values of the Twalk / Rwalk element counts, every string field with every length 0..40; Rstat / Twstat whose two stat counts agree for every size 0..90; well-formed walks of 0..600 (and 1000..5041) elements and bodies one byte short / long of them; every frame of header + <=3 body bytes over {00,01,02,7f,ff} for all 256 type bytes; stat records likewise; each input decoded twice with different bytes after the declared size; Rerror, Rstat, Twstat, Tcreate and stat records (thorough: everything) also with the library's global Akaros option on. distinct = distinct byte strings",
		Assumptions: []string{"allocation is measured with runtime/metrics and confirmed with runtime.MemStats when above 8 KiB + 16*len(input)"},
		Scenarios:   c02Scenarios, QuickS: 100, ThoroughS: 900})
}

func seqInts(lo, hi int) []int {
	var l []int
	for i := lo; i <= hi; i++ {
		l = append(l, i)
	}
	return l
}
