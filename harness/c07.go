package main

import (
	"fmt"
	"strings"

	"github.com/rminnich/go9p/vs"
	"harness/wire"
)

// C07: Tflush is always answered and truly cancels.

type c07Params struct {
	Kind      string // target request kind
	Prop      string // property the scenario is run for ("" = C07); C03 runs the flush-of-flush stages too: a Tflush is a request owed exactly one reply
	Stage     string // sameseg | separate | afterreply | unknown | executing | twoflush | flushflush | flushflush2 | flushflush3 | sametag
	FlushMode string // none | cancel | ignore
	Gated     bool   // target parks in the implementation
	Rel       string // free (releaser races) | late (released only after quiescence)
	Maxpend   int
	Dotu      bool
	Notag     bool // the target request carries tag 0xFFFF
	P         int
}

func (p c07Params) name() string {
	nt := ""
	if p.Notag {
		nt = " target-tag=0xffff"
	}
	return fmt.Sprintf("flush %s stage=%s flushop=%s gated=%v rel=%s maxpend=%d dotu=%v%s", p.Kind, p.Stage, p.FlushMode, p.Gated, p.Rel, p.Maxpend, p.Dotu, nt)
}

type c07Obs struct {
	s        *sess
	target   *wire.Msg
	flushTag []uint16
	setupN   int
	mainN    int // frames before the probes
	mainSeq  int64
	probes   []string
	probeErr string
}

func c07Scenario(p c07Params) Scenario {
	prop := p.Prop
	if prop == "" {
		prop = "C07"
	}
	var o *c07Obs
	const fTag, fTag2, fTag3 = 101, 102, 103
	tTag := uint16(100)
	if p.Notag {
		tTag = 0xFFFF // the server does not reserve NOTAG: an ordinary request may carry it
	}
	body := func() {
		s := newSess(SrvOpt{Msize: 256, Dotu: p.Dotu, Maxpend: p.Maxpend, Flush: p.FlushMode != "none"})
		s.fs.FlushMode = p.FlushMode
		o = &c07Obs{s: s}
		// warm-up of the same kind on another fid, so that the reply buffer the target
		// receives last carried the matching R-type
		var wm *wire.Msg
		if p.Kind == "remove" {
			// (another file than the target's: the warm-up is carried out)
			s.rpcOK(twalk(s.tag(), 0, 60, "g"), wire.Rwalk)
			wm = &wire.Msg{Type: wire.Tremove, Tag: s.tag(), Fid: 60}
		} else {
			wm = s.prepare(p.Kind, 60, s.tag())
		}
		if p.Kind == "attach" {
			wm.Fid = 61
		}
		s.c.Rpc(wm)
		o.target = s.prepare(p.Kind, 10, tTag)
		var gate *vs.Sem
		if p.Gated {
			gate = vs.NewSem(0)
			s.fs.Script[reqKey{0, tTag, 0}] = &Action{Gate: gate}
		}
		if p.Stage == "saved" {
			s.fs.Script[reqKey{0, tTag, 0}] = &Action{Silent: true}
		}
		var gate0 *vs.Sem
		var older *wire.Msg
		if p.Stage == "sametag" {
			// an older request with the same tag is parked; the target queues behind it
			older = s.prepare("stat", 20, tTag)
			gate0 = vs.NewSem(0)
			s.fs.Script[reqKey{0, tTag, 0}] = &Action{Gate: gate0}
			delete(s.fs.Script, reqKey{0, tTag, 1})
			if p.Gated {
				s.fs.Script[reqKey{0, tTag, 1}] = &Action{Gate: gate}
			}
		}
		o.setupN = len(s.c.Collect())
		flush := func(tag, old uint16) *wire.Msg { return &wire.Msg{Type: wire.Tflush, Tag: tag, Oldtag: old} }
		vs.Window(true)
		if p.Gated && p.Rel == "free" {
			vs.Go("releaser", func() { gate.Release() })
		}
		switch p.Stage {
		case "sameseg":
			o.flushTag = []uint16{fTag}
			s.c.Send(p.Dotu, o.target, flush(fTag, tTag))
		case "separate":
			o.flushTag = []uint16{fTag}
			s.c.Send(p.Dotu, o.target)
			s.c.Send(p.Dotu, flush(fTag, tTag))
		case "afterreply":
			o.flushTag = []uint16{fTag}
			s.c.Send(p.Dotu, o.target)
			vs.Idle()
			s.c.Send(p.Dotu, flush(fTag, tTag))
		case "unknown":
			o.flushTag = []uint16{fTag}
			s.c.Send(p.Dotu, o.target, flush(fTag, 555))
		case "saved":
			// the implementation's operation has returned without answering (it kept the
			// request to answer later); then the request is flushed
			o.flushTag = []uint16{fTag}
			s.c.Send(p.Dotu, o.target)
			vs.Idle()
			s.c.Send(p.Dotu, flush(fTag, tTag))
		case "executing":
			o.flushTag = []uint16{fTag}
			s.c.Send(p.Dotu, o.target)
			vs.Idle() // the target is parked in the implementation (or done)
			s.c.Send(p.Dotu, flush(fTag, tTag))
		case "twoflush":
			o.flushTag = []uint16{fTag, fTag2}
			s.c.Send(p.Dotu, o.target, flush(fTag, tTag))
			s.c.Send(p.Dotu, flush(fTag2, tTag))
		case "flushflush":
			o.flushTag = []uint16{fTag2} // fTag is itself flushed: at most one Rflush for it
			s.c.Send(p.Dotu, o.target, flush(fTag, tTag), flush(fTag2, fTag))
		case "flushflush2":
			// two flushes of the same Tflush: both are owed an Rflush
			o.flushTag = []uint16{fTag2, fTag3}
			s.c.Send(p.Dotu, o.target, flush(fTag, tTag), flush(fTag2, fTag), flush(fTag3, fTag))
		case "flushflush3":
			// the target already has a Tflush chained to it when a second Tflush of it arrives
			// together with a Tflush of that second one: the first and the third are owed an Rflush
			o.flushTag = []uint16{fTag3, fTag2}
			s.c.Send(p.Dotu, o.target, flush(fTag3, tTag))
			vs.Idle()
			s.c.Send(p.Dotu, flush(fTag, tTag), flush(fTag2, fTag))
		case "sametag":
			o.flushTag = []uint16{fTag}
			s.c.Send(p.Dotu, older)
			vs.Idle()
			s.c.Send(p.Dotu, o.target, flush(fTag, tTag))
			vs.Idle()
			gate0.Release()
		}
		vs.Idle()
		if p.Gated && p.Rel == "late" {
			gate.Release()
			vs.Idle()
		}
		vs.Window(false)
		o.mainN = len(s.c.Collect())
		o.mainSeq = vs.Seq()
		// probes (sequential, default schedule)
		probe := func(m *wire.Msg) *wire.Msg {
			r := s.c.Rpc(m)
			if r == nil {
				o.probes = append(o.probes, fmt.Sprintf("%s -> no reply", m))
			} else {
				o.probes = append(o.probes, fmt.Sprintf("%s -> %s", m, r))
			}
			return r
		}
		fr := s.c.Frames[o.setupN:o.mainN]
		replied := false
		rflushSeen := false
		for _, f := range fr {
			if f.Msg == nil {
				continue
			}
			if f.Msg.Tag == fTag && f.Msg.Type == wire.Rflush {
				rflushSeen = true
			}
			if f.Msg.Tag == tTag && !rflushSeen {
				replied = true
			}
		}
		if p.Stage == "sametag" || p.Stage == "unknown" || p.Stage == "flushflush" || p.Stage == "flushflush3" {
			replied = true // cancellation claims are not evaluated for these stages
		}
		isErr := func(r *wire.Msg, text string) bool { return r != nil && r.Type == wire.Rerror && strings.Contains(r.Ename, text) }
		if !replied {
			switch p.Kind {
			case "walk":
				if r := probe(&wire.Msg{Type: wire.Tstat, Tag: 200, Fid: 110}); !isErr(r, "unknown fid") {
					o.probeErr = "cancelled Twalk left its newfid behind"
				}
			case "attach":
				if r := probe(&wire.Msg{Type: wire.Tstat, Tag: 200, Fid: 10}); !isErr(r, "unknown fid") {
					o.probeErr = "cancelled Tattach left its fid behind"
				}
			case "clunk", "remove":
				r := probe(&wire.Msg{Type: wire.Tstat, Tag: 200, Fid: 10})
				if !(isErr(r, "unknown fid") || (r != nil && r.Type == wire.Rstat)) {
					o.probeErr = "fid of a cancelled " + p.Kind + " is neither gone nor usable"
				}
			case "open", "create":
				if r := probe(twalk(200, 10, 120)); r == nil || r.Type != wire.Rwalk {
					o.probeErr = "cancelled " + p.Kind + " changed the fid's open state"
				}
			}
			if p.Stage == "saved" && o.probeErr == "" && p.Kind != "attach" && p.Kind != "clunk" && p.Kind != "remove" {
				// the cancelled request holds nothing any more: clunking its fid gives the fid
				// up (the implementation is told, the number is free again)
				tokBefore := len(s.fs.destroyed)
				if r := probe(&wire.Msg{Type: wire.Tclunk, Tag: 201, Fid: 10}); r == nil || r.Type != wire.Rclunk {
					o.probeErr = "fid of a cancelled " + p.Kind + " cannot be clunked"
				} else if r := probe(&wire.Msg{Type: wire.Tstat, Tag: 202, Fid: 10}); !isErr(r, "unknown fid") {
					o.probeErr = "fid of a cancelled " + p.Kind + " survives its Tclunk"
				} else if len(s.fs.destroyed) != tokBefore+1 {
					o.probeErr = "the implementation was not told that the clunked fid of a cancelled " + p.Kind + " is gone"
				} else if r := probe(twalk(203, 0, 10)); r == nil || r.Type != wire.Rwalk {
					o.probeErr = "fid number of a cancelled " + p.Kind + " is not free after its Tclunk"
				}
			}
		}
		// the old tag is reusable the moment Rflush has arrived
		if r := probe(&wire.Msg{Type: wire.Tstat, Tag: tTag, Fid: 0}); r == nil || r.Type != wire.Rstat {
			if o.probeErr == "" {
				o.probeErr = "tag of the flushed request is not reusable after Rflush"
			}
		}
		s.c.Collect()
	}
	check := stdCheck(prop, func(x *vs.Exec) *Viol {
		s := o.s
		fr := s.c.Frames[o.setupN:o.mainN]
		detail := func() any {
			return map[string]any{"wire": strings.Split(framesString(s.c.Frames[o.setupN:]), "\n"), "fslog": strings.Split(s.fs.logString(), "\n"), "probes": o.probes, "parked": x.Parked}
		}
		v := func(sig, msg string) *Viol {
			return &Viol{Sig: prop + "/" + sig, Msg: msg + "\n" + framesString(fr) + "probes: " + strings.Join(o.probes, " | "), Detail: detail()}
		}
		if len(s.c.Junk) > 0 {
			return v("truncated-or-garbled-frame", fmt.Sprintf("the reply stream ends in %d bytes that are not a frame", len(s.c.Junk)))
		}
		var rflushSeq int64 = -1
		rflushOff := -1
		nrflush := map[uint16]int{}
		var treply []Frame
		for _, f := range fr {
			if f.Msg == nil {
				return v("malformed-frame", "unparseable frame: "+f.Err)
			}
			switch {
			case f.Msg.Type == wire.Rflush:
				nrflush[f.Msg.Tag]++
				if f.Msg.Tag == fTag && rflushOff < 0 {
					rflushOff, rflushSeq = f.Off, f.Seq
				}
			case f.Msg.Tag == tTag:
				treply = append(treply, f)
			case f.Msg.Tag == fTag || f.Msg.Tag == fTag2 || f.Msg.Tag == fTag3:
				return v("flush-answered-with/"+wire.Names[f.Msg.Type], fmt.Sprintf("Tflush answered by %s", f.Msg))
			default:
				return v("stray-reply", fmt.Sprintf("reply with unexpected tag: %s", f.Msg))
			}
		}
		for _, t := range o.flushTag {
			if nrflush[t] != 1 {
				return v(fmt.Sprintf("rflush-count-%d/stage=%s", nrflush[t], p.Stage), fmt.Sprintf("Tflush tag %d got %d Rflush replies (parked: %+v)", t, nrflush[t], x.Parked))
			}
		}
		if (p.Stage == "flushflush" || p.Stage == "flushflush2" || p.Stage == "flushflush3") && nrflush[fTag] > 1 {
			return v("rflush-count-2/flushed-flush", "a flushed Tflush got more than one Rflush")
		}
		nT := 1
		if p.Stage == "sametag" {
			nT = 2
		}
		if len(treply) > nT {
			return v("target-duplicate-reply", fmt.Sprintf("flushed request got %d replies", len(treply)))
		}
		if p.Stage == "unknown" || p.Stage == "afterreply" {
			if len(treply) != 1 {
				return v("target-no-reply/stage="+p.Stage, "request that was not (effectively) flushed got no reply")
			}
		}
		if p.Stage != "unknown" && p.Stage != "flushflush" && p.Stage != "flushflush3" && rflushOff >= 0 {
			for _, f := range treply {
				if p.Stage == "sametag" {
					break
				}
				if f.Off > rflushOff {
					return v("reply-after-rflush/"+p.Kind, fmt.Sprintf("reply to the flushed request (offset %d) was written after its Rflush (offset %d)", f.Off, rflushOff))
				}
			}
		}
		cancelled := len(treply) == 0 && p.Stage != "sametag" && p.Stage != "unknown" && p.Stage != "flushflush" && p.Stage != "flushflush3"
		if cancelled {
			for _, e := range s.fs.calls(0, tTag, 0) {
				if e.Seq > rflushSeq && e.Seq < o.mainSeq {
					return v("op-after-rflush/"+p.Kind, fmt.Sprintf("cancelled %s was handed to the implementation (%s, seq %d) after its Rflush was written (seq %d)", p.Kind, e.Op, e.Seq, rflushSeq))
				}
			}
		}
		if o.probeErr != "" {
			return v("probe/"+sigPart(strings.ReplaceAll(o.probeErr, " ", "-")), o.probeErr)
		}
		return nil
	}, nil)
	sp := &VsSpec{Name: p.name(), Body: body, Check: check, P: p.P,
		Sample: func() any {
			return map[string]any{"target": o.target.String(), "wire": strings.Split(framesString(o.s.c.Frames[o.setupN:]), "\n")}
		}}
	return vsScenario(sp)
}

var c07Kinds = []string{"attach", "walk", "open", "create", "read", "write", "stat", "wstat", "clunk", "remove"}

// c07AcrossVersion: a request is held under tag t when a Tversion arrives in
// mid-session; the new session uses tag t again (held as well); the old request
// completes; then the client flushes tag t. The Rflush must not overtake the reply of
// the new request.
func c07AcrossVersion(kind, flushMode string, dotu bool, maxpend, P int) Scenario {
	var s *sess
	name := fmt.Sprintf("flush across-Tversion %s flushop=%s maxpend=%d dotu=%v", kind, flushMode, maxpend, dotu)
	body := func() {
		s = newSess(SrvOpt{Msize: 256, Dotu: dotu, Maxpend: maxpend, Flush: flushMode != "none"})
		s.fs.FlushMode = flushMode
		s.fs.NoLateAnswer = flushMode == "cancel"
		a := s.prepare("read", 30, 100)
		b := s.prepare(kind, 31, 100)
		gA, gB := vs.NewSem(0), vs.NewSem(0)
		s.fs.Script[reqKey{0, 100, 0}] = &Action{Gate: gA}
		s.fs.Script[reqKey{0, 100, 1}] = &Action{Gate: gB}
		s.c.Send(dotu, a)
		vs.Idle()
		ver := "9P2000"
		if dotu {
			ver = "9P2000.u"
		}
		if r := s.c.Version(256, ver); r == nil || r.Type != wire.Rversion {
			vs.Fail("Tversion in mid-session answered by %v", r)
		}
		s.setupN = len(s.c.Collect())
		vs.Window(true)
		s.c.Send(dotu, b)
		vs.Idle()
		gA.Release()
		vs.Idle()
		s.c.Send(dotu, &wire.Msg{Type: wire.Tflush, Tag: 101, Oldtag: 100})
		vs.Idle()
		gB.Release()
		vs.Idle()
		vs.Window(false)
		s.c.Collect()
	}
	check := stdCheck("C07", func(x *vs.Exec) *Viol {
		frames := s.c.Frames[s.setupN:]
		detail := map[string]any{"wire": strings.Split(framesString(frames), "\n"), "fslog": strings.Split(s.fs.logString(), "\n")}
		nflush, rflushAt := 0, -1
		for i, f := range frames {
			if f.Msg == nil {
				return &Viol{Sig: "C07/malformed-frame", Msg: f.Err, Detail: detail}
			}
			if f.Msg.Tag == 101 {
				nflush++
				rflushAt = i
				if f.Msg.Type != wire.Rflush {
					return &Viol{Sig: "C07/tflush-answered-by-" + wire.Names[f.Msg.Type], Msg: framesString(frames), Detail: detail}
				}
			}
		}
		if nflush != 1 {
			return &Viol{Sig: fmt.Sprintf("C07/rflush-count-%d/across-version", nflush), Msg: fmt.Sprintf("the Tflush got %d replies\n%s\nparked %v", nflush, framesString(frames), x.Parked), Detail: detail}
		}
		for i, f := range frames {
			if f.Msg.Tag == 100 && i > rflushAt {
				return &Viol{Sig: "C07/reply-after-rflush/across-version", Msg: fmt.Sprintf("the request of the new session under tag 100 was answered after the Rflush for that tag (a Tversion before it, with an older request under the same tag still held, must not make the server lose track of it)\n%s", framesString(frames)), Detail: detail}
			}
		}
		return nil
	}, nil)
	return vsScenario(&VsSpec{Name: name, Body: body, Check: check, P: P})
}

// c07QueuedFlushedAcrossVersion: like c07AcrossVersion, but between the Tversion and the
// request that is finally flushed, another request under the same tag queues behind the
// old one, is flushed while still waiting and so finishes first.
func c07QueuedFlushedAcrossVersion(dotu bool, maxpend, P int) Scenario {
	var s *sess
	name := fmt.Sprintf("flush across-Tversion with a queued request flushed in between maxpend=%d dotu=%v", maxpend, dotu)
	body := func() {
		s = newSess(SrvOpt{Msize: 256, Dotu: dotu, Maxpend: maxpend})
		a := s.prepare("read", 30, 100)
		b := s.prepare("stat", 31, 100)
		c := s.prepare("read", 32, 100)
		gA, gC := vs.NewSem(0), vs.NewSem(0)
		s.fs.Script[reqKey{0, 100, 0}] = &Action{Gate: gA}
		// whichever occurrence the third request is for the implementation (the second never gets there if it is cancelled in time)
		s.fs.Script[reqKey{0, 100, 1}] = &Action{Gate: gC}
		s.fs.Script[reqKey{0, 100, 2}] = &Action{Gate: gC}
		s.c.Send(dotu, a)
		vs.Idle()
		ver := "9P2000"
		if dotu {
			ver = "9P2000.u"
		}
		if r := s.c.Version(256, ver); r == nil || r.Type != wire.Rversion {
			vs.Fail("Tversion in mid-session answered by %v", r)
		}
		s.setupN = len(s.c.Collect())
		vs.Window(true)
		s.c.Send(dotu, b)
		vs.Idle()
		s.c.Send(dotu, &wire.Msg{Type: wire.Tflush, Tag: 103, Oldtag: 100})
		vs.Idle()
		got103 := false
		for _, f := range s.c.Collect()[s.setupN:] {
			if f.Msg != nil && f.Msg.Tag == 103 {
				got103 = true
			}
		}
		if !got103 {
			// the queued request could not be cancelled yet: let the old one go first
			gA.Release()
			vs.Idle()
			gC.Release()
			vs.Idle()
		}
		s.setupN = len(s.c.Collect())
		s.c.Send(dotu, c)
		vs.Idle()
		gA.Release()
		vs.Idle()
		s.c.Send(dotu, &wire.Msg{Type: wire.Tflush, Tag: 101, Oldtag: 100})
		vs.Idle()
		gC.Release()
		gC.Release()
		vs.Idle()
		vs.Window(false)
		s.c.Collect()
	}
	check := stdCheck("C07", func(x *vs.Exec) *Viol {
		frames := s.c.Frames[s.setupN:]
		detail := map[string]any{"wire": strings.Split(framesString(frames), "\n"), "fslog": strings.Split(s.fs.logString(), "\n")}
		nflush, rflushAt := 0, -1
		for i, f := range frames {
			if f.Msg == nil {
				return &Viol{Sig: "C07/malformed-frame", Msg: f.Err, Detail: detail}
			}
			if f.Msg.Tag == 101 {
				nflush++
				rflushAt = i
			}
		}
		if nflush != 1 {
			return &Viol{Sig: fmt.Sprintf("C07/rflush-count-%d/across-version-queued", nflush), Msg: fmt.Sprintf("the Tflush got %d replies\n%s\nparked %v", nflush, framesString(frames), x.Parked), Detail: detail}
		}
		for i, f := range frames {
			if f.Msg.Tag == 100 && i > rflushAt {
				return &Viol{Sig: "C07/reply-after-rflush/across-version-queued", Msg: fmt.Sprintf("the request under tag 100 was answered after the Rflush for that tag (before it: a Tversion with an older request under the tag still held, and a request under the tag that was flushed while it waited behind that one)\n%s", framesString(frames)), Detail: detail}
			}
		}
		return nil
	}, nil)
	return vsScenario(&VsSpec{Name: name, Body: body, Check: check, P: P})
}

// c07AuthReadReuse: a read on an authentication fid is waiting inside AuthRead when it
// is flushed and the implementation cancels it; the Rflush arrives and the client uses
// the tag again at once (with a slow reader, so that the new reply waits behind the
// writer); only then does the cancelled AuthRead return. The new request gets its own,
// intact reply.
func c07AuthReadReuse(next string, dotu bool, maxpend, P int) Scenario {
	var s *sess
	var nm *wire.Msg
	name := fmt.Sprintf("flush auth-read cancelled, tag reused for %s before the read returns maxpend=%d dotu=%v", next, maxpend, dotu)
	body := func() {
		s = newSess(SrvOpt{Msize: 256, Dotu: dotu, Maxpend: maxpend, Flush: true, Auth: true})
		s.fs.FlushMode = "cancel"
		s.fs.CancelAuthIO = true
		if r := s.c.Rpc(&wire.Msg{Type: wire.Tauth, Tag: s.tag(), Afid: 70, Uname: "glenda", NUname: 7, HasNUname: dotu}); r == nil || r.Type != wire.Rauth {
			vs.Fail("setup: Tauth answered by %v", r)
		}
		nm = s.prepare(next, 31, 100)
		if next == "stat" {
			s.fs.Script[reqKey{0, 100, 0}] = &Action{StatName: "the-new-request"}
		}
		gate := vs.NewSem(0)
		s.fs.AuthReadGate = gate
		s.setupN = len(s.c.Collect())
		vs.Window(true)
		s.c.Send(dotu, &wire.Msg{Type: wire.Tread, Tag: 100, Fid: 70, Count: 64})
		vs.Idle()
		s.c.Send(dotu, &wire.Msg{Type: wire.Tflush, Tag: 101, Oldtag: 100})
		vs.Idle()
		s.c.SrvEnd.StallOutgoing()
		s.c.Send(dotu, nm)
		vs.Idle()
		gate.Release()
		vs.Idle()
		s.c.SrvEnd.UnstallOutgoing()
		vs.Idle()
		vs.Window(false)
		s.c.Collect()
	}
	check := stdCheck("C07", func(x *vs.Exec) *Viol {
		frames := s.c.Frames[s.setupN:]
		detail := map[string]any{"wire": strings.Split(framesString(frames), "\n"), "fslog": strings.Split(s.fs.logString(), "\n")}
		rflush, n100 := -1, 0
		for i, f := range frames {
			if f.Msg == nil {
				return &Viol{Sig: "C07/malformed-frame/auth-read-reuse", Msg: "a reply does not parse: " + f.Err + "\n" + framesString(frames), Detail: detail}
			}
			if f.Msg.Tag == 101 {
				rflush = i
			}
		}
		if rflush < 0 {
			return &Viol{Sig: "C07/rflush-count-0/auth-read-reuse", Msg: "the Tflush was never answered\n" + framesString(frames), Detail: detail}
		}
		for i, f := range frames {
			if f.Msg.Tag != 100 {
				continue
			}
			if i < rflush {
				continue // the flushed read was answered after all, before its Rflush: allowed
			}
			n100++
			got := renderReply(f.Msg)
			ok := false
			for _, r := range s.fs.resps(0, 100, 0) {
				if r.Reply == got {
					ok = true
				}
			}
			if !ok {
				return &Viol{Sig: "C07/tag-reused-after-rflush-gets-wrong-reply", Msg: fmt.Sprintf("the tag of a cancelled read on an authentication fid was used again after its Rflush; the new request %s was answered with %q, which is not what the implementation produced for it\n%s", nm, got, framesString(frames)), Detail: detail}
			}
		}
		if n100 != 1 {
			return &Viol{Sig: fmt.Sprintf("C07/reply-count-%d/auth-read-reuse", n100), Msg: fmt.Sprintf("the request re-using the tag got %d replies after the Rflush\n%s", n100, framesString(frames)), Detail: detail}
		}
		return nil
	}, nil)
	return vsScenario(&VsSpec{Name: name, Body: body, Check: check, P: P})
}

func c07Scenarios(tier string) []Scenario {
	var out []Scenario
	add := func(p c07Params) { out = append(out, c07Scenario(p)) }
	P := 2
	if tier == "thorough" {
		P = 3
	}
	i := 0
	for i, k := range c07Kinds {
		add(c07Params{Kind: k, Stage: "saved", FlushMode: "cancel", Maxpend: i % 3, Dotu: i%2 == 0, P: 2})
	}
	for _, k := range c07Kinds {
		i++
		dotu := i%2 == 0
		mp := i % 3
		// not yet started / racing with the start
		add(c07Params{Kind: k, Stage: "sameseg", FlushMode: "none", Maxpend: mp, Dotu: dotu, P: P})
		add(c07Params{Kind: k, Stage: "separate", FlushMode: "cancel", Maxpend: (mp + 1) % 3, Dotu: !dotu, P: P})
		// executing in the implementation
		for _, fm := range []string{"none", "cancel", "ignore"} {
			if tier == "quick" && (i+len(fm))%3 != 0 && k != "walk" && k != "read" {
				continue
			}
			add(c07Params{Kind: k, Stage: "executing", FlushMode: fm, Gated: true, Rel: "late", Maxpend: mp, Dotu: dotu, P: P})
			add(c07Params{Kind: k, Stage: "executing", FlushMode: fm, Gated: true, Rel: "free", Maxpend: mp, Dotu: dotu, P: P})
		}
		if tier == "thorough" {
			add(c07Params{Kind: k, Stage: "sameseg", FlushMode: "cancel", Gated: true, Rel: "free", Maxpend: mp, Dotu: dotu, P: P})
			add(c07Params{Kind: k, Stage: "separate", FlushMode: "none", Gated: true, Rel: "free", Maxpend: mp, Dotu: dotu, P: P})
			add(c07Params{Kind: k, Stage: "afterreply", FlushMode: "none", Maxpend: mp, Dotu: dotu, P: 2})
			add(c07Params{Kind: k, Stage: "twoflush", FlushMode: "ignore", Gated: true, Rel: "free", Maxpend: mp, Dotu: dotu, P: 2})
		}
	}
	out = append(out, c07AuthReadReuse("stat", true, 0, 1), c07AuthReadReuse("read", false, 2, 1))
	out = append(out, c07QueuedFlushedAcrossVersion(false, 0, 1), c07QueuedFlushedAcrossVersion(true, 2, 1))
	out = append(out, c07AcrossVersion("read", "none", false, 0, 2), c07AcrossVersion("walk", "cancel", true, 2, 2), c07AcrossVersion("stat", "ignore", true, 1, 2))
	for _, k := range []string{"read", "walk"} {
		add(c07Params{Kind: k, Stage: "afterreply", FlushMode: "none", P: P})
		add(c07Params{Kind: k, Stage: "unknown", FlushMode: "cancel", Dotu: true, P: P})
		add(c07Params{Kind: k, Stage: "twoflush", FlushMode: "none", Maxpend: 1, P: 2})
		add(c07Params{Kind: k, Stage: "twoflush", FlushMode: "cancel", Gated: true, Rel: "late", P: 2})
		add(c07Params{Kind: k, Stage: "flushflush", FlushMode: "none", Gated: true, Rel: "late", Dotu: true, P: 2})
		ffP := 1 // four requests and their flush workers: one preemption in the quick tier
		if tier == "thorough" {
			ffP = 2
		}
		if tier == "thorough" || k == "read" {
			add(c07Params{Kind: k, Stage: "flushflush2", FlushMode: "none", Gated: true, Rel: "late", Maxpend: 1, P: ffP})
		}
		if tier == "thorough" || k == "walk" {
			add(c07Params{Kind: k, Stage: "flushflush2", FlushMode: "cancel", Gated: true, Rel: "free", Dotu: true, P: ffP})
		}
		if tier == "thorough" || k == "read" || k == "stat" {
			add(c07Params{Kind: k, Stage: "flushflush3", FlushMode: "none", Gated: true, Rel: "late", Maxpend: 0, Dotu: k == "stat", P: ffP + 1})
		}
		add(c07Params{Kind: k, Stage: "sametag", FlushMode: "none", Maxpend: 0, P: 2})
		add(c07Params{Kind: k, Stage: "sametag", FlushMode: "cancel", Gated: true, Rel: "late", Maxpend: 2, Dotu: true, P: 2})
		// the target carries tag 0xFFFF (NOTAG is not reserved by the server)
		add(c07Params{Kind: k, Stage: "executing", FlushMode: "none", Gated: true, Rel: "late", Notag: true, P: 2})
		add(c07Params{Kind: k, Stage: "executing", FlushMode: "cancel", Gated: true, Rel: "free", Notag: true, Maxpend: 1, Dotu: true, P: 2})
		add(c07Params{Kind: k, Stage: "sameseg", FlushMode: "none", Notag: true, Dotu: true, P: 2})
	}
	return out
}

func init() {
	register(&Property{ID: "C07", Level: "model_checking",
		Technique: "stateless model checking of the real server under a controlled scheduler (all schedules within a preemption bound)",
		Rule:      "every schedule with at most P preemptions of the server goroutines, scripted implementation and releaser, per scenario (target kind x flush stage x FlushOp behaviour x gated/immediate x release timing x Maxpend x dialect; also with the target carrying tag 0xFFFF; a flush of a tag re-used after a Tversion in mid-session; a cancelled read on an authentication fid whose tag is used again before AuthRead returns); after quiescence sequential probes (fid state, tag reuse); distinct = distinct per-object operation orders ; requests the implementation kept after its operation returned, then cancelled through FlushOp (fids clunkable and their numbers free afterwards)",
		Assumptions: []string{"code between two synchronisation operations is atomic (race-free executions)", "transport modelled as an unbounded reliable byte queue", "the reply buffer the target receives last carried the matching R-type (warm-up request of the same kind)"},
		Scenarios:   c07Scenarios, QuickS: 110, ThoroughS: 1700})
}
