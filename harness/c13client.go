package main

func c13ClientScenarios(tier string) []Scenario { return nil }
