package main

import (
	"syscall"
	"strings"
	"bytes"
	"fmt"
	"io"
	"os"
	"path/filepath"

	"github.com/rminnich/go9p"
	"github.com/rminnich/go9p/vs"
)

// C14: file data read and written through client and Ufs is exact.

func c14Lengths(u int, thorough bool) []int {
	if u <= 8 {
		var l []int
		for i := 0; i <= 3*u+2; i++ {
			l = append(l, i)
		}
		return l
	}
	l := []int{0, 1, u - 1, u, u + 1, 2*u - 1, 2 * u, 2*u + 1, 3*u + 1}
	return l
}

func c14Scenario(msize uint32, dotu bool, lengths []int, part string) Scenario {
	u := int(msize) - 24
	name := fmt.Sprintf("data msize=%d(iounit %d) dotu=%v lengths=%v %s", msize, u, dotu, lengths, part)
	return Scenario{Name: name, Run: func(rc *RunCtx) *Result {
		res := &Result{Exhaustive: true}
		base, root := scratchDir("c14")
		defer os.RemoveAll(base)
		seen := map[string]bool{}
		fail := func(sig, msg string) {
			if !seen[sig] && len(res.Findings) < 10 {
				seen[sig] = true
				res.Findings = append(res.Findings, Finding{Sig: "C14/" + sig, Msg: msg})
			}
		}
		small := u <= 16
		offs := func(L int) []int {
			if small {
				var o []int
				for i := 0; i <= L+2; i++ {
					o = append(o, i)
				}
				return o
			}
			m := map[int]bool{}
			for _, x := range []int{0, 1, u - 1, u, u + 1, L - u - 1, L - u, L - 1, L, L + 1, L + 2, L / 2} {
				if x >= 0 && x <= L+2 {
					m[x] = true
				}
			}
			var o []int
			for x := 0; x <= L+2; x++ {
				if m[x] {
					o = append(o, x)
				}
			}
			return o
		}
		counts := func() []int {
			if small {
				var c []int
				for i := 0; i <= 2*u+1; i++ {
					c = append(c, i)
				}
				return c
			}
			return []int{0, 1, 2, u - 1, u, u + 1, 2*u - 1, 2 * u, 2*u + 1}
		}()
		for _, L := range lengths {
			if rc.Expired() {
				res.Exhaustive = false
				res.CapHit = "internal deadline"
				break
			}
			content := pattern(L, L)
			path := filepath.Join(root, "file")
			os.WriteFile(path, content, 0o644)
			// the client may reach the file under another name: a symbolic link (whose own
			// length is that of its text, not of the file) or a hard link
			openAs := "file"
			switch {
			case strings.Contains(part, "via symlink"):
				openAs = "ln"
				os.Remove(filepath.Join(root, openAs))
				os.Symlink("file", filepath.Join(root, openAs))
			case strings.Contains(part, "via relative link behind a directory link"):
				// s -> real/deep ; real/deep/l -> ../file2 : the host reads real/file2, a
				// resolution by spelling would look for ./file2 (a decoy with other contents)
				os.RemoveAll(filepath.Join(root, "real"))
				os.Remove(filepath.Join(root, "s"))
				os.MkdirAll(filepath.Join(root, "real", "deep"), 0o755)
				path = filepath.Join(root, "real", "file2")
				os.WriteFile(path, content, 0o644)
				os.WriteFile(filepath.Join(root, "file2"), append([]byte("decoy "), content...), 0o644)
				os.Symlink("../file2", filepath.Join(root, "real", "deep", "l"))
				os.Symlink("real/deep", filepath.Join(root, "s"))
				openAs = "s/l" // short names: the Twalk has to fit an msize of 32
			case strings.Contains(part, "via hard link"):
				openAs = "hl"
				os.Remove(filepath.Join(root, openAs))
				os.Link(path, filepath.Join(root, openAs))
			}
			// the modes a file can be read through: OREAD, and OEXEC (which is a way of reading)
			readMode := uint8(go9p.OREAD)
			if strings.Contains(part, "opened OEXEC") {
				readMode = go9p.OEXEC
			}
			bad := withUfsClient(root, msize, dotu, func(c *go9p.Clnt, h *SrvH) string {
				expect := func(off, cnt int) []byte {
					if cnt > u {
						cnt = u
					}
					if off >= L {
						return nil
					}
					end := off + cnt
					if end > L {
						end = L
					}
					return content[off:end]
				}
				if strings.HasPrefix(part, "read") {
					f, err := c.FOpen(openAs, readMode)
					if err != nil {
						return fmt.Sprintf("FOpen: %v", err)
					}
					for _, off := range offs(L) {
						for _, cnt := range counts {
							res.Evals += 3
							want := expect(off, cnt)
							got, err := c.Read(f.Fid, uint64(off), uint32(cnt))
							if err != nil || !bytes.Equal(got, want) {
								fail("clnt-read", fmt.Sprintf("Clnt.Read(off %d, count %d) on a %d-byte file at iounit %d: got %d bytes %x err %v, want %x", off, cnt, L, u, len(got), got, err, want))
							}
							buf := make([]byte, cnt)
							n, err := f.ReadAt(buf, int64(off))
							if len(want) == 0 && cnt > 0 {
								if n != 0 || err != io.EOF {
									fail("readat-eof", fmt.Sprintf("File.ReadAt(%d bytes at %d) on a %d-byte file: (%d, %v), want (0, EOF)", cnt, off, L, n, err))
								}
							} else if cnt > 0 && (err != nil || !bytes.Equal(buf[:n], want)) {
								fail("readat", fmt.Sprintf("File.ReadAt(%d bytes at %d) on a %d-byte file: (%d, %v) %x, want %x", cnt, off, L, n, err, buf[:n], want))
							}
							// Readn: exactly the bytes requested up to end of file
							if cnt > 0 {
								buf2 := make([]byte, cnt)
								n2, err2 := f.Readn(buf2, uint64(off))
								wantN := L - off
								if wantN < 0 {
									wantN = 0
								}
								if wantN > cnt {
									wantN = cnt
								}
								if n2 != wantN || (wantN > 0 && !bytes.Equal(buf2[:wantN], content[off:off+wantN])) || (err2 != nil && err2 != io.EOF) {
									sig := "readn"
									if off+cnt > L && off < L {
										sig = "readn-across-eof"
									} else if off >= L {
										sig = "readn-at-eof"
									}
									fail(sig, fmt.Sprintf("File.Readn(%d bytes at %d) on a %d-byte file at iounit %d: (%d, %v), want %d bytes", cnt, off, L, u, n2, err2, wantN))
								}
							}
						}
					}
					// sequential reads with every buffer size
					for _, bs := range counts {
						if bs == 0 || L/bs > 4000 || rc.Expired() {
							continue // (tiny buffers over a very long file: thousands of identical round trips)
						}
						g, err := c.FOpen(openAs, readMode)
						if err != nil {
							return fmt.Sprintf("FOpen: %v", err)
						}
						var all []byte
						for k := 0; k < L+3; k++ {
							buf := make([]byte, bs)
							n, err := g.Read(buf)
							res.Evals++
							if n > bs || n > u {
								fail("read-too-much", fmt.Sprintf("File.Read with a %d-byte buffer returned %d (iounit %d)", bs, n, u))
							}
							all = append(all, buf[:n]...)
							if err == io.EOF || n == 0 {
								break
							}
							if err != nil {
								fail("seq-read-error", fmt.Sprintf("sequential File.Read: %v", err))
								break
							}
						}
						if !bytes.Equal(all, content) {
							fail("seq-read", fmt.Sprintf("sequential File.Read with %d-byte buffers of a %d-byte file returned %d bytes: %x want %x", bs, L, len(all), all, content))
						}
						g.Close()
					}
					f.Close()
					return ""
				}
				// writes
				ref := append([]byte{}, content...)
				apply := func(off int, d []byte) {
					for len(ref) < off+len(d) {
						ref = append(ref, 0)
					}
					copy(ref[off:], d)
				}
				verify := func(what string) {
					disk, _ := os.ReadFile(path)
					if !bytes.Equal(disk, ref) {
						fail("file-content-after-"+sigWords(what), fmt.Sprintf("after %s the file holds %x, expected %x", what, disk, ref))
						ref = append([]byte{}, disk...)
					}
				}
				f, err := c.FOpen(openAs, go9p.ORDWR)
				if err != nil {
					return fmt.Sprintf("FOpen: %v", err)
				}
				k := 0
				for _, off := range offs(L) {
					for _, cnt := range counts {
						k++
						res.Evals += 2
						d := pattern(cnt, k+3)
						n, err := c.Write(f.Fid, d, uint64(off))
						wn := cnt
						if wn > u {
							wn = u
						}
						if err != nil || n != wn {
							fail("clnt-write-count", fmt.Sprintf("Clnt.Write(%d bytes at %d) at iounit %d returned (%d, %v), want %d", cnt, off, u, n, err, wn))
						}
						if wn > 0 {
							apply(off, d[:wn])
						}
						verify(fmt.Sprintf("Clnt.Write of %d bytes at offset %d", cnt, off))
						d2 := pattern(cnt, k+5)
						n2, err := f.Written(d2, uint64(off))
						if err != nil || n2 != cnt {
							fail("written-count", fmt.Sprintf("File.Written(%d bytes at %d) returned (%d, %v)", cnt, off, n2, err))
						}
						if cnt > 0 {
							apply(off, d2)
						}
						verify(fmt.Sprintf("File.Written of %d bytes at offset %d", cnt, off))
					}
				}
				f.Close()
				// sequential File.Write with every chunk size onto a truncated file
				for _, bs := range counts {
					if bs == 0 || L/bs > 4000 || rc.Expired() {
						continue
					}
					os.WriteFile(path, nil, 0o644)
					ref = nil
					g, err := c.FOpen(openAs, go9p.OWRITE)
					if err != nil {
						return fmt.Sprintf("FOpen: %v", err)
					}
					data := pattern(L, bs)
					for rest := data; len(rest) > 0; {
						n := bs
						if n > len(rest) {
							n = len(rest)
						}
						w, err := g.Write(rest[:n])
						res.Evals++
						if err != nil || w <= 0 || w > n || (n <= u && w != n) {
							fail("seq-write-count", fmt.Sprintf("File.Write of %d bytes returned (%d, %v) at iounit %d", n, w, err, u))
							break
						}
						rest = rest[w:]
					}
					ref = data
					verify(fmt.Sprintf("sequential File.Write in chunks of %d", bs))
					g.Close()
				}
				return ""
			})
			res.Nontrivial++
			if bad != "" {
				fail("session/"+sigWords(bad), fmt.Sprintf("length %d: %s", L, bad))
			}
		}
		res.Nontrivial = res.Evals
		res.Samples = append(res.Samples, fmt.Sprintf("%s: file lengths %v; offsets 0..len+2 x counts 0..2u+1 (boundary subset for large iounit)", part, lengths))
		return res
	}}
}

// several files open at once, operations interleaved
// c14HelperSequences: every sequence of `depth` calls over the File helpers (Read,
// ReadAt, Readn, Write, WriteAt, Written, with counts below and above the iounit)
// against a reference model of (file contents, file offset): each call returns what
// the model says, only Read and Write move the offset, and the underlying file ends
// up as the model's contents.
func c14HelperSequences(msize uint32, dotu bool, depth int) Scenario {
	u := int(msize) - 24
	name := fmt.Sprintf("helper-sequences msize=%d(iounit %d) dotu=%v depth=%d", msize, u, dotu, depth)
	return Scenario{Name: name, Run: func(rc *RunCtx) *Result {
		res := &Result{Exhaustive: true, Bounds: map[string]any{"depth": depth}}
		base, root := scratchDir("c14")
		defer os.RemoveAll(base)
		type op struct {
			kind string
			n    int
			off  int
		}
		alpha := []op{{"Read", 3, 0}, {"Read", u + 3, 0}, {"ReadAt", 5, 2}, {"ReadAt", 4, 100}, {"Readn", u + 5, 1}, {"Write", 2, 0}, {"Write", u + 2, 0}, {"WriteAt", 3, 6}, {"Written", u + 4, 3}, {"Written", 2, 20}}
		initial := pattern(2*u+3, 9)
		seen := map[string]bool{}
		fail := func(sig, msg string) {
			if !seen[sig] {
				seen[sig] = true
				res.Findings = append(res.Findings, Finding{Sig: "C14/helper-sequence/" + sig, Msg: msg})
			}
		}
		idx := make([]int, depth)
		for {
			if rc.Expired() {
				res.Exhaustive = false
				res.CapHit = "internal deadline"
				break
			}
			os.RemoveAll(root)
			os.MkdirAll(root, 0o755)
			path := filepath.Join(root, "file")
			os.WriteFile(path, initial, 0o644)
			var seq []string
			bad := withUfsClient(root, msize, dotu, func(c *go9p.Clnt, h *SrvH) string {
				f, err := c.FOpen("file", go9p.ORDWR)
				if err != nil {
					return "FOpen: " + err.Error()
				}
				content := append([]byte{}, initial...)
				offset := 0
				readAt := func(n, off int) []byte { // one Tread: at most an iounit
					if n > u {
						n = u
					}
					if off >= len(content) {
						return nil
					}
					e := off + n
					if e > len(content) {
						e = len(content)
					}
					return content[off:e]
				}
				writeAt := func(d []byte, off int) {
					for len(content) < off+len(d) {
						content = append(content, 0)
					}
					copy(content[off:], d)
				}
				for step, i := range idx {
					o := alpha[i]
					seq = append(seq, fmt.Sprintf("%s(%d@%d)", o.kind, o.n, o.off))
					buf := make([]byte, o.n)
					data := pattern(o.n, step*7+i)
					switch o.kind {
					case "Read":
						want := readAt(o.n, offset)
						n, err := f.Read(buf)
						if n != len(want) || !bytes.Equal(buf[:n], want) || (len(want) == 0) != (err == io.EOF) || (err != nil && err != io.EOF) {
							return fmt.Sprintf("File.Read(%d) at offset %d returned (%d, %v) %x, want %x", o.n, offset, n, err, buf[:n], want)
						}
						offset += len(want)
					case "ReadAt":
						want := readAt(o.n, o.off)
						n, err := f.ReadAt(buf, int64(o.off))
						if n != len(want) || !bytes.Equal(buf[:n], want) || (len(want) == 0) != (err == io.EOF) || (err != nil && err != io.EOF) {
							return fmt.Sprintf("File.ReadAt(%d, %d) returned (%d, %v) %x, want %x", o.n, o.off, n, err, buf[:n], want)
						}
					case "Readn":
						wn := len(content) - o.off
						if wn < 0 {
							wn = 0
						}
						if wn > o.n {
							wn = o.n
						}
						n, err := f.Readn(buf, uint64(o.off))
						if n != wn || (wn > 0 && !bytes.Equal(buf[:n], content[o.off:o.off+wn])) || (err != nil && err != io.EOF) {
							return fmt.Sprintf("File.Readn(%d, %d) returned (%d, %v), want %d bytes", o.n, o.off, n, err, wn)
						}
					case "Write":
						wn := o.n
						if wn > u {
							wn = u
						}
						n, err := f.Write(data)
						if err != nil || n != wn {
							return fmt.Sprintf("File.Write(%d) at offset %d returned (%d, %v), want %d", o.n, offset, n, err, wn)
						}
						writeAt(data[:wn], offset)
						offset += wn
					case "WriteAt":
						wn := o.n
						if wn > u {
							wn = u
						}
						n, err := f.WriteAt(data, int64(o.off))
						if err != nil || n != wn {
							return fmt.Sprintf("File.WriteAt(%d, %d) returned (%d, %v), want %d", o.n, o.off, n, err, wn)
						}
						writeAt(data[:wn], o.off)
					case "Written":
						n, err := f.Written(data, uint64(o.off))
						if err != nil || n != o.n {
							return fmt.Sprintf("File.Written(%d, %d) returned (%d, %v)", o.n, o.off, n, err)
						}
						writeAt(data, o.off)
					}
					if got, _ := os.ReadFile(path); !bytes.Equal(got, content) {
						return fmt.Sprintf("after %s the underlying file differs from the model at byte %d (lengths %d / %d)", seq[len(seq)-1], firstDiff(got, content), len(got), len(content))
					}
				}
				return ""
			})
			res.Evals++
			res.Nontrivial++
			res.States++
			res.Transitions += int64(depth)
			if bad != "" {
				fail(sigWords(bad), fmt.Sprintf("%s: sequence %v: %s", name, seq, bad))
			}
			// next sequence
			k := depth - 1
			for k >= 0 {
				idx[k]++
				if idx[k] < len(alpha) {
					break
				}
				idx[k] = 0
				k--
			}
			if k < 0 {
				break
			}
		}
		res.Samples = append(res.Samples, fmt.Sprintf("all %d-call sequences over %d helper calls (counts below and above the iounit), model = (contents, offset)", depth, len(alpha)))
		return res
	}}
}

// c14MisreportedSize: files whose reported size says nothing about their content (the
// host's proc file system reports 0 for files that have data): what is read through
// the client is what the file holds.
func c14MisreportedSize(msize uint32, dotu bool) Scenario {
	name := fmt.Sprintf("files-with-misleading-size msize=%d dotu=%v", msize, dotu)
	return Scenario{Name: name, Run: func(rc *RunCtx) *Result {
		res := &Result{Exhaustive: true}
		for _, fn := range []string{"version", "filesystems"} {
			want, err := os.ReadFile("/proc/" + fn)
			st, err2 := os.Stat("/proc/" + fn)
			if err != nil || err2 != nil || len(want) == 0 || st.Size() >= int64(len(want)) {
				continue // no such file system here
			}
			bad := withUfsClient("/proc", msize, dotu, func(c *go9p.Clnt, h *SrvH) string {
				f, err := c.FOpen(fn, go9p.OREAD)
				if err != nil {
					return "FOpen: " + err.Error()
				}
				u := int(msize) - 24
				var got []byte
				for off := 0; ; {
					b, err := c.Read(f.Fid, uint64(off), uint32(u))
					res.Evals++
					if err != nil {
						return fmt.Sprintf("Clnt.Read at %d: %v", off, err)
					}
					if len(b) == 0 {
						break
					}
					got = append(got, b...)
					off += len(b)
					if off > len(want)+u {
						break
					}
				}
				if !bytes.Equal(got, want) {
					return fmt.Sprintf("reading /proc/%s (reported size %d) in iounit steps gave %d bytes, the file holds %d", fn, st.Size(), len(got), len(want))
				}
				buf := make([]byte, len(want)+10)
				n, err := f.Readn(buf, 0)
				res.Evals++
				if (err != nil && err != io.EOF) || !bytes.Equal(buf[:n], want) {
					return fmt.Sprintf("File.Readn of /proc/%s (reported size %d) gave %d bytes (%v), the file holds %d", fn, st.Size(), n, err, len(want))
				}
				return ""
			})
			res.Nontrivial = res.Evals
			if bad != "" {
				res.Findings = append(res.Findings, Finding{Sig: "C14/misreported-size/" + sigWords(bad), Msg: name + ": " + bad})
				break
			}
		}
		res.Samples = append(res.Samples, "the host's /proc/version and /proc/filesystems (reported size 0) exported and read in iounit steps and with File.Readn")
		return res
	}}
}

func c14ManyFiles(msize uint32, dotu bool) Scenario {
	return Scenario{Name: fmt.Sprintf("eight-files msize=%d dotu=%v", msize, dotu), Run: func(rc *RunCtx) *Result {
		res := &Result{Exhaustive: true}
		base, root := scratchDir("c14m")
		defer os.RemoveAll(base)
		u := int(msize) - 24
		var contents [][]byte
		for i := 0; i < 8; i++ {
			contents = append(contents, pattern(2*u+i, i+40))
			os.WriteFile(filepath.Join(root, fmt.Sprintf("f%d", i)), contents[i], 0o644)
		}
		bad := withUfsClient(root, msize, dotu, func(c *go9p.Clnt, h *SrvH) string {
			var fs []*go9p.File
			for i := 0; i < 8; i++ {
				f, err := c.FOpen(fmt.Sprintf("f%d", i), go9p.ORDWR)
				if err != nil {
					return err.Error()
				}
				fs = append(fs, f)
			}
			got := make([][]byte, 8)
			for round := 0; round < 4*u; round++ {
				for i, f := range fs {
					buf := make([]byte, 1+(round+i)%u)
					n, _ := f.Read(buf)
					got[i] = append(got[i], buf[:n]...)
					res.Evals++
				}
			}
			for i := range fs {
				if !bytes.Equal(got[i], contents[i]) {
					return fmt.Sprintf("file %d read interleaved with 7 others: got %d bytes, want %d (first difference at %d)", i, len(got[i]), len(contents[i]), firstDiff(got[i], contents[i]))
				}
			}
			return ""
		})
		res.Nontrivial = res.Evals
		if bad != "" {
			res.Findings = append(res.Findings, Finding{Sig: "C14/many-files/" + sigWords(bad), Msg: bad})
		}
		res.Samples = append(res.Samples, "8 files open at once, sequential reads of varying sizes interleaved round-robin")
		return res
	}}
}

// data returned by earlier reads must not change when later replies arrive
func c14Held(msize uint32, dotu bool) Scenario {
	return Scenario{Name: fmt.Sprintf("held-read-results msize=%d dotu=%v", msize, dotu), Run: func(rc *RunCtx) *Result {
		res := &Result{Exhaustive: true}
		base, root := scratchDir("c14h")
		defer os.RemoveAll(base)
		u := int(msize) - 24
		content := pattern(20*int(msize), 9)
		os.WriteFile(filepath.Join(root, "big"), content, 0o644)
		bad := withUfsClient(root, msize, dotu, func(c *go9p.Clnt, h *SrvH) string {
			f, err := c.FOpen("big", go9p.OREAD)
			if err != nil {
				return err.Error()
			}
			var held [][]byte
			var offs []int
			for off := 0; off < len(content); off += u {
				d, err := c.Read(f.Fid, uint64(off), uint32(u))
				if err != nil {
					return err.Error()
				}
				held = append(held, d)
				offs = append(offs, off)
				res.Evals++
				for i, hd := range held {
					end := offs[i] + len(hd)
					if end > len(content) || !bytes.Equal(hd, content[offs[i]:end]) {
						return fmt.Sprintf("the bytes returned by the read at offset %d changed after the read at offset %d completed", offs[i], off)
					}
				}
			}
			return ""
		})
		res.Nontrivial = res.Evals
		if bad != "" {
			res.Findings = append(res.Findings, Finding{Sig: "C14/returned-data-changed", Msg: bad})
		}
		res.Samples = append(res.Samples, fmt.Sprintf("file of %d bytes read in iounit chunks, every returned slice re-checked after each later read", len(content)))
		return res
	}}
}

// c14TagPipelined: the client's asynchronous interface - several reads (then several
// writes) outstanding at once on one Tag, all under the same 9P tag. Every completion
// pairs a request with the bytes of *that* request's range; after the writes the file
// holds exactly what was written.
func c14TagPipelined(msize uint32, depth int, dotu bool) Scenario {
	return Scenario{Name: fmt.Sprintf("tag-pipelined reads and writes depth=%d msize=%d dotu=%v", depth, msize, dotu), Run: func(rc *RunCtx) *Result {
		res := &Result{Exhaustive: true}
		base, root := scratchDir("c14t")
		defer os.RemoveAll(base)
		u := int(msize) - 24
		content := pattern(6*u+5, 3)
		os.WriteFile(filepath.Join(root, "big"), content, 0o644)
		os.WriteFile(filepath.Join(root, "out"), nil, 0o644)
		want := make([]byte, 0)
		bad := withUfsClient(root, msize, dotu, func(c *go9p.Clnt, h *SrvH) string {
			f, err := c.FOpen("big", go9p.OREAD)
			if err != nil {
				return err.Error()
			}
			o, err := c.FOpen("out", go9p.OWRITE)
			if err != nil {
				return err.Error()
			}
			done := make(chan *go9p.Req, 4)
			tag := c.TagAlloc(done)
			for round := 0; round < 3; round++ {
				for i := 0; i < depth; i++ {
					off := (i*37 + round*11) % (len(content) + 3)
					cnt := 1 + (i*5+round)%u
					if err := tag.Read(f.Fid, uint64(off), uint32(cnt)); err != nil {
						return "Tag.Read: " + err.Error()
					}
				}
				for i := 0; i < depth; i++ {
					r := vs.Recv(done)
					res.Evals++
					if r.Err != nil || r.Rc == nil {
						return fmt.Sprintf("a pipelined read failed: %v", r.Err)
					}
					off, cnt := int(r.Tc.Offset), int(r.Tc.Count)
					lo, hi := off, off+cnt
					if lo > len(content) {
						lo = len(content)
					}
					if hi > len(content) {
						hi = len(content)
					}
					if !bytes.Equal(r.Rc.Data, content[lo:hi]) {
						return fmt.Sprintf("%d reads outstanding on one Tag: the completion of the read at offset %d count %d carries %d bytes that are not the file's bytes %d..%d", depth, off, cnt, len(r.Rc.Data), lo, hi)
					}
					tag.ReqFree(r)
				}
			}
			// writes: consecutive chunks, pipelined; each completion reports its own chunk's size
			pos := 0
			for i := 0; i < depth; i++ {
				chunk := pattern(1+(i*3)%u, 50+i)
				if err := tag.Write(o.Fid, chunk, uint64(pos)); err != nil {
					return "Tag.Write: " + err.Error()
				}
				want = append(want, chunk...)
				pos += len(chunk)
			}
			for i := 0; i < depth; i++ {
				r := vs.Recv(done)
				res.Evals++
				if r.Err != nil || r.Rc == nil {
					return fmt.Sprintf("a pipelined write failed: %v", r.Err)
				}
				if r.Rc.Count != r.Tc.Count {
					return fmt.Sprintf("%d writes outstanding on one Tag: the completion of the write of %d bytes at offset %d reports %d bytes written", depth, r.Tc.Count, r.Tc.Offset, r.Rc.Count)
				}
				tag.ReqFree(r)
			}
			return ""
		})
		if bad == "" {
			if got, _ := os.ReadFile(filepath.Join(root, "out")); !bytes.Equal(got, want) {
				bad = fmt.Sprintf("after %d pipelined writes the file holds %d bytes, %d were written (first difference at %d)", depth, len(got), len(want), firstDiff(got, want))
			}
		}
		res.Nontrivial = res.Evals
		if bad != "" {
			res.Findings = append(res.Findings, Finding{Sig: "C14/tag-pipelined/" + sigWords(bad), Msg: bad})
		}
		res.Samples = append(res.Samples, fmt.Sprintf("3 rounds of %d reads at scattered offsets, then %d consecutive writes, all outstanding at once on one Tag", depth, depth))
		return res
	}}
}

// c14AfterWstat: reads and writes through an open fid after a Twstat on that fid that
// renames the file, alone or together with other changes, some of which the host
// refuses after the rename has been carried out. Whatever the Twstat's answer, the fid
// goes on reading and writing the file it has open (found on the host by its inode),
// also when the host has meanwhile created another file under the old name.
func c14AfterWstat(dotu bool) Scenario {
	name := fmt.Sprintf("reads and writes through a fid after a Twstat on it dotu=%v", dotu)
	return Scenario{Name: name, Run: func(rc *RunCtx) *Result {
		res := &Result{Exhaustive: true}
		type wcase struct {
			name   string
			nm     string
			length uint64
			mtime  uint32
		}
		none64, none32 := ^uint64(0), ^uint32(0)
		cases := []wcase{
			{"rename", "new", none64, none32},
			{"rename and truncate", "new", 5, none32},
			{"rename and a length the host refuses", "new", 1 << 63, none32},
			{"a length the host refuses", "", 1 << 63, none32},
			{"rename and mtime", "new", none64, 1000000},
			{"rename, a length the host refuses and mtime", "new", 1 << 63, 1000000},
			{"rename onto an existing file", "other", none64, none32},
			{"rename onto an existing file and a length the host refuses", "other", 1 << 63, none32},
		}
		seen := map[string]bool{}
		for _, wc := range cases {
			for _, recreate := range []bool{false, true} {
				base, root := scratchDir("c14w")
				content := pattern(40, 3)
				os.WriteFile(filepath.Join(root, "old"), content, 0o644)
				os.WriteFile(filepath.Join(root, "other"), []byte("another file"), 0o644)
				fi0, _ := os.Stat(filepath.Join(root, "old"))
				ino := fi0.Sys().(*syscall.Stat_t).Ino
				find := func() string {
					ents, _ := os.ReadDir(root)
					for _, e := range ents {
						if fi, err := os.Lstat(filepath.Join(root, e.Name())); err == nil && fi.Sys().(*syscall.Stat_t).Ino == ino {
							return filepath.Join(root, e.Name())
						}
					}
					return ""
				}
				bad := withUfsClient(root, 8216, dotu, func(c *go9p.Clnt, h *SrvH) string {
					f, err := c.FOpen("old", go9p.ORDWR)
					if err != nil {
						return "FOpen: " + err.Error()
					}
					d := c14NoChange()
					d.Name, d.Length, d.Mtime = wc.nm, wc.length, wc.mtime
					werr := c.Wstat(f.Fid, d)
					if recreate {
						if _, err := os.Lstat(filepath.Join(root, "old")); err != nil {
							os.WriteFile(filepath.Join(root, "old"), []byte("a new file under the old name, 40 bytes.."), 0o644)
						}
					}
					where := find()
					if where == "" {
						return "the file is gone from the host"
					}
					want, _ := os.ReadFile(where)
					res.Evals++
					buf := make([]byte, 64)
					n, err := f.ReadAt(buf, 0)
					if err != nil && n == 0 && len(want) > 0 {
						return fmt.Sprintf("after Twstat (%s, answered %v) ReadAt through the open fid fails: %v; the file is now %s and holds %d bytes", wc.name, werr, err, filepath.Base(where), len(want))
					}
					if !bytes.Equal(buf[:n], want) {
						return fmt.Sprintf("after Twstat (%s, answered %v) ReadAt through the open fid returns %d bytes %x, the file (now %s) holds %x", wc.name, werr, n, buf[:n], filepath.Base(where), want)
					}
					res.Evals++
					if _, err := f.WriteAt([]byte("XYZ"), 2); err != nil {
						return fmt.Sprintf("after Twstat (%s, answered %v) WriteAt through the open fid fails: %v", wc.name, werr, err)
					}
					want2 := append([]byte{}, want...)
					for len(want2) < 5 {
						want2 = append(want2, 0)
					}
					copy(want2[2:], "XYZ")
					if got, _ := os.ReadFile(where); !bytes.Equal(got, want2) {
						return fmt.Sprintf("after Twstat (%s, answered %v) a WriteAt of 3 bytes at offset 2 through the open fid left %x in the file (now %s), want %x", wc.name, werr, got, filepath.Base(where), want2)
					}
					// a Twstat{length} through the fid changes the length of that file and of no other
					res.Evals++
					d2 := c14NoChange()
					d2.Length = 4
					others := map[string]int64{}
					ents, _ := os.ReadDir(root)
					for _, e := range ents {
						if p := filepath.Join(root, e.Name()); p != where {
							if fi, err := os.Stat(p); err == nil {
								others[p] = fi.Size()
							}
						}
					}
					if err := c.Wstat(f.Fid, d2); err != nil {
						return fmt.Sprintf("after Twstat (%s, answered %v) a Twstat{length 4} through the fid fails: %v", wc.name, werr, err)
					}
					if fi, err := os.Stat(where); err != nil || fi.Size() != 4 {
						return fmt.Sprintf("after Twstat (%s, answered %v) a Twstat{length 4} through the fid left the file (now %s) at %v bytes", wc.name, werr, filepath.Base(where), fi)
					}
					for p, sz := range others {
						if fi, err := os.Stat(p); err != nil || fi.Size() != sz {
							return fmt.Sprintf("after Twstat (%s, answered %v) a Twstat{length 4} through the fid changed the length of %s, another file", wc.name, werr, filepath.Base(p))
						}
					}
					return ""
				})
				os.RemoveAll(base)
				if bad != "" {
					sig := "C14/after-wstat/" + sigWords(bad)
					if !seen[sig] {
						seen[sig] = true
						res.Findings = append(res.Findings, Finding{Sig: sig, Msg: bad + fmt.Sprintf(" (another file created under the old name: %v, dotu %v)", recreate, dotu)})
					}
				}
			}
		}
		res.Nontrivial = res.Evals
		res.Samples = append(res.Samples, fmt.Sprintf("%d kinds of Twstat through an open fid x {old name left free, taken by a new file}: ReadAt, WriteAt, Twstat{length} afterwards", len(cases)))
		return res
	}}
}

// c14ForeignFiles: a server run by an ordinary user exports files it does not own but
// may read (or write): every open mode the host grants that user works through 9P and
// transfers the bytes the host holds.
func c14ForeignFiles(dotu bool) Scenario {
	name := fmt.Sprintf("files owned by somebody else, served by an ordinary user dotu=%v", dotu)
	return Scenario{Name: name, Run: func(rc *RunCtx) *Result {
		res := &Result{Exhaustive: true}
		base, root := scratchDir("c14f")
		defer os.RemoveAll(base)
		content := pattern(300, 9)
		files := map[string]os.FileMode{"readable": 0o644, "writable": 0o666, "group-only": 0o640, "write-only": 0o622}
		for n, m := range files {
			os.WriteFile(filepath.Join(root, n), content, 0o600)
			os.Chmod(filepath.Join(root, n), m)
		}
		openUp(base, root)
		defer asOrdinaryUser()()
		seen := map[string]bool{}
		bad := withUfsClient(root, 8216, dotu, func(c *go9p.Clnt, h *SrvH) string {
			for n := range files {
				for _, mode := range []uint8{go9p.OREAD, go9p.OWRITE, go9p.ORDWR, go9p.OEXEC} {
					// what the host grants this user
					flag := map[uint8]int{go9p.OREAD: os.O_RDONLY, go9p.OWRITE: os.O_WRONLY, go9p.ORDWR: os.O_RDWR, go9p.OEXEC: os.O_RDONLY}[mode]
					hf, herr := os.OpenFile(filepath.Join(root, n), flag, 0)
					if hf != nil {
						hf.Close()
					}
					res.Evals++
					f, err := c.FOpen(n, mode)
					if (err == nil) != (herr == nil) {
						sig := fmt.Sprintf("open/%s/mode-%d", n, mode)
						if !seen[sig] {
							seen[sig] = true
							res.Findings = append(res.Findings, Finding{Sig: "C14/foreign-file/" + sig, Msg: fmt.Sprintf("a file of mode %o owned by another user, opened with mode %d by a server run as an ordinary user: 9P says %v, the host says %v", files[n], mode, err, herr)})
						}
					}
					if err != nil {
						continue
					}
					if mode == go9p.OREAD || mode == go9p.ORDWR {
						buf := make([]byte, 400)
						k, _ := f.ReadAt(buf, 0)
						want, _ := os.ReadFile(filepath.Join(root, n))
						if herr == nil && want != nil && !bytes.Equal(buf[:k], want) {
							return fmt.Sprintf("reading %q (owned by another user) returned %d bytes, the file holds %d", n, k, len(want))
						}
					}
					f.Close()
				}
			}
			return ""
		})
		res.Nontrivial = res.Evals
		if bad != "" {
			res.Findings = append(res.Findings, Finding{Sig: "C14/foreign-file/" + sigWords(bad), Msg: bad})
		}
		return res
	}}
}

// c14OpenBits: every combination of the open-mode bits (OTRUNC, OCEXEC, ORCLOSE) with
// every access mode, on an existing file longer than what is then written: while the
// fid is open the host file holds what the mode and the write say (truncated or not),
// and a read through a fid opened for reading returns it.
func c14OpenBits(dotu bool) Scenario {
	name := fmt.Sprintf("open-mode bits (OTRUNC, OCEXEC, ORCLOSE) x access modes on an existing file dotu=%v", dotu)
	return Scenario{Name: name, Run: func(rc *RunCtx) *Result {
		res := &Result{Exhaustive: true}
		seen := map[string]bool{}
		old := pattern(50, 4)
		for _, acc := range []uint8{go9p.OREAD, go9p.OWRITE, go9p.ORDWR} {
			for bits := 0; bits < 8; bits++ {
				mode := acc
				if bits&1 != 0 {
					if acc == go9p.OREAD {
						continue // truncating through a read-only open: what the host does is unspecified
					}
					mode |= go9p.OTRUNC
				}
				if bits&2 != 0 {
					mode |= 0x20 // OCEXEC
				}
				if bits&4 != 0 {
					mode |= go9p.ORCLOSE
				}
				base, root := scratchDir("c14b")
				p := filepath.Join(root, "file")
				os.WriteFile(p, old, 0o644)
				bad := withUfsClient(root, 8216, dotu, func(c *go9p.Clnt, h *SrvH) string {
					f, err := c.FOpen("file", mode)
					res.Evals++
					if err != nil {
						// (what the host refuses - truncating a file opened read-only - may be refused)
						if acc == go9p.OREAD && bits&1 != 0 {
							return ""
						}
						return fmt.Sprintf("FOpen with mode %#x: %v", mode, err)
					}
					want := append([]byte{}, old...)
					if bits&1 != 0 && acc != go9p.OREAD {
						want = nil
					}
					if acc != go9p.OREAD {
						if _, err := f.WriteAt([]byte("new"), 0); err != nil {
							return fmt.Sprintf("WriteAt after FOpen with mode %#x: %v", mode, err)
						}
						if len(want) < 3 {
							want = []byte("new")
						} else {
							copy(want, "new")
						}
					}
					if got, err := os.ReadFile(p); err != nil || !bytes.Equal(got, want) {
						return fmt.Sprintf("a %d-byte file opened with mode %#x and (unless read-only) overwritten with 3 bytes at 0 holds %d bytes %x on the host, want %d bytes %x", len(old), mode, len(got), got, len(want), want)
					}
					if acc != go9p.OWRITE {
						buf := make([]byte, 80)
						n, _ := f.ReadAt(buf, 0)
						if !bytes.Equal(buf[:n], want) {
							return fmt.Sprintf("reading through the fid opened with mode %#x returns %d bytes, the file holds %d", mode, n, len(want))
						}
					}
					return ""
				})
				os.RemoveAll(base)
				if bad != "" {
					sig := "C14/open-bits/" + sigWords(bad)
					if !seen[sig] {
						seen[sig] = true
						res.Findings = append(res.Findings, Finding{Sig: sig, Msg: bad})
					}
				}
			}
		}
		res.Nontrivial = res.Evals
		return res
	}}
}

// c14NoChange is a Dir whose every field says "leave it as it is".
func c14NoChange() *go9p.Dir {
	return &go9p.Dir{Type: ^uint16(0), Dev: ^uint32(0), Qid: go9p.Qid{Type: 0xFF, Version: ^uint32(0), Path: ^uint64(0)}, Mode: ^uint32(0), Atime: ^uint32(0), Mtime: ^uint32(0), Length: ^uint64(0), Uidnum: go9p.NOUID, Gidnum: go9p.NOUID, Muidnum: go9p.NOUID}
}

func c14Scenarios(tier string) []Scenario {
	var out []Scenario
	out = append(out, c14AfterWstat(false), c14AfterWstat(true))
	out = append(out, c14ForeignFiles(false), c14ForeignFiles(true))
	out = append(out, c14OpenBits(false), c14OpenBits(true))
	msizes := []uint32{32, 40, 152}
	if tier == "thorough" {
		msizes = []uint32{32, 33, 40, 152, 4120, 65560}
	}
	for _, ms := range msizes {
		for _, dotu := range []bool{false, true} {
			u := int(ms) - 24
			ls := c14Lengths(u, tier == "thorough")
			if tier == "quick" && u <= 8 {
				var sub []int
				for i, l := range ls {
					if i%2 == 0 || l >= 2*u-1 {
						sub = append(sub, l)
					}
				}
				ls = sub
			}
			step := 4
			if u > 16 {
				step = 3
			}
			for i := 0; i < len(ls); i += step {
				j := i + step
				if j > len(ls) {
					j = len(ls)
				}
				out = append(out, c14Scenario(ms, dotu, ls[i:j], "read"), c14Scenario(ms, dotu, ls[i:j], "write"))
			}
		}
	}
	out = append(out, c14Scenario(40, false, []int{0, 1, 5, 16, 33, 50}, "read opened OEXEC"), c14Scenario(152, true, []int{0, 127, 128, 129, 300}, "read opened OEXEC"))
	for i, via := range []string{"via symlink", "via hard link", "via relative link behind a directory link"} {
		for _, ms := range []uint32{32, 40} {
			if i == 2 && ms == 32 {
				ms = 48 // the Rwalk of a two-element walk (33 bytes) does not fit an msize of 32
			}
			u := int(ms) - 24
			ls := []int{0, 1, 3, 4, 5, u, 2*u + 1, 3*u + 2}
			out = append(out, c14Scenario(ms, (i+int(ms))%2 == 0, ls, "read "+via), c14Scenario(ms, (i+int(ms))%2 == 1, ls, "write "+via))
		}
	}
	hd := 3
	if tier == "thorough" {
		hd = 4
	}
	out = append(out, c14HelperSequences(32, false, hd), c14HelperSequences(32, true, hd))
	out = append(out, c14MisreportedSize(64, false), c14MisreportedSize(8216, true))
	out = append(out, c14ManyFiles(40, false), c14ManyFiles(152, true))
	out = append(out, c14Held(40, false), c14Held(152, true), c14Held(4120, false))
	out = append(out, c14TagPipelined(40, 2, true), c14TagPipelined(152, 5, false), c14TagPipelined(4120, 30, true))
	return out
}

func init() {
	register(&Property{ID: "C14", Level: "exploration",
		Technique: "bounded-exhaustive enumeration of (file length, offset, count) triples through the real client and the real Ufs on a scratch tree, compared with the file's bytes on disk",
		Rule:      "msize {32,40,152} (thorough + 33, 4120, 65560) x dialect x file lengths 0..3u+2 (every length for iounit u=8; boundary lengths 0,1,u-1,u,u+1,2u-1,2u,2u+1,3u+1 otherwise) with position-dependent contents; for small u every offset 0..len+2 x every count 0..2u+1 for Clnt.Read, File.ReadAt, File.Readn, Clnt.Write, File.Written; sequential File.Read / File.Write with every buffer size (those needing more than 4000 round trips for one file are skipped); 8 files interleaved; every sequence of 3 (thorough 4) calls over Read/ReadAt/Readn/Write/WriteAt/Written against a model of contents and offset; the same through a symbolic link, a hard link, and a relative symbolic link reached through a symbolic link to its directory; host files whose reported size is 0 although they have content (/proc). non-trivial = calls compared ; ReadAt / WriteAt / Twstat{length} through an open fid after 8 kinds of Twstat on that fid (renames alone, with other fields, with fields the host refuses), old name left free or taken by a new file ; files owned by somebody else served by an ordinary user, every open mode compared with what the host grants",
		Assumptions: []string{"the host file system and package os are the reference", "client and server on the default schedule (data paths are sequential per fid)"},
		Scenarios:   c14Scenarios, QuickS: 110, ThoroughS: 1200})
}
