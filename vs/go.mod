module github.com/rminnich/go9p/vs

go 1.23.12
