package vs

import (
	"io"
	"os"
)

// ReaddirHook, when set, is called by Readdir between the moment the names of a batch
// have been read from the host and the moment each entry is examined. It stands for
// the rest of the host: whatever it does to the directory happens "at the same time".
var ReaddirHook func(dir, name string)

// Readdir stands in for (*os.File).Readdir in the instrumented code. Without a hook it
// is that method. With one, it does what package os does (read up to n names; lstat
// each; an entry that has vanished meanwhile is dropped although it was counted
// against n; an empty result for n > 0 is io.EOF) with the hook called before each
// lstat.
func Readdir(f *os.File, n int) ([]os.FileInfo, error) {
	if ReaddirHook == nil {
		return f.Readdir(n)
	}
	names, err := f.Readdirnames(n)
	out := []os.FileInfo{}
	for _, nm := range names {
		ReaddirHook(f.Name(), nm)
		fi, e := os.Lstat(f.Name() + "/" + nm)
		if os.IsNotExist(e) {
			continue
		}
		if e != nil {
			return out, e
		}
		out = append(out, fi)
	}
	if n > 0 && len(out) == 0 && err == nil {
		err = io.EOF
	}
	return out, err
}

// OpenFileHook, when set, is called before os.OpenFile in the instrumented code, on the
// calling goroutine: waiting on a Sem there models a host that takes its time (a FIFO
// nobody has opened for writing yet, a file server far away).
var OpenFileHook func(path string, flag int)

func OpenFile(name string, flag int, perm os.FileMode) (*os.File, error) {
	if OpenFileHook != nil {
		OpenFileHook(name, flag)
	}
	return os.OpenFile(name, flag, perm)
}

// Further calls into the host that the instrumented code makes by path. HostHook, when
// set, is consulted first: an error it returns is what the call reports (the host
// refuses). With EnableHostPoints every such call is a scheduling point inside the
// window, so that two requests interleave between two looks at the file system.
var HostHook func(op, path string) error

func EnableHostPoints() {
	if e := ex; e != nil {
		e.hostPoints = true
	}
}

func hostCall(what, path string) error {
	if e := ex; e != nil && !e.dead && e.hostPoints && e.window {
		e.point(op{kind: KYield})
	}
	if HostHook != nil {
		if err := HostHook(what, path); err != nil {
			return &os.PathError{Op: what, Path: path, Err: err}
		}
	}
	return nil
}

func Readlink(name string) (string, error) {
	if err := hostCall("readlink", name); err != nil {
		return "", err
	}
	return os.Readlink(name)
}

func Stat(name string) (os.FileInfo, error) {
	if err := hostCall("stat", name); err != nil {
		return nil, err
	}
	return os.Stat(name)
}

func Lstat(name string) (os.FileInfo, error) {
	if err := hostCall("lstat", name); err != nil {
		return nil, err
	}
	return os.Lstat(name)
}
