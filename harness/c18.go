package main

import (
	"time"
	"bytes"
	"fmt"
	"os"
	"path/filepath"
	"sort"
	"strings"
	"syscall"

	"github.com/rminnich/go9p"
	"github.com/rminnich/go9p/vs"
	"harness/wire"
)

// C18: Ufs confines clients to the exported root.

const c18Depth = 12 // nesting of the export below the scratch base: deeper than any '..' chain generated
const c18Marker = "CANARY-OUTSIDE-THE-EXPORT"

type c18Env struct {
	base, root string
	outside    map[uint64]string // inode -> path of everything outside the export
}

func c18Setup() *c18Env {
	top := os.Getenv("VERIF_SCRATCH")
	if top == "" {
		top = "/dev/shm"
		if st, err := os.Stat(top); err != nil || !st.IsDir() {
			top = "/var/tmp"
		}
	}
	base, err := os.MkdirTemp(top, "verif-c18-")
	if err != nil {
		panic(err)
	}
	p := base
	for i := 1; i <= c18Depth; i++ {
		p = filepath.Join(p, fmt.Sprintf("n%d", i))
		os.MkdirAll(p, 0o755)
		os.WriteFile(filepath.Join(p, "canary"), []byte(c18Marker+fmt.Sprint(i)), 0o644)
		os.Mkdir(filepath.Join(p, "canarydir"), 0o755)
		os.WriteFile(filepath.Join(p, "x"), []byte(c18Marker+"x"), 0o644) // same name as a file inside
	}
	root := filepath.Join(p, "export")
	os.WriteFile(filepath.Join(p, "export-sibling"), []byte(c18Marker+"sib"), 0o644)
	// a neighbour directory whose name merely continues the spelling of the export's
	os.MkdirAll(filepath.Join(p, "export-sibdir", "canarydir"), 0o755)
	os.WriteFile(filepath.Join(p, "export-sibdir", "canary"), []byte(c18Marker+"sibdir"), 0o644)
	os.MkdirAll(filepath.Join(root, "d", "dd"), 0o755)
	// symbolic links that stay inside the export but lead to a shallower place: '..' behind
	// them is the parent of where they lead, not of where they are
	os.Mkdir(filepath.Join(root, "shallow"), 0o755)
	os.Symlink("../../shallow", filepath.Join(root, "d", "dd", "up"))
	os.Symlink(root, filepath.Join(root, "d", "dd", "toroot"))
	os.WriteFile(filepath.Join(root, "x"), []byte("inside x"), 0o644)
	os.WriteFile(filepath.Join(root, "d", "y"), []byte("inside y"), 0o644)
	os.WriteFile(filepath.Join(root, "d", "dd", "z"), []byte("inside z"), 0o644)
	return &c18Env{base: base, root: root}
}

// outsideState renders everything outside the export (names, contents, mtimes) and collects inodes.
func (e *c18Env) outsideState() string {
	e.outside = map[uint64]string{}
	var lines []string
	filepath.Walk(e.base, func(p string, fi os.FileInfo, err error) error {
		if err != nil {
			return nil
		}
		if p == e.root {
			return filepath.SkipDir
		}
		e.outside[fi.Sys().(*syscall.Stat_t).Ino] = p
		l := fmt.Sprintf("%s %v %o", p, fi.Mode().Type(), fi.Mode()&0777)
		if fi.Mode().IsRegular() {
			b, _ := os.ReadFile(p)
			l += fmt.Sprintf(" %q %d", b, fi.ModTime().UnixNano())
		}
		lines = append(lines, l)
		return nil
	})
	sort.Strings(lines)
	return strings.Join(lines, "\n")
}

func c18Names() []string {
	comps := []string{"..", ".", "", "x", "d", "nope"}
	set := map[string]bool{}
	var rec func(cur []string)
	rec = func(cur []string) {
		if len(cur) > 0 {
			j := strings.Join(cur, "/")
			for _, v := range []string{j, "/" + j, j + "/", "/" + j + "/"} {
				set[v] = true
			}
		}
		if len(cur) == 3 {
			return
		}
		for _, c := range comps {
			rec(append(append([]string{}, cur...), c))
		}
	}
	rec(nil)
	set["../../../.."] = true
	set["/../../../../.."] = true
	var out []string
	for n := range set {
		out = append(out, n)
	}
	sort.Strings(out)
	return out
}

// c18LongPaths: a fid is walked back and forth in place ("d", "..", ".") until the
// path the server keeps for it is as long as the host allows, for every length around
// that limit; then it is walked through symbolic links (to a deeper and to a shallower
// place inside the export) and up again. However the server copes with the host
// refusing the long name, the result stays inside.
func c18LongPaths(dotu bool, lo, hi int) Scenario {
	name := fmt.Sprintf("paths padded to %d..%d bytes, then through links and up dotu=%v", lo, hi, dotu)
	return Scenario{Name: name, Run: func(rc *RunCtx) *Result {
		res := &Result{Exhaustive: true}
		env := c18Setup()
		defer func() { os.RemoveAll(env.base) }()
		os.Symlink("d/dd", filepath.Join(env.root, "deep"))
		seen := map[string]bool{}
		fail := func(sig, msg string) {
			if !seen[sig] && len(res.Findings) < 6 {
				seen[sig] = true
				res.Findings = append(res.Findings, Finding{Sig: "C18/" + sig, Msg: msg})
			}
		}
		before := env.outsideState()
		tails := [][]string{{"deep", "..", ".."}, {"deep", "..", "..", ".."}, {"d", "dd", "up", "..", ".."}, {"deep", "..", "..", "canary"}, {"..", ".."}}
		for T := lo; T <= hi; T++ {
			if rc.Expired() {
				res.Exhaustive = false
				res.CapHit = "internal deadline"
				break
			}
			for ti, tail := range tails {
				var leak string
				body := func() {
					h := newUfsH(env.root, 8216, dotu)
					cl := h.Connect()
					ver := "9P2000"
					if dotu {
						ver = "9P2000.u"
					}
					cl.Version(8216, ver)
					tag := uint16(1)
					rpc := func(m *wire.Msg) *wire.Msg {
						tag++
						m.Tag = tag
						r := cl.Rpc(m)
						if l := env.leak(r); l != "" && leak == "" {
							leak = fmt.Sprintf("%s -> %s", m, l)
						}
						return r
					}
					rpc(tattach(0, 0, wire.NOFID, "", uint32(os.Geteuid()), dotu))
					rpc(twalk(0, 0, 1))
					// pad: "/d/.." adds 5 bytes, "/." adds 2
					pad := T - len(env.root)
					var el []string
					flush := func() {
						if len(el) > 0 {
							rpc(twalk(0, 1, 1, el...))
							el = nil
						}
					}
					for pad > 0 {
						switch {
						case pad == 2 || pad == 4 || pad == 7 || pad == 9:
							el = append(el, ".")
							pad -= 2
						case pad >= 5:
							el = append(el, "d", "..")
							pad -= 5
						default:
							pad = 0
						}
						if len(el) >= 15 {
							flush()
						}
					}
					flush()
					if r := rpc(twalk(0, 1, 2, tail...)); r != nil && r.Type == wire.Rwalk && len(r.Wqid) == len(tail) {
						rpc(&wire.Msg{Type: wire.Tstat, Fid: 2})
						rpc(twalk(0, 2, 3, "canary"))
						if o := rpc(&wire.Msg{Type: wire.Topen, Fid: 2, Mode: 0}); o != nil && o.Type == wire.Ropen {
							rpc(&wire.Msg{Type: wire.Tread, Fid: 2, Offset: 0, Count: 4096})
						}
						rpc(twalk(0, 2, 4))
						rpc(&wire.Msg{Type: wire.Tcreate, Fid: 4, Name: "escaped", Perm: 0644, Mode: 1})
					}
				}
				x := vs.Run(nil, body, vs.Options{Horizon: 100000000})
				res.Evals++
				res.Nontrivial++
				if len(x.Panics) > 0 {
					fail("panic/"+x.Panics[0].Frame, fmt.Sprintf("path of %d bytes, then %v: panic %s", T, tail, x.Panics[0].Value))
				}
				if leak != "" {
					fail("leak/long-path", fmt.Sprintf("fid padded to a path of %d bytes, then walked %v: %s", T, tails[ti], leak))
				}
				if after := env.outsideState(); after != before {
					fail("outside-modified/long-path", fmt.Sprintf("fid padded to a path of %d bytes, then walked %v, changed something outside the export:\n%s", T, tails[ti], diffLines(before, after)))
					os.RemoveAll(env.base)
					env = c18Setup()
					os.Symlink("d/dd", filepath.Join(env.root, "deep"))
					before = env.outsideState()
				}
				os.Remove(filepath.Join(env.root, "escaped"))
				os.Remove(filepath.Join(env.root, "d", "escaped"))
			}
		}
		return res
	}}
}

// c18BusyRoot: one connection walks '..' at the root while another one changes the
// root directory (creates, removes a file in it), with the two requests interleaved
// between any two looks the server takes at the file system (host calls are scheduling
// points). '..' at the root stays the root.
func c18BusyRoot(change string, dotu bool, P int) Scenario {
	var env *c18Env
	var leak string
	name := fmt.Sprintf("'..' at the root while another connection does a %s in it (schedules between host calls) dotu=%v", change, dotu)
	body := func() {
		vs.EnableHostPoints()
		leak = ""
		os.Remove(filepath.Join(env.root, "fresh"))
		os.WriteFile(filepath.Join(env.root, "goes"), []byte("x"), 0o644)
		// the root was last changed long ago: whatever changes it now is visible in its times
		os.Chtimes(env.root, time.Unix(1000000000, 0), time.Unix(1000000000, 0))
		h := newUfsH(env.root, 8216, dotu)
		c1, c2 := h.Connect(), h.Connect()
		ver := "9P2000"
		un := ""
		if dotu {
			ver = "9P2000.u"
		} else {
			un = go9p.OsUsers.Uid2User(os.Geteuid()).Name()
		}
		note := func(m, r *wire.Msg) {
			if l := env.leak(r); l != "" && leak == "" {
				leak = fmt.Sprintf("%s -> %s", m, l)
			}
		}
		for _, c := range []*Cli{c1, c2} {
			c.Version(8216, ver)
			c.Rpc(tattach(1, 0, wire.NOFID, un, uint32(os.Geteuid()), dotu))
		}
		c2.Rpc(twalk(2, 0, 3))
		c2.Rpc(twalk(2, 0, 4, "goes"))
		var m2 *wire.Msg
		switch change {
		case "create":
			m2 = &wire.Msg{Type: wire.Tcreate, Tag: 5, Fid: 3, Name: "fresh", Perm: 0644, Mode: 1}
		case "remove":
			m2 = &wire.Msg{Type: wire.Tremove, Tag: 5, Fid: 4}
		}
		m1 := twalk(6, 0, 1, "..", "..", "canary")
		m1b := twalk(7, 0, 2, "..")
		vs.Window(true)
		if P > 1 {
			c1.Send(dotu, m1b)
		} else {
			c1.Send(dotu, m1, m1b)
		}
		c2.Send(dotu, m2)
		vs.Idle()
		vs.Window(false)
		for _, f := range c1.Collect() {
			if f.Msg != nil && f.Msg.Tag == 6 {
				note(m1, f.Msg)
			}
			if f.Msg != nil && f.Msg.Tag == 7 {
				note(m1b, f.Msg)
			}
		}
		for _, fid := range []uint32{1, 2} {
			st := &wire.Msg{Type: wire.Tstat, Tag: 8, Fid: fid}
			note(st, c1.Rpc(st))
			w := twalk(9, fid, 10+fid, "canary")
			note(w, c1.Rpc(w))
		}
	}
	check := func(x *vs.Exec) *Viol {
		for _, p := range x.Panics {
			return &Viol{Sig: "C18/panic/" + p.Frame, Msg: "panic: " + p.Value}
		}
		if len(x.Fails) > 0 {
			return &Viol{Sig: "C18/harness/" + sigWords(x.Fails[0]), Msg: x.Fails[0]}
		}
		if leak != "" {
			return &Viol{Sig: "C18/leak/busy-root", Msg: fmt.Sprintf("while another connection did a %s in the root directory: %s", change, leak)}
		}
		return nil
	}
	return Scenario{Name: name, Run: func(rc *RunCtx) *Result {
		env = c18Setup()
		env.outsideState()
		defer func() { os.RemoveAll(env.base) }()
		return runVs(rc, &VsSpec{Name: name, Body: body, Check: check, P: P})
	}}
}

// c18ReplacedByLink: a fid designates a directory; the directory is then replaced (by
// the host, or by the client itself through other fids) by a symbolic link - to the
// root, to '.', to '..', to a place outside. Walks from the stale fid, '..' first or
// later, stay inside the export.
func c18ReplacedByLink(dotu bool) Scenario {
	name := fmt.Sprintf("fid on a directory that is replaced by a symbolic link dotu=%v", dotu)
	return Scenario{Name: name, Run: func(rc *RunCtx) *Result {
		res := &Result{Exhaustive: true}
		env := c18Setup()
		defer func() { os.RemoveAll(env.base) }()
		seen := map[string]bool{}
		fail := func(sig, msg string) {
			if !seen[sig] && len(res.Findings) < 6 {
				seen[sig] = true
				res.Findings = append(res.Findings, Finding{Sig: "C18/" + sig, Msg: msg})
			}
		}
		before := env.outsideState()
		targets := []string{".", "..", "../..", env.root, filepath.Dir(env.root), "/", "dd", "../shallow", "../d/dd/toroot"}
		walks := [][]string{{".."}, {"..", ".."}, {".", ".."}, {"..", "canary"}, {"canary"}, {"..", "..", "canary"}, {"dd", "..", ".."}}
		for _, where := range [][]string{{"d"}, {"d", "dd"}} {
			for _, tg := range targets {
				for _, w := range walks {
					if rc.Expired() {
						res.Exhaustive = false
						res.CapHit = "internal deadline"
						return res
					}
					os.RemoveAll(filepath.Join(env.root, "d"))
					os.MkdirAll(filepath.Join(env.root, "d", "dd"), 0o755)
					os.Symlink(env.root, filepath.Join(env.root, "d", "dd", "toroot"))
					var leak string
					skipped := false
					body := func() {
						h := newUfsH(env.root, 8216, dotu)
						cl := h.Connect()
						ver := "9P2000"
						if dotu {
							ver = "9P2000.u"
						}
						cl.Version(8216, ver)
						tag := uint16(1)
						rpc := func(m *wire.Msg) *wire.Msg {
							tag++
							m.Tag = tag
							r := cl.Rpc(m)
							if l := env.leak(r); l != "" && leak == "" {
								leak = fmt.Sprintf("%s -> %s", m, l)
							}
							return r
						}
						rpc(tattach(0, 0, wire.NOFID, "", uint32(os.Geteuid()), dotu))
						rpc(twalk(0, 0, 1, where...))
						// the host replaces the directory by a link
						p := filepath.Join(env.root, filepath.Join(where...))
						os.RemoveAll(p)
						os.Symlink(tg, p)
						// the property is about trees without symbolic links that leave them
						if rp, err := filepath.EvalSymlinks(p); err != nil || (rp != env.root && !strings.HasPrefix(rp, env.root+"/")) {
							os.Remove(p)
							skipped = true
							return
						}
						if r := rpc(twalk(0, 1, 2, w...)); r != nil && r.Type == wire.Rwalk && len(r.Wqid) == len(w) {
							rpc(&wire.Msg{Type: wire.Tstat, Fid: 2})
							rpc(twalk(0, 2, 3, "canary"))
							if o := rpc(&wire.Msg{Type: wire.Topen, Fid: 2, Mode: 0}); o != nil && o.Type == wire.Ropen {
								rpc(&wire.Msg{Type: wire.Tread, Fid: 2, Offset: 0, Count: 4096})
							}
							rpc(twalk(0, 2, 4))
							rpc(&wire.Msg{Type: wire.Tcreate, Fid: 4, Name: "escaped", Perm: 0644, Mode: 1})
						}
					}
					x := vs.Run(nil, body, vs.Options{Horizon: 100000000})
					res.Evals++
					if !skipped {
						res.Nontrivial++
					}
					what := fmt.Sprintf("fid on %v, which the host then replaced by a symbolic link to %q, walked %v", where, tg, w)
					if len(x.Panics) > 0 {
						fail("panic/"+x.Panics[0].Frame, what+": panic "+x.Panics[0].Value)
					}
					if leak != "" {
						fail("leak/replaced-by-link", what+": "+leak)
					}
					if after := env.outsideState(); after != before {
						fail("outside-modified/replaced-by-link", what+" changed something outside the export:\n"+diffLines(before, after))
						os.RemoveAll(env.base)
						env = c18Setup()
						before = env.outsideState()
					}
					os.Remove(filepath.Join(env.root, "escaped"))
				}
			}
		}
		return res
	}}
}

// c18RootReplaced: in mid-session the host replaces the exported directory itself (the
// old one renamed away, a new one made under the same name). '..' at the root is
// still the root - the directory that is exported now.
func c18RootReplaced(dotu bool) Scenario {
	name := fmt.Sprintf("the exported directory replaced by the host in mid-session dotu=%v", dotu)
	return Scenario{Name: name, Run: func(rc *RunCtx) *Result {
		res := &Result{Exhaustive: true}
		seen := map[string]bool{}
		fail := func(sig, msg string) {
			if !seen[sig] && len(res.Findings) < 6 {
				seen[sig] = true
				res.Findings = append(res.Findings, Finding{Sig: "C18/" + sig, Msg: msg})
			}
		}
		for _, prime := range [][]string{nil, {".."}, {"d", "..", ".."}} {
			for _, w := range [][]string{{".."}, {"..", ".."}, {"d", "..", ".."}, {"..", "canary"}} {
				env := c18Setup()
				var leak string
				var before string
				body := func() {
					h := newUfsH(env.root, 8216, dotu)
					cl := h.Connect()
					ver := "9P2000"
					if dotu {
						ver = "9P2000.u"
					}
					cl.Version(8216, ver)
					tag := uint16(1)
					rpc := func(m *wire.Msg) *wire.Msg {
						tag++
						m.Tag = tag
						r := cl.Rpc(m)
						if l := env.leak(r); l != "" && leak == "" {
							leak = fmt.Sprintf("%s -> %s", m, l)
						}
						return r
					}
					rpc(tattach(0, 0, wire.NOFID, "", uint32(os.Geteuid()), dotu))
					if prime != nil {
						rpc(twalk(0, 0, 1, prime...))
					}
					os.Rename(env.root, env.root+"-old")
					os.MkdirAll(filepath.Join(env.root, "d"), 0o755)
					os.WriteFile(filepath.Join(env.root, "x"), []byte("inside x, new"), 0o644)
					before = env.outsideState()
					if r := rpc(twalk(0, 0, 2, w...)); r != nil && r.Type == wire.Rwalk && len(r.Wqid) == len(w) {
						rpc(&wire.Msg{Type: wire.Tstat, Fid: 2})
						rpc(twalk(0, 2, 3, "canary"))
						if o := rpc(&wire.Msg{Type: wire.Topen, Fid: 2, Mode: 0}); o != nil && o.Type == wire.Ropen {
							rpc(&wire.Msg{Type: wire.Tread, Fid: 2, Offset: 0, Count: 4096})
						}
						rpc(twalk(0, 2, 4))
						rpc(&wire.Msg{Type: wire.Tcreate, Fid: 4, Name: "escaped", Perm: 0644, Mode: 1})
					}
				}
				x := vs.Run(nil, body, vs.Options{Horizon: 100000000})
				res.Evals++
				res.Nontrivial++
				what := fmt.Sprintf("walked %v, then the host replaced the exported directory, then walked %v", prime, w)
				if len(x.Panics) > 0 {
					fail("panic/"+x.Panics[0].Frame, what+": panic "+x.Panics[0].Value)
				}
				if leak != "" {
					fail("leak/root-replaced", what+": "+leak)
				}
				if after := env.outsideState(); before != "" && after != before {
					fail("outside-modified/root-replaced", what+" changed something outside the export:\n"+diffLines(before, after))
				}
				os.RemoveAll(env.base)
			}
		}
		return res
	}}
}

// c18Check inspects a reply for anything that belongs to the outside.
func (e *c18Env) leak(r *wire.Msg) string {
	if r == nil {
		return ""
	}
	bad := func(q wire.Qid) string {
		if p, ok := e.outside[q.Path]; ok {
			return fmt.Sprintf("reply %s carries the qid of %s, which is outside the export", wire.Names[r.Type], p)
		}
		return ""
	}
	switch r.Type {
	case wire.Rattach, wire.Ropen, wire.Rcreate:
		return bad(r.Qid)
	case wire.Rwalk:
		for _, q := range r.Wqid {
			if s := bad(q); s != "" {
				return s
			}
		}
	case wire.Rstat:
		return bad(r.Stat.Qid)
	case wire.Rread:
		if bytes.Contains(r.Data, []byte(c18Marker)) || bytes.Contains(r.Data, []byte("canary")) || bytes.Contains(r.Data, []byte("export-sibling")) {
			return "Rread returns data or directory entries from outside the export"
		}
	}
	return ""
}

type c18Use struct {
	kind string // attach walk1 walkN create mkdir symlink link rename
}

func c18Scenario(use string, dotu bool, part, parts int) Scenario {
	return c18ScenarioRoot(use, dotu, part, parts, "abs")
}

// rootStyle: how the server is told its root - "abs" (absolute path), "dot" (the
// process has changed into the export and the root is "."), "rel" (a relative name,
// the process standing in the parent directory)
func c18ScenarioRoot(use string, dotu bool, part, parts int, rootStyle string) Scenario {
	name := fmt.Sprintf("confine use=%s dotu=%v part=%d/%d", use, dotu, part, parts)
	if rootStyle != "abs" {
		name += " root-given-as=" + rootStyle
	}
	return Scenario{Name: name, Run: func(rc *RunCtx) *Result {
		res := &Result{Exhaustive: true}
		env := c18Setup()
		defer func() { os.RemoveAll(env.base) }()
		names := c18Names()
		// absolute host paths: the export itself, its spelling as a prefix, its neighbours
		up := filepath.Dir(env.root)
		names = append(names, env.root, env.root+"/", env.root+"/..", env.root+"/../x", env.root+"-sibling", env.root+"-sibdir", env.root+"-sibdir/canary", env.root+"/d/../..", up, up+"/x", up+"/canary", "/etc", "/")
		// relative spellings of the neighbours that share the export's name as a prefix
		for _, pre := range []string{"../", "/../", "d/../../", "./../", "../../n12/"} {
			for _, sib := range []string{"export-sibling", "export-sibdir", "export-sibdir/", "export-sibdir/canary", "export-sibdir/new", "exportx", "export"} {
				names = append(names, pre+sib)
			}
		}
		// names that go through the inward symbolic links of d/dd and come back with '..':
		// spelled, they stay below d; resolved by the host, they climb out
		if use == "rename" || use == "create" || use == "mkdir" || use == "symlink" || use == "link" {
			for _, l := range []string{"up/..", "up/../..", "toroot/..", "toroot/../..", "./up/../.."} {
				for _, leaf := range []string{"x", "escaped", "canary", "export-sibdir/new", "canarydir"} {
					names = append(names, l+"/"+leaf)
				}
			}
		}
		seen := map[string]bool{}
		fail := func(sig, msg string) {
			if !seen[sig] && len(res.Findings) < 8 {
				seen[sig] = true
				res.Findings = append(res.Findings, Finding{Sig: "C18/" + sig, Msg: msg})
			}
		}
		rootIno := func() uint64 { fi, _ := os.Lstat(env.root); return fi.Sys().(*syscall.Stat_t).Ino }()
		for ni, hostile := range names {
			if ni%parts != part {
				continue
			}
			if rc.Expired() {
				res.Exhaustive = false
				res.CapHit = "internal deadline"
				break
			}
			// fresh inside tree and reference picture of the outside for every case
			os.RemoveAll(env.root)
			os.MkdirAll(filepath.Join(env.root, "d", "dd"), 0o755)
			os.WriteFile(filepath.Join(env.root, "x"), []byte("inside x"), 0o644)
			os.WriteFile(filepath.Join(env.root, "d", "y"), []byte("inside y"), 0o644)
			os.WriteFile(filepath.Join(env.root, "d", "dd", "z"), []byte("inside z"), 0o644)
			os.Mkdir(filepath.Join(env.root, "shallow"), 0o755)
			os.Symlink("../../shallow", filepath.Join(env.root, "d", "dd", "up"))
			os.Symlink(env.root, filepath.Join(env.root, "d", "dd", "toroot"))
			before := env.outsideState()
			rootIno = func() uint64 { fi, _ := os.Lstat(env.root); return fi.Sys().(*syscall.Stat_t).Ino }()
			var leak string
			body := func() {
				ufsRoot := env.root
				switch rootStyle {
				case "dot":
					os.Chdir(env.root)
					ufsRoot = "."
				case "rel":
					os.Chdir(filepath.Dir(env.root))
					ufsRoot = filepath.Base(env.root)
				}
				h := newUfsH(ufsRoot, 8216, dotu)
				cl := h.Connect()
				ver := "9P2000"
				if dotu {
					ver = "9P2000.u"
				}
				cl.Version(8216, ver)
				tag := uint16(1)
				rpc := func(m *wire.Msg) *wire.Msg {
					tag++
					m.Tag = tag
					r := cl.Rpc(m)
					if l := env.leak(r); l != "" && leak == "" {
						leak = fmt.Sprintf("%s -> %s", m, l)
					}
					return r
				}
				attach := func(aname string) *wire.Msg {
					a := tattach(0, 0, wire.NOFID, "", uint32(os.Geteuid()), dotu)
					a.Aname = aname
					return rpc(a)
				}
				// every kind of access through the fid that resulted
				access := func(fid uint32) {
					rpc(&wire.Msg{Type: wire.Tstat, Fid: fid})
					rpc(twalk(0, fid, 40, "canary"))
					rpc(twalk(0, fid, 41, "..", "canary"))
					// further up: a fid whose idea of its own depth is wrong gets past the root here
					for n := 2; n <= 4; n++ {
						el := []string{}
						for i := 0; i < n; i++ {
							el = append(el, "..")
						}
						if r := rpc(twalk(0, fid, 46, append(el, "canary")...)); r != nil && r.Type == wire.Rwalk && len(r.Wqid) == n+1 {
							if o := rpc(&wire.Msg{Type: wire.Topen, Fid: 46, Mode: 0}); o != nil && o.Type == wire.Ropen {
								rpc(&wire.Msg{Type: wire.Tread, Fid: 46, Offset: 0, Count: 4096})
							}
							rpc(&wire.Msg{Type: wire.Tclunk, Fid: 46})
						}
					}
					if r := rpc(twalk(0, fid, 42)); r != nil && r.Type == wire.Rwalk {
						if o := rpc(&wire.Msg{Type: wire.Topen, Fid: 42, Mode: 0}); o != nil && o.Type == wire.Ropen {
							rpc(&wire.Msg{Type: wire.Tread, Fid: 42, Offset: 0, Count: 4096})
						}
						rpc(&wire.Msg{Type: wire.Tclunk, Fid: 42})
					}
					if r := rpc(twalk(0, fid, 43)); r != nil && r.Type == wire.Rwalk {
						if o := rpc(&wire.Msg{Type: wire.Topen, Fid: 43, Mode: 1}); o != nil && o.Type == wire.Ropen {
							rpc(&wire.Msg{Type: wire.Twrite, Fid: 43, Offset: 0, Data: []byte("overwritten")})
						}
						rpc(&wire.Msg{Type: wire.Tclunk, Fid: 43})
					}
					if r := rpc(twalk(0, fid, 44)); r != nil && r.Type == wire.Rwalk {
						rpc(&wire.Msg{Type: wire.Tcreate, Fid: 44, Name: "planted", Perm: 0644, Mode: 1})
						rpc(&wire.Msg{Type: wire.Tclunk, Fid: 44})
					}
					if r := rpc(twalk(0, fid, 45)); r != nil && r.Type == wire.Rwalk {
						st := wire.Stat{Type: 0xFFFF, Dev: 0xFFFFFFFF, Qid: wire.Qid{Type: 0xFF, Vers: 0xFFFFFFFF, Path: ^uint64(0)}, Mode: 0700, Atime: 0xFFFFFFFF, Mtime: 0xFFFFFFFF, Length: ^uint64(0), NUid: 0xFFFFFFFF, NGid: 0xFFFFFFFF, NMuid: 0xFFFFFFFF}
						rpc(&wire.Msg{Type: wire.Twstat, Fid: 45, Stat: st})
						rpc(&wire.Msg{Type: wire.Tremove, Fid: 45})
					}
				}
				starts := [][]string{nil, {"d"}, {"d", "dd"}}
				switch use {
				case "attach":
					if r := attach(hostile); r != nil && r.Type == wire.Rattach {
						access(0)
					}
				case "walk1":
					attach("")
					for si, st := range starts {
						base := uint32(10 + si)
						if r := rpc(twalk(0, 0, base, st...)); r == nil || r.Type != wire.Rwalk {
							continue
						}
						if r := rpc(twalk(0, base, 20, hostile)); r != nil && r.Type == wire.Rwalk && len(r.Wqid) == 1 {
							if hostile == ".." && si == 0 && r.Wqid[0].Path != rootIno {
								fail("dotdot-at-root", fmt.Sprintf("'..' at the root yields qid path %d, the root is %d", r.Wqid[0].Path, rootIno))
							}
							access(20)
							rpc(&wire.Msg{Type: wire.Tclunk, Fid: 20})
						}
					}
				case "walkN":
					attach("")
					elems := strings.Split(strings.Trim(hostile, "/"), "/")
					if len(elems) > 4 {
						elems = elems[:4]
					}
					for si, st := range starts {
						base := uint32(10 + si)
						if r := rpc(twalk(0, 0, base, st...)); r == nil || r.Type != wire.Rwalk {
							continue
						}
						if r := rpc(twalk(0, base, 20, elems...)); r != nil && r.Type == wire.Rwalk && len(r.Wqid) == len(elems) {
							access(20)
							rpc(&wire.Msg{Type: wire.Tclunk, Fid: 20})
						}
						// and one more '..' beyond
						if r := rpc(twalk(0, base, 21, append(append([]string{}, elems...), "..", "..")...)); r != nil && r.Type == wire.Rwalk && len(r.Wqid) == len(elems)+2 {
							access(21)
							rpc(&wire.Msg{Type: wire.Tclunk, Fid: 21})
						}
					}
					// the same element lists behind a symbolic link that leads (inside the export) to a
					// shallower directory: '..' then starts from where the link leads
					for _, pre := range [][]string{{"d", "dd", "up"}, {"d", "dd", "toroot"}} {
						el := append(append([]string{}, pre...), elems...)
						if r := rpc(twalk(0, 0, 22, el...)); r != nil && r.Type == wire.Rwalk && len(r.Wqid) == len(el) {
							access(22)
							rpc(&wire.Msg{Type: wire.Tclunk, Fid: 22})
						}
					}
				case "create", "mkdir", "symlink", "link", "mkfifo", "mknod", "mksock":
					attach("")
					for si, st := range starts {
						base := uint32(10 + si)
						if r := rpc(twalk(0, 0, base, st...)); r == nil || r.Type != wire.Rwalk {
							continue
						}
						perm, ext := uint32(0644), ""
						switch use {
						case "mkdir":
							perm = go9p.DMDIR | 0755
						case "symlink":
							perm, ext = go9p.DMSYMLINK|0777, "x"
						case "link":
							rpc(twalk(0, 0, 30, "x"))
							perm, ext = go9p.DMLINK|0644, "30"
						case "mkfifo":
							perm = go9p.DMNAMEDPIPE | 0644
						case "mknod":
							perm, ext = go9p.DMDEVICE|0644, "c 1 3"
						case "mksock":
							perm = go9p.DMSOCKET | 0644
						}
						mode := uint8(1)
						if use != "create" {
							mode = 0
						}
						if r := rpc(&wire.Msg{Type: wire.Tcreate, Fid: base, Name: hostile, Perm: perm, Mode: mode, Ext: ext}); r != nil && r.Type == wire.Rcreate {
							rpc(&wire.Msg{Type: wire.Tstat, Fid: base})
							rpc(&wire.Msg{Type: wire.Tread, Fid: base, Offset: 0, Count: 4096})
							rpc(&wire.Msg{Type: wire.Twrite, Fid: base, Offset: 0, Data: []byte("written through a created fid")})
							access(base)
						}
						if use == "link" {
							rpc(&wire.Msg{Type: wire.Tclunk, Fid: 30})
						}
					}
				case "rename":
					attach("")
					for _, target := range [][]string{{"x"}, {"d", "y"}, {"d", "dd"}, {"d", "dd", "z"}} {
						if r := rpc(twalk(0, 0, 15, target...)); r == nil || r.Type != wire.Rwalk || len(r.Wqid) != len(target) {
							continue
						}
						st := wire.Stat{Type: 0xFFFF, Dev: 0xFFFFFFFF, Qid: wire.Qid{Type: 0xFF, Vers: 0xFFFFFFFF, Path: ^uint64(0)}, Mode: 0xFFFFFFFF, Atime: 0xFFFFFFFF, Mtime: 0xFFFFFFFF, Length: ^uint64(0), Name: hostile, NUid: 0xFFFFFFFF, NGid: 0xFFFFFFFF, NMuid: 0xFFFFFFFF}
						rpc(&wire.Msg{Type: wire.Twstat, Fid: 15, Stat: st})
						// wherever the fid is now (moved inside the export, or not moved at all), it stays confined
						access(15)
						rpc(&wire.Msg{Type: wire.Tclunk, Fid: 15})
					}
				}
			}
			x := vs.Run(nil, body, vs.Options{Horizon: 100000000})
			if rootStyle != "abs" {
				os.Chdir("/")
			}
			res.Evals++
			res.Nontrivial++
			if len(x.Panics) > 0 {
				fail("panic/"+x.Panics[0].Frame, fmt.Sprintf("name %q as %s: panic %s", hostile, use, x.Panics[0].Value))
			}
			if leak != "" {
				fail("leak/"+use, fmt.Sprintf("name %q used as %s: %s", hostile, use, leak))
			}
			if after := env.outsideState(); after != before {
				fail("outside-modified/"+use, fmt.Sprintf("name %q used as %s changed something outside the export:\n%s", hostile, use, diffLines(before, after)))
				// repair the outside for the following cases
				os.RemoveAll(env.base)
				env = c18Setup()
			}
		}
		res.Samples = append(res.Samples, fmt.Sprintf("use %s: %d names from the grammar {'..','.','','x','d','nope'}^<=3 with optional leading/trailing '/', each followed by stat, walk to the canaries, list/read, write, create, wstat, remove", use, len(names)))
		return res
	}}
}

// c18PipelinedWalk: a client that does not wait for the Rwalk walks on from the new fid
// at once. While the first walk is still being carried out the new fid exists but is
// not bound to a place yet; walking from it must not start anywhere outside the export
// (explored over the schedules of the two request goroutines).
func c18PipelinedWalk(dotu bool, P int) Scenario {
	var env *c18Env
	var leak string
	name := fmt.Sprintf("confine pipelined-walk-from-a-fid-being-created dotu=%v", dotu)
	body := func() {
		leak = ""
		h := newUfsH(env.root, 8216, dotu)
		cl := h.Connect()
		ver := "9P2000"
		if dotu {
			ver = "9P2000.u"
		}
		cl.Version(8216, ver)
		a := tattach(1, 0, wire.NOFID, "", uint32(os.Geteuid()), dotu)
		cl.Rpc(a)
		up := filepath.Dir(env.root)
		abs := strings.Split(strings.Trim(up, "/"), "/")
		abs = append(abs, "canary")
		if len(abs) > 16 {
			abs = abs[len(abs)-16:]
		}
		n0 := len(cl.Collect())
		vs.Window(true)
		cl.Send(dotu, twalk(2, 0, 5, "d", "dd"), twalk(3, 5, 6, abs...), twalk(4, 5, 7, "..", "..", "..", "canary"))
		vs.Idle()
		vs.Window(false)
		for _, f := range cl.Collect()[n0:] {
			if l := env.leak(f.Msg); l != "" && leak == "" {
				leak = l
			}
		}
		for _, fid := range []uint32{6, 7} {
			if r := cl.Rpc(&wire.Msg{Type: wire.Topen, Tag: 9, Fid: fid, Mode: 0}); r != nil && r.Type == wire.Ropen {
				rr := cl.Rpc(&wire.Msg{Type: wire.Tread, Tag: 10, Fid: fid, Count: 4096})
				if l := env.leak(rr); l != "" && leak == "" {
					leak = l
				}
			}
			if l := env.leak(cl.Rpc(&wire.Msg{Type: wire.Tstat, Tag: 11, Fid: fid})); l != "" && leak == "" {
				leak = l
			}
		}
	}
	check := func(x *vs.Exec) *Viol {
		for _, p := range x.Panics {
			return &Viol{Sig: "C18/panic/" + p.Frame, Msg: "panic: " + p.Value}
		}
		if leak != "" {
			return &Viol{Sig: "C18/leak/pipelined-walk", Msg: "a walk sent right behind the walk that creates its source fid (Rwalk not awaited) reached outside the export: " + leak}
		}
		return nil
	}
	return Scenario{Name: name, Run: func(rc *RunCtx) *Result {
		env = c18Setup()
		defer func() { os.RemoveAll(env.base) }()
		env.outsideState()
		return runVs(rc, &VsSpec{Name: name, Body: body, Check: check, P: P})
	}}
}

func diffLines(a, b string) string {
	am := map[string]bool{}
	for _, l := range strings.Split(a, "\n") {
		am[l] = true
	}
	var out []string
	bm := map[string]bool{}
	for _, l := range strings.Split(b, "\n") {
		bm[l] = true
		if !am[l] {
			out = append(out, "+ "+l)
		}
	}
	for _, l := range strings.Split(a, "\n") {
		if !bm[l] {
			out = append(out, "- "+l)
		}
	}
	if len(out) > 8 {
		out = out[:8]
	}
	return strings.Join(out, "\n")
}

func c18Scenarios(tier string) []Scenario {
	var out []Scenario
	pw := 2
	if tier == "thorough" {
		pw = 3
	}
	out = append(out, c18PipelinedWalk(false, pw), c18PipelinedWalk(true, pw))
	// PATH_MAX is 4096 on the host: every spelled length from well below to beyond it
	out = append(out, c18LongPaths(false, 4060, 4082), c18LongPaths(true, 4083, 4104))
	out = append(out, c18ReplacedByLink(false), c18ReplacedByLink(true))
	out = append(out, c18RootReplaced(false), c18RootReplaced(true))
	bp := 1
	if tier == "thorough" {
		bp = 2
	}
	out = append(out, c18BusyRoot("create", false, bp), c18BusyRoot("remove", true, bp))
	if tier == "thorough" {
		out = append(out, c18LongPaths(true, 4000, 4059), c18LongPaths(false, 4083, 4140))
	}
	uses := []string{"attach", "walk1", "walkN", "create", "mkdir", "rename"}
	parts := 4
	for _, u := range uses {
		for _, dotu := range []bool{false, true} {
			if tier == "quick" && dotu && (u == "mkdir" || u == "walkN") {
				continue
			}
			for p := 0; p < parts; p++ {
				out = append(out, c18Scenario(u, dotu, p, parts))
			}
		}
	}
	for p := 0; p < parts; p++ {
		out = append(out, c18Scenario("symlink", true, p, parts), c18Scenario("link", true, p, parts))
		out = append(out, c18Scenario("mkfifo", true, p, parts))
		// the root given relative to where the process stands
		for i, u := range []string{"attach", "walk1", "rename", "create"} {
			out = append(out, c18ScenarioRoot(u, (i+p)%2 == 0, p, parts, "dot"))
			if tier == "thorough" || (i+p)%2 == 0 {
				out = append(out, c18ScenarioRoot(u, (i+p)%2 == 1, p, parts, "rel"))
			}
		}
		if tier == "thorough" || p == 0 {
			out = append(out, c18Scenario("mknod", true, p, parts), c18Scenario("mksock", true, p, parts))
		}
	}
	return out
}

func init() {
	_ = vs.Active
	register(&Property{ID: "C18", Level: "exploration",
		Technique: "bounded-exhaustive enumeration of hostile names in every position, executed on the real Ufs over a scratch export with canaries outside",
		Rule:      "names = every sequence of <= 3 components over {'..', '.', '', 'x' (file), 'd' (directory), 'nope'} joined by '/', with and without leading and trailing '/', plus 4- and 5-level '..' chains and 11 absolute host paths (the export, its spelling as a prefix of a sibling file and of a sibling directory (absolute and through '..'), its parent and neighbours, '/etc', '/') (about 1000 names), used as attach name, single walk element and element list (<= 4, plus two more '..') from the root and from depth 1 and 2 and behind symbolic links that lead to a shallower place inside the export, create name for files, directories, symlinks, hard links, named pipes, devices and sockets (the created fid is then read and used like any other), and wstat rename target (the renamed fid is then used like any other); every resulting fid is then stat'ed, walked towards the canaries, listed/read, written, created in, wstat'ed and removed. Oracle: the server's root given as an absolute path, as '.' (process inside the export) and as a relative name; nothing outside the export changes (names, contents, modes, mtimes), no reply carries a qid or data of an outside object, '..' at the root is the root. non-trivial = names x uses executed",
		Assumptions: []string{"the export is nested 12 levels below the scratch base, deeper than any generated '..' chain (the checks run as root on the real file system)", "the exported tree contains no symlink leaving it (the property's premise); symlink targets supplied by the client are not followed by the check"},
		Scenarios:   c18Scenarios, QuickS: 110, ThoroughS: 900})
}
