package main

import (
	"fmt"
	"strings"

	"github.com/rminnich/go9p/vs"
	"harness/wire"
)

// C08: independent requests progress independently; shared tags run FIFO.

type c08Params struct {
	Kinds    []string
	Parked   []int // indices of requests held in the implementation
	Release  []int // release order (a permutation of Parked)
	TwoConns bool
	NotagFirst bool // the first request carries tag 0xFFFF (not reserved by the server)
	SlowFirst bool // the first connection's client stops reading: its replies pile up, the second connection must not notice
	Maxpend  int
	Dotu     bool
	P        int
}

func (p c08Params) name() string {
	slow := ""
	if p.SlowFirst {
		slow = " first-connection-not-reading"
	}
	if p.NotagFirst {
		slow += " first-tag=0xffff"
	}
	return fmt.Sprintf("progress kinds=%v parked=%v release=%v twoconns=%v maxpend=%d dotu=%v%s", p.Kinds, p.Parked, p.Release, p.TwoConns, p.Maxpend, p.Dotu, slow)
}

func c08Progress(p c08Params) Scenario {
	var s *sess
	var c2 *Cli
	var phase1 map[uint16]bool
	var phase1c2 bool
	var setup2 int
	body := func() {
		withAuth := false
		for _, k := range p.Kinds {
			withAuth = withAuth || strings.HasPrefix(k, "auth")
		}
		s = newSess(SrvOpt{Msize: 256, Dotu: p.Dotu, Maxpend: p.Maxpend, Auth: withAuth})
		if withAuth {
			// one authentication fid; requests on it go to the implementation's AuthRead / AuthWrite
			if r := s.c.Rpc(&wire.Msg{Type: wire.Tauth, Tag: s.tag(), Afid: 70, Uname: "glenda", NUname: 7, HasNUname: p.Dotu}); r == nil || r.Type != wire.Rauth {
				vs.Fail("setup: Tauth answered by %v", r)
			}
		}
		s.tags, s.msgs, s.gates = nil, nil, make([]*vs.Sem, len(p.Kinds))
		for i, k := range p.Kinds {
			tag := uint16(100 + i)
			if i == 0 && p.NotagFirst {
				tag = 0xFFFF
			}
			s.tags = append(s.tags, tag)
			switch k {
			case "authread":
				s.msgs = append(s.msgs, &wire.Msg{Type: wire.Tread, Tag: tag, Fid: 70, Count: 8})
			case "authwrite":
				s.msgs = append(s.msgs, &wire.Msg{Type: wire.Twrite, Tag: tag, Fid: 70, Data: []byte("resp")})
			default:
				s.msgs = append(s.msgs, s.prepare(strings.TrimSuffix(k, "+destroy"), uint32(10+i), tag))
			}
		}
		for _, i := range p.Parked {
			s.gates[i] = vs.NewSem(0)
			if strings.HasSuffix(p.Kinds[i], "+destroy") {
				// the implementation answers at once and then blocks in FidDestroy
				s.fs.Script[reqKey{0, s.tags[i], 0}] = &Action{DestroyGate: s.gates[i]}
				continue
			}
			if p.Kinds[i] == "authread" {
				s.fs.AuthReadGate = s.gates[i]
				continue
			}
			s.fs.Script[reqKey{0, s.tags[i], 0}] = &Action{Gate: s.gates[i]}
		}
		c2 = nil
		if p.TwoConns {
			c2 = s.h.Connect()
			ver := "9P2000"
			if p.Dotu {
				ver = "9P2000.u"
			}
			c2.Version(256, ver)
			if r := c2.Rpc(tattach(1, 0, wire.NOFID, "bob", 8, p.Dotu)); r == nil || r.Type != wire.Rattach {
				vs.Fail("setup: attach on second connection answered by %v", r)
			}
			setup2 = len(c2.Collect())
		}
		s.setupN = len(s.c.Collect())
		vs.Window(true)
		if p.SlowFirst {
			s.c.SrvEnd.StallOutgoing()
		}
		s.c.Send(p.Dotu, s.msgs...)
		if c2 != nil {
			c2.Send(p.Dotu, &wire.Msg{Type: wire.Tstat, Tag: 100, Fid: 0})
		}
		vs.Idle()
		// quiescent with the designated requests still parked: everything else must be answered
		phase1 = map[uint16]bool{}
		for _, f := range s.c.Collect()[s.setupN:] {
			if f.Msg != nil {
				phase1[f.Msg.Tag] = true
			}
		}
		phase1c2 = false
		if c2 != nil {
			for _, f := range c2.Collect()[setup2:] {
				if f.Msg != nil && f.Msg.Tag == 100 && f.Msg.Type == wire.Rstat {
					phase1c2 = true
				}
			}
		}
		for _, i := range p.Release {
			s.gates[i].Release()
		}
		vs.Idle()
		if p.SlowFirst {
			s.c.SrvEnd.UnstallOutgoing()
			vs.Idle()
		}
		vs.Window(false)
		s.c.Collect()
	}
	check := stdCheck("C08", func(x *vs.Exec) *Viol {
		frames := s.c.Frames[s.setupN:]
		detail := map[string]any{"wire": strings.Split(framesString(frames), "\n"), "fslog": strings.Split(s.fs.logString(), "\n"), "parked": x.Parked}
		isParked := map[int]bool{}
		for _, i := range p.Parked {
			isParked[i] = true
		}
		for i, t := range s.tags {
			if strings.HasSuffix(p.Kinds[i], "+destroy") {
				continue // its own reply may or may not wait for its own FidDestroy
			}
			if p.SlowFirst {
				if phase1[t] {
					return &Viol{Sig: "C08/harness/reply-through-a-stalled-transport", Msg: "a reply arrived although the transport was stalled", Detail: detail}
				}
				continue // this connection's replies wait for its own client
			}
			if !isParked[i] && !phase1[t] {
				return &Viol{Sig: "C08/delayed-by-blocked-request/" + p.Kinds[i], Msg: fmt.Sprintf("request %d (%s) had no reply while requests %v were blocked in the implementation and nothing else could run\n%s", i, s.msgs[i], p.Parked, framesString(frames)), Detail: detail}
			}
			if isParked[i] && phase1[t] {
				return &Viol{Sig: "C08/harness/parked-request-answered", Msg: "a request parked in the implementation was answered", Detail: detail}
			}
		}
		if c2 != nil && !phase1c2 {
			return &Viol{Sig: "C08/other-connection-delayed", Msg: "a request on another connection had no reply while requests were blocked on the first", Detail: detail}
		}
		count := map[uint16]int{}
		for _, f := range frames {
			if f.Msg == nil {
				return &Viol{Sig: "C08/malformed-frame", Msg: f.Err, Detail: detail}
			}
			count[f.Msg.Tag]++
		}
		for i, t := range s.tags {
			if count[t] != 1 {
				return &Viol{Sig: fmt.Sprintf("C08/reply-count-%d", count[t]), Msg: fmt.Sprintf("request %d (%s) got %d replies after all gates were released\n%s\nparked: %+v", i, s.msgs[i], count[t], framesString(frames), x.Parked), Detail: detail}
			}
		}
		return nil
	}, nil)
	return vsScenario(&VsSpec{Name: p.name(), Body: body, Check: check, P: p.P, Sample: func() any {
		return map[string]any{"requests": fmt.Sprint(s.msgs), "parked": p.Parked, "answered_while_parked": fmt.Sprint(phase1)}
	}})
}

type c08GroupParams struct {
	Group     int  // requests sharing the tag
	FirstGate bool // first of the group parks in the implementation
	Others    int  // requests with other tags mixed in
	Maxpend   int
	Dotu      bool
	Split     bool // group members in separate writes
	Locked    bool // the implementation holds a lock of its own across each operation, answer included
	P         int
}

func (p c08GroupParams) name() string {
	n := fmt.Sprintf("sharedtag group=%d firstgated=%v others=%d maxpend=%d dotu=%v split=%v", p.Group, p.FirstGate, p.Others, p.Maxpend, p.Dotu, p.Split)
	if p.Locked {
		n += " implementation-holds-its-lock-while-answering"
	}
	return n
}

func c08Group(p c08GroupParams) Scenario {
	var s *sess
	var group []*wire.Msg
	var others []*wire.Msg
	var phase1 map[uint16]int
	const gTag = 300
	body := func() {
		s = newSess(SrvOpt{Msize: 256, Dotu: p.Dotu, Maxpend: p.Maxpend, Locked: p.Locked})
		group, others = nil, nil
		for i := 0; i < p.Group; i++ {
			// reads on distinct fids: the payload identifies the member
			group = append(group, s.prepare("read", uint32(30+i), gTag))
		}
		for i := 0; i < p.Others; i++ {
			k := []string{"stat", "write", "walk"}[i%3]
			others = append(others, s.prepare(k, uint32(50+i), uint16(400+i)))
		}
		var gate *vs.Sem
		if p.FirstGate {
			gate = vs.NewSem(0)
			s.fs.Script[reqKey{0, gTag, 0}] = &Action{Gate: gate}
		}
		s.setupN = len(s.c.Collect())
		vs.Window(true)
		var all []*wire.Msg
		for i := 0; i < len(group) || i < len(others); i++ {
			if i < len(group) {
				all = append(all, group[i])
			}
			if i < len(others) {
				all = append(all, others[i])
			}
		}
		if p.Split {
			for _, m := range all {
				s.c.Send(p.Dotu, m)
			}
		} else {
			s.c.Send(p.Dotu, all...)
		}
		vs.Idle()
		phase1 = map[uint16]int{}
		for _, f := range s.c.Collect()[s.setupN:] {
			if f.Msg != nil {
				phase1[f.Msg.Tag]++
			}
		}
		if gate != nil {
			gate.Release()
			vs.Idle()
		}
		vs.Window(false)
		s.c.Collect()
	}
	check := stdCheck("C08", func(x *vs.Exec) *Viol {
		frames := s.c.Frames[s.setupN:]
		detail := map[string]any{"wire": strings.Split(framesString(frames), "\n"), "fslog": strings.Split(s.fs.logString(), "\n"), "parked": x.Parked}
		if p.FirstGate {
			for _, m := range others {
				if phase1[m.Tag] != 1 {
					return &Viol{Sig: "C08/delayed-by-blocked-tag-group", Msg: fmt.Sprintf("request %s with its own tag had no reply while a same-tag group was blocked\n%s", m, framesString(frames)), Detail: detail}
				}
			}
			if phase1[gTag] != 0 {
				return &Viol{Sig: "C08/tag-group-overtook-blocked-head", Msg: "a later request of a shared-tag group was answered while the first one was still blocked", Detail: detail}
			}
		}
		// execution order and exclusion, from the implementation's log
		type iv struct {
			fid        uint32
			start, end int64
		}
		var ivs []iv
		for _, e := range s.fs.Log {
			if e.Conn != 0 || e.Tag != gTag {
				continue
			}
			switch e.Kind {
			case "call":
				ivs = append(ivs, iv{fid: e.Fid, start: e.Seq})
			case "resp":
				if len(ivs) > 0 {
					ivs[len(ivs)-1].end = e.Seq
				}
			}
		}
		if len(ivs) != p.Group {
			return &Viol{Sig: "C08/tag-group-not-all-executed", Msg: fmt.Sprintf("%d of %d same-tag requests reached the implementation\n%s\nparked: %+v", len(ivs), p.Group, framesString(frames), x.Parked), Detail: detail}
		}
		for i, v := range ivs {
			if v.fid != uint32(30+i) {
				return &Viol{Sig: "C08/tag-group-execution-order", Msg: fmt.Sprintf("same-tag requests were executed out of arrival order: position %d ran the request on fid %d\n%s", i, v.fid, s.fs.logString()), Detail: detail}
			}
			if i > 0 && ivs[i-1].end > v.start {
				return &Viol{Sig: "C08/tag-group-overlap", Msg: fmt.Sprintf("same-tag request %d started (seq %d) before its predecessor finished (seq %d)", i, v.start, ivs[i-1].end), Detail: detail}
			}
		}
		// reply order on the wire
		k := 0
		for _, f := range frames {
			if f.Msg == nil {
				return &Viol{Sig: "C08/malformed-frame", Msg: f.Err, Detail: detail}
			}
			if f.Msg.Tag != gTag {
				continue
			}
			if k >= p.Group {
				return &Viol{Sig: "C08/tag-group-extra-reply", Msg: "more replies than requests for the shared tag\n" + framesString(frames), Detail: detail}
			}
			want := fmt.Sprintf("Rread %x", readData(gTag, uint32(30+k), uint64(30+k), 16))
			if got := renderReply(f.Msg); got != want {
				return &Viol{Sig: "C08/tag-group-reply-order", Msg: fmt.Sprintf("reply %d for the shared tag is %q, expected the reply of the %d-th request %q\n%s", k, got, k, want, framesString(frames)), Detail: detail}
			}
			k++
		}
		if k != p.Group {
			return &Viol{Sig: "C08/tag-group-missing-reply", Msg: fmt.Sprintf("%d replies for %d same-tag requests\n%s\nparked: %+v", k, p.Group, framesString(frames), x.Parked), Detail: detail}
		}
		for _, m := range others {
			n := 0
			for _, f := range frames {
				if f.Msg.Tag == m.Tag {
					n++
				}
			}
			if n != 1 {
				return &Viol{Sig: fmt.Sprintf("C08/reply-count-%d", n), Msg: fmt.Sprintf("%s got %d replies", m, n), Detail: detail}
			}
		}
		return nil
	}, nil)
	return vsScenario(&VsSpec{Name: p.name(), Body: body, Check: check, P: p.P, Sample: func() any {
		return map[string]any{"group": fmt.Sprint(group), "others": fmt.Sprint(others), "wire": strings.Split(framesString(s.c.Frames[s.setupN:]), "\n")}
	}})
}

// c08GroupRefused: a shared-tag group in which the middle request is one the framework
// refuses itself (it never reaches the implementation): it still waits its turn, and
// the request behind it still waits for the one in front.
func c08GroupRefused(kind string, dotu bool, maxpend, P int) Scenario {
	name := fmt.Sprintf("sharedtag with a request the framework refuses (%s) maxpend=%d dotu=%v", kind, maxpend, dotu)
	var s *sess
	var phase1 int
	const gTag = 300
	body := func() {
		s = newSess(SrvOpt{Msize: 256, Dotu: dotu, Maxpend: maxpend})
		a := s.prepare("read", 30, gTag)
		c := s.prepare("read", 31, gTag)
		var b *wire.Msg
		switch kind {
		case "clunk of NOFID":
			b = &wire.Msg{Type: wire.Tclunk, Tag: gTag, Fid: wire.NOFID}
		case "stat of NOFID":
			b = &wire.Msg{Type: wire.Tstat, Tag: gTag, Fid: wire.NOFID}
		case "walk from NOFID":
			b = twalk(gTag, wire.NOFID, 77, "d")
		case "read of an unknown fid":
			b = &wire.Msg{Type: wire.Tread, Tag: gTag, Fid: 999, Count: 4}
		case "read of too much":
			b = &wire.Msg{Type: wire.Tread, Tag: gTag, Fid: 31, Count: 1 << 20}
		case "walk to a fid in use":
			b = twalk(gTag, 0, 31, "d")
		case "attach to a fid in use":
			b = tattach(gTag, 0, wire.NOFID, "glenda", 7, dotu)
		}
		gate := vs.NewSem(0)
		s.fs.Script[reqKey{0, gTag, 0}] = &Action{Gate: gate}
		s.setupN = len(s.c.Collect())
		vs.Window(true)
		s.c.Send(dotu, a, b, c)
		vs.Idle()
		phase1 = len(s.c.Collect()[s.setupN:])
		gate.Release()
		vs.Idle()
		vs.Window(false)
		s.c.Collect()
	}
	check := stdCheck("C08", func(x *vs.Exec) *Viol {
		frames := s.c.Frames[s.setupN:]
		detail := map[string]any{"wire": strings.Split(framesString(frames), "\n"), "fslog": strings.Split(s.fs.logString(), "\n"), "parked": x.Parked}
		if phase1 != 0 {
			return &Viol{Sig: "C08/tag-group-overtook-blocked-head", Msg: "a later request of a shared-tag group (" + kind + ", or the one behind it) was answered while the first one was still blocked\n" + framesString(frames), Detail: detail}
		}
		var calls []Entry
		var firstResp int64 = -1
		for _, e := range s.fs.Log {
			if e.Conn != 0 || e.Tag != gTag {
				continue
			}
			if e.Kind == "call" {
				calls = append(calls, e)
			}
			if e.Kind == "resp" && firstResp < 0 {
				firstResp = e.Seq
			}
		}
		if len(calls) != 2 || calls[0].Fid != 30 || calls[1].Fid != 31 {
			return &Viol{Sig: "C08/tag-group-execution-order", Msg: fmt.Sprintf("the implementation saw %d requests under the shared tag, want the read on fid 30 then the read on fid 31\n%s", len(calls), s.fs.logString()), Detail: detail}
		}
		if calls[1].Seq < firstResp {
			return &Viol{Sig: "C08/tag-group-overlap", Msg: "the request behind the refused one started before the first of the group had finished\n" + s.fs.logString(), Detail: detail}
		}
		if len(frames) != 3 {
			return &Viol{Sig: "C08/tag-group-missing-reply", Msg: fmt.Sprintf("%d replies for 3 same-tag requests\n%s", len(frames), framesString(frames)), Detail: detail}
		}
		for i, f := range frames {
			if f.Msg == nil {
				return &Viol{Sig: "C08/malformed-frame", Msg: f.Err, Detail: detail}
			}
			want := uint8(wire.Rread)
			if i == 1 {
				want = wire.Rerror
			}
			if f.Msg.Type != want || f.Msg.Tag != gTag {
				return &Viol{Sig: "C08/tag-group-reply-order", Msg: fmt.Sprintf("reply %d under the shared tag is %s; the group was a read, a %s, a read\n%s", i, f.Msg, kind, framesString(frames)), Detail: detail}
			}
		}
		if got, want := renderReply(frames[2].Msg), fmt.Sprintf("Rread %x", readData(gTag, 31, 31, 16)); got != want {
			return &Viol{Sig: "C08/tag-group-reply-order", Msg: "the third reply is " + got + ", want " + want, Detail: detail}
		}
		return nil
	}, nil)
	return vsScenario(&VsSpec{Name: name, Body: body, Check: check, P: P})
}

var c08RefusedKinds = []string{"clunk of NOFID", "stat of NOFID", "walk from NOFID", "read of an unknown fid", "read of too much", "walk to a fid in use", "attach to a fid in use"}

// c08AcrossVersion: a request is held under tag t when a Tversion arrives in mid-session
// (its reply is then suppressed); the new session uses tag t again, twice. The three
// requests still run one at a time in arrival order, and the two of the new session
// are answered in that order.
func c08AcrossVersion(dotu bool, maxpend, P int) Scenario {
	var s *sess
	name := fmt.Sprintf("sharedtag across-Tversion maxpend=%d dotu=%v", maxpend, dotu)
	body := func() {
		s = newSess(SrvOpt{Msize: 256, Dotu: dotu, Maxpend: maxpend})
		a := s.prepare("read", 30, 100)
		b := s.prepare("stat", 31, 100)
		c := s.prepare("read", 32, 100)
		gA, gB := vs.NewSem(0), vs.NewSem(0)
		s.fs.Script[reqKey{0, 100, 0}] = &Action{Gate: gA}
		s.fs.Script[reqKey{0, 100, 1}] = &Action{Gate: gB}
		s.c.Send(dotu, a)
		vs.Idle()
		ver := "9P2000"
		if dotu {
			ver = "9P2000.u"
		}
		if r := s.c.Version(256, ver); r == nil || r.Type != wire.Rversion {
			vs.Fail("Tversion in mid-session answered by %v", r)
		}
		s.setupN = len(s.c.Collect())
		vs.Window(true)
		s.c.Send(dotu, b)
		vs.Idle()
		gA.Release()
		vs.Idle()
		s.c.Send(dotu, c)
		vs.Idle()
		gB.Release()
		vs.Idle()
		vs.Window(false)
		s.c.Collect()
	}
	check := stdCheck("C08", func(x *vs.Exec) *Viol {
		frames := s.c.Frames[s.setupN:]
		detail := map[string]any{"wire": strings.Split(framesString(frames), "\n"), "fslog": strings.Split(s.fs.logString(), "\n"), "parked": x.Parked}
		type iv struct {
			fid        uint32
			start, end int64
		}
		var ivs []iv
		for _, e := range s.fs.Log {
			if e.Conn != 0 || e.Tag != 100 {
				continue
			}
			switch e.Kind {
			case "call":
				ivs = append(ivs, iv{fid: e.Fid, start: e.Seq, end: 1 << 62})
			case "resp":
				for i := range ivs {
					if ivs[i].end == 1<<62 && e.Occ == i {
						ivs[i].end = e.Seq
					}
				}
			}
		}
		if len(ivs) != 3 {
			return &Viol{Sig: "C08/tag-group-not-all-executed/across-version", Msg: fmt.Sprintf("%d of 3 requests under the tag reached the implementation\n%s\nparked: %+v", len(ivs), framesString(frames), x.Parked), Detail: detail}
		}
		for i, v := range ivs {
			if v.fid != uint32(30+i) {
				return &Viol{Sig: "C08/tag-group-execution-order/across-version", Msg: fmt.Sprintf("same-tag requests were executed out of arrival order: position %d ran the request on fid %d\n%s", i, v.fid, s.fs.logString()), Detail: detail}
			}
			if i > 0 && ivs[i-1].end > v.start {
				return &Viol{Sig: "C08/tag-group-overlap/across-version", Msg: fmt.Sprintf("the request on fid %d started (seq %d) before its predecessor under the same tag had finished (seq %d): a Tversion in between does not make them independent\n%s", v.fid, v.start, ivs[i-1].end, s.fs.logString()), Detail: detail}
			}
		}
		var order []string
		for _, f := range frames {
			if f.Msg == nil {
				return &Viol{Sig: "C08/malformed-frame", Msg: f.Err, Detail: detail}
			}
			if f.Msg.Tag == 100 {
				order = append(order, wire.Names[f.Msg.Type])
			}
		}
		if got := strings.Join(order, ","); got != "Rstat,Rread" {
			return &Viol{Sig: "C08/tag-group-reply-order/across-version", Msg: fmt.Sprintf("the two requests of the new session under tag 100 (Tstat then Tread) were answered as [%s]\n%s", got, framesString(frames)), Detail: detail}
		}
		return nil
	}, nil)
	return vsScenario(&VsSpec{Name: name, Body: body, Check: check, P: P})
}

// c08FlushSharedTag: a request X is issued under the tag of a Tflush that is still
// waiting for its target (so X queues behind that Tflush); X then blocks in the
// implementation. Another Tflush of the same target, with a tag of its own, must not
// wait for X.
func c08FlushSharedTag(dotu bool, maxpend, P int) Scenario {
	var s *sess
	var phase1 map[uint16]int
	name := fmt.Sprintf("sharedtag request-behind-a-flush maxpend=%d dotu=%v", maxpend, dotu)
	body := func() {
		s = newSess(SrvOpt{Msize: 256, Dotu: dotu, Maxpend: maxpend})
		r := s.prepare("read", 30, 100)
		x := s.prepare("stat", 31, 102)
		gR, gX := vs.NewSem(0), vs.NewSem(0)
		s.fs.Script[reqKey{0, 100, 0}] = &Action{Gate: gR}
		s.fs.Script[reqKey{0, 102, 0}] = &Action{Gate: gX}
		s.setupN = len(s.c.Collect())
		vs.Window(true)
		s.c.Send(dotu, r)
		vs.Idle()
		s.c.Send(dotu, &wire.Msg{Type: wire.Tflush, Tag: 101, Oldtag: 100}, &wire.Msg{Type: wire.Tflush, Tag: 102, Oldtag: 100}, x)
		vs.Idle()
		gR.Release()
		vs.Idle()
		phase1 = map[uint16]int{}
		for _, f := range s.c.Collect()[s.setupN:] {
			if f.Msg != nil {
				phase1[f.Msg.Tag]++
			}
		}
		gX.Release()
		vs.Idle()
		vs.Window(false)
		s.c.Collect()
	}
	check := stdCheck("C08", func(x *vs.Exec) *Viol {
		frames := s.c.Frames[s.setupN:]
		detail := map[string]any{"wire": strings.Split(framesString(frames), "\n"), "fslog": strings.Split(s.fs.logString(), "\n"), "parked": x.Parked}
		if phase1[101] != 1 {
			return &Viol{Sig: "C08/delayed-by-blocked-request/flush", Msg: fmt.Sprintf("the Tflush with tag 101 had no Rflush while only the request with tag 102 (queued behind another Tflush, then blocked in the implementation) was outstanding\n%s", framesString(frames)), Detail: detail}
		}
		n := map[uint16]int{}
		for _, f := range frames {
			if f.Msg == nil {
				return &Viol{Sig: "C08/malformed-frame", Msg: f.Err, Detail: detail}
			}
			n[f.Msg.Tag]++
		}
		if n[101] != 1 || n[102] != 2 || n[100] > 1 {
			return &Viol{Sig: "C08/reply-count/flush-shared-tag", Msg: fmt.Sprintf("replies per tag %v (want one Rflush for 101, an Rflush and an Rstat for 102, at most one for 100)\n%s\nparked %v", n, framesString(frames), x.Parked), Detail: detail}
		}
		return nil
	}, nil)
	return vsScenario(&VsSpec{Name: name, Body: body, Check: check, P: P})
}

func subsets(n int) [][]int {
	var out [][]int
	for m := 1; m < (1<<n)-1; m++ {
		var s []int
		for i := 0; i < n; i++ {
			if m&(1<<i) != 0 {
				s = append(s, i)
			}
		}
		out = append(out, s)
	}
	return out
}

// the implementation is slow inside FidDestroy (reached from the Tclunk / Tremove that
// drops the last reference): requests with other tags still have to be answered
func c08DestroyScenarios(P int) []Scenario {
	var out []Scenario
	for i, ks := range [][]string{{"clunk+destroy", "stat"}, {"remove+destroy", "walk"}, {"clunk+destroy", "read", "clunk"}, {"clunk+destroy", "clunk+destroy", "open"}} {
		var parked []int
		for j, k := range ks {
			if strings.HasSuffix(k, "+destroy") {
				parked = append(parked, j)
			}
		}
		pp := P
		if len(ks) > 2 || i%2 == 0 {
			pp = P - 1 // three requests, or a second connection: one preemption fewer
		}
		out = append(out, c08Progress(c08Params{Kinds: ks, Parked: parked, Release: parked, TwoConns: i%2 == 0, Maxpend: i % 3, Dotu: i%2 == 1, P: pp}))
	}
	return out
}

// the client of the first connection stops reading (finished requests pile up behind
// its blocked writer, with every Maxpend): the second connection is served meanwhile
func c08SlowScenarios(P int) []Scenario {
	var out []Scenario
	sets := [][]string{{"stat", "read"}, {"clunk", "walk"}, {"write", "stat"}}
	if P > 2 {
		sets = append(sets, []string{"read", "write", "stat"})
	}
	for i, ks := range sets {
		pp := P - 1
		out = append(out, c08Progress(c08Params{Kinds: ks, TwoConns: true, SlowFirst: true, Maxpend: i % 3, Dotu: i%2 == 1, P: pp}))
		out = append(out, c08Progress(c08Params{Kinds: ks, Parked: []int{0}, Release: []int{0}, TwoConns: true, SlowFirst: true, Maxpend: (i + 1) % 3, Dotu: i%2 == 0, P: pp}))
	}
	return out
}

func c08Scenarios(tier string) []Scenario {
	var out []Scenario
	for i, k := range c08RefusedKinds {
		out = append(out, c08GroupRefused(k, i%2 == 0, i%3, 1))
	}
	kinds := []string{"read", "stat", "write", "walk", "clunk", "open"}
	if tier == "quick" {
		i := 0
		for _, n := range []int{2, 3} {
			ks := kinds[:n]
			for _, sub := range subsets(n) {
				for _, rel := range perms(sub) {
					i++
					P := 2
					if n == 3 {
						P = 1
					}
					out = append(out, c08Progress(c08Params{Kinds: ks, Parked: sub, Release: rel, TwoConns: n == 2 && i%2 == 0, Maxpend: i % 3, Dotu: i%2 == 0, P: P}))
				}
			}
		}
		out = append(out, c08Progress(c08Params{Kinds: []string{"write", "stat"}, Parked: []int{0}, Release: []int{0}, TwoConns: true, Maxpend: 0, P: 1}))
		out = append(out, c08DestroyScenarios(2)...)
		out = append(out, c08SlowScenarios(2)...)
		out = append(out, c08Group(c08GroupParams{Group: 2, FirstGate: true, Others: 1, Maxpend: 0, Dotu: true, P: 2}))
		out = append(out, c08Group(c08GroupParams{Group: 2, FirstGate: false, Others: 0, Maxpend: 1, Split: true, P: 2}))
		out = append(out, c08Group(c08GroupParams{Group: 3, FirstGate: true, Others: 2, Maxpend: 2, P: 1}))
		out = append(out, c08Group(c08GroupParams{Group: 3, FirstGate: false, Others: 0, Maxpend: 0, Dotu: true, Split: true, P: 1}))
		out = append(out, c08Group(c08GroupParams{Group: 2, FirstGate: false, Others: 1, Maxpend: 0, Locked: true, P: 0}), c08Group(c08GroupParams{Group: 3, FirstGate: false, Others: 1, Maxpend: 2, Dotu: true, Locked: true, Split: true, P: 0}))
		out = append(out, c08AcrossVersion(false, 0, 2), c08AcrossVersion(true, 2, 2))
		out = append(out, c08FsrvScenarios(0)...)
		for i, pr := range [][2]string{{"clunk", "stat"}, {"clunk", "clone"}, {"remove", "stat"}, {"clunk", "open"}} {
			out = append(out, c08ClunkRacingUse(pr[0], pr[1], i%2 == 0, i%3, 2))
		}
		out = append(out, c08UfsSlowHost("f", true, 0, 0), c08UfsSlowHost("d", false, 2, 0), c08UfsSlowHost("f", false, 1, 1))
		out = append(out, c08FlushSharedTag(false, 0, 1), c08FlushSharedTag(true, 2, 1))
		// an authentication exchange waiting inside AuthRead, more traffic on the same auth fid and elsewhere
		out = append(out, c08Progress(c08Params{Kinds: []string{"authread", "authwrite", "stat"}, Parked: []int{0}, Release: []int{0}, Maxpend: 0, Dotu: true, P: 1}),
			c08Progress(c08Params{Kinds: []string{"authread", "authwrite"}, Parked: []int{0}, Release: []int{0}, TwoConns: true, Maxpend: 2, P: 1}))
		out = append(out, c08Progress(c08Params{Kinds: []string{"read", "stat"}, Parked: []int{0}, Release: []int{0}, NotagFirst: true, Maxpend: 0, P: 2}),
			c08Progress(c08Params{Kinds: []string{"walk", "write", "stat"}, Parked: []int{0}, Release: []int{0}, NotagFirst: true, Maxpend: 2, Dotu: true, P: 1}))
		return out
	}
	i := 0
	for _, n := range []int{2, 3, 4} {
		for rot := 0; rot < 2; rot++ {
			ks := append(append([]string{}, kinds[rot*2:]...), kinds[:rot*2]...)[:n]
			for _, sub := range subsets(n) {
				for _, rel := range perms(sub) {
					i++
					P := 3
					if n == 3 {
						P = 2
					}
					if n == 4 {
						P = 1
					}
					out = append(out, c08Progress(c08Params{Kinds: ks, Parked: sub, Release: rel, TwoConns: n == 2 && i%2 == 0, Maxpend: i % 3, Dotu: i%2 == 0, P: P}))
				}
			}
		}
	}
	out = append(out, c08Progress(c08Params{Kinds: []string{"read", "stat", "write", "walk", "clunk", "open", "stat", "read"}, Parked: []int{0, 2, 3, 4, 5, 6}, Release: []int{6, 5, 4, 3, 2, 0}, TwoConns: true, Maxpend: 1, P: 0}))
	out = append(out, c08DestroyScenarios(3)...)
	out = append(out, c08SlowScenarios(3)...)
	for _, g := range []int{2, 3} {
		for _, fg := range []bool{true, false} {
			for _, mp := range []int{0, 1, 2} {
				P := 3
				if g == 3 {
					P = 2
				}
				out = append(out, c08Group(c08GroupParams{Group: g, FirstGate: fg, Others: mp, Maxpend: mp, Dotu: mp%2 == 0, Split: mp == 1, P: P}))
			}
		}
	}
	out = append(out, c08FsrvScenarios(0)...)
	out = append(out, c08FsrvScenarios(1)...)
	for i, pr := range [][2]string{{"clunk", "stat"}, {"clunk", "clone"}, {"remove", "stat"}, {"clunk", "open"}, {"remove", "clone"}} {
		out = append(out, c08ClunkRacingUse(pr[0], pr[1], i%2 == 0, i%3, 3))
	}
	out = append(out, c08UfsSlowHost("f", true, 0, 0), c08UfsSlowHost("d", false, 2, 0), c08UfsSlowHost("f", false, 1, 2), c08UfsSlowHost("d", true, 0, 2))
	for _, mp := range []int{0, 1, 2} {
		out = append(out, c08FlushSharedTag(mp == 1, mp, 2))
		out = append(out, c08AcrossVersion(mp%2 == 0, mp, 3))
		out = append(out, c08Progress(c08Params{Kinds: []string{"read", "stat", "write"}, Parked: []int{0}, Release: []int{0}, NotagFirst: true, Maxpend: mp, Dotu: mp == 1, P: 2}))
		out = append(out, c08Progress(c08Params{Kinds: []string{"authread", "authwrite", "stat"}, Parked: []int{0}, Release: []int{0}, TwoConns: mp == 1, Maxpend: mp, Dotu: mp != 1, P: 2}))
	}
	out = append(out, c08Group(c08GroupParams{Group: 8, FirstGate: true, Others: 3, Maxpend: 0, P: 0}))
	out = append(out, c08Group(c08GroupParams{Group: 5, FirstGate: false, Others: 2, Maxpend: 2, Split: true, P: 1}))
	return out
}

func init() {
	register(&Property{ID: "C08", Level: "model_checking",
		Technique: "stateless model checking of the real server under a controlled scheduler (all schedules within a preemption bound); blocking decided at quiescent states, no clocks",
		Rule:      "every schedule with at most P preemptions per scenario: (a) every non-empty proper subset of n requests parked in the implementation, every release order, one or two connections, Maxpend 0..2 (also with the blocked request carrying tag 0xFFFF), plus implementations blocked inside FidDestroy or inside AuthRead (with more requests on the same auth fid), plus a first connection whose client stops reading - at the quiescent state reached while the subset is parked every other request must have its reply; (b) groups of 2..8 requests under one tag mixed with other tags - start/finish intervals in the implementation log disjoint and in arrival order, replies in that order; a request queued under the tag of a waiting Tflush and then blocked, next to a second Tflush; a shared tag used across a Tversion in mid-session (held request, Tversion, two more requests under the tag). distinct = distinct per-object operation orders ; shared-tag groups whose middle request the framework refuses itself (7 kinds of refusal)",
		Assumptions: []string{"code between two synchronisation operations is atomic (race-free executions)", "transport modelled as an unbounded reliable byte queue", "'delayed' means: not answered in a state where nothing but the blocked requests could still run"},
		Scenarios:   c08Scenarios, QuickS: 180, ThoroughS: 1500})
}
