// hbin is the harness binary: one sub-command per property. It is built
// against the instrumented copy of go9p produced by vinst from /repo's
// current working tree.
package main

import (
	"encoding/json"
	"fmt"
	"os"
	"sort"
	"strconv"
	"time"
)

func usage() {
	fmt.Fprintln(os.Stderr, "usage: hbin <Cnn> [--tier quick|thorough] [--verif dir] [--only substr] [--workers n] [--replay file] [--list]")
	os.Exit(2)
}

func main() {
	if len(os.Args) < 2 {
		usage()
	}
	id := os.Args[1]
	prop := registry[id]
	if prop == nil {
		var ids []string
		for k := range registry {
			ids = append(ids, k)
		}
		sort.Strings(ids)
		fmt.Fprintf(os.Stderr, "unknown property %q; have %v\n", id, ids)
		os.Exit(2)
	}
	tier := os.Getenv("VERIF_TIER")
	if tier == "" {
		tier = "quick"
	}
	verifDir := "/verif"
	only := ""
	replay := ""
	worker := false
	list := false
	nworkers := 16
	var seed int64
	if s := os.Getenv("VERIF_SEED"); s != "" {
		seed, _ = strconv.ParseInt(s, 10, 64)
	}
	var deadlineNs int64
	a := os.Args[2:]
	for i := 0; i < len(a); i++ {
		next := func() string {
			i++
			if i >= len(a) {
				usage()
			}
			return a[i]
		}
		switch a[i] {
		case "--tier":
			tier = next()
		case "--verif":
			verifDir = next()
		case "--only":
			only = next()
		case "--replay":
			replay = next()
		case "--worker":
			worker = true
		case "--list":
			list = true
		case "--workers":
			nworkers, _ = strconv.Atoi(next())
		case "--seed":
			seed, _ = strconv.ParseInt(next(), 10, 64)
		case "--deadline":
			deadlineNs, _ = strconv.ParseInt(next(), 10, 64)
		default:
			usage()
		}
	}
	if tier != "quick" && tier != "thorough" {
		usage()
	}
	if tier == "thorough" && os.Getenv("VERIF_PRUNE") != "0" {
		pruneBonus = 1
	}
	switch {
	case worker:
		workerMain(prop, tier, seed, time.Unix(0, deadlineNs), verifDir)
	case list:
		for i, s := range prop.Scenarios(tier) {
			fmt.Println(i, s.Name)
		}
	case replay != "":
		knownList = nil
		b, err := os.ReadFile(replay)
		if err != nil {
			fmt.Fprintln(os.Stderr, err)
			os.Exit(2)
		}
		var rep struct {
			Scenario string          `json:"scenario"`
			Tier     string          `json:"tier"`
			Choices  []int           `json:"choices"`
			Observed json.RawMessage `json:"observed"`
		}
		if err := json.Unmarshal(b, &rep); err != nil {
			fmt.Fprintln(os.Stderr, err)
			os.Exit(2)
		}
		if rep.Tier != "" {
			tier = rep.Tier
		}
		for _, s := range prop.Scenarios(tier) {
			if s.Name == rep.Scenario {
				if s.Replay == nil {
					fmt.Println("scenario has no replay function; re-run the check with --only", s.Name)
					os.Exit(2)
				}
				msg := s.Replay(rep.Choices, rep.Observed, os.Stdout)
				if msg != "" {
					fmt.Println("REPRODUCED:", msg)
					os.Exit(1)
				}
				fmt.Println("not reproduced")
				os.Exit(0)
			}
		}
		fmt.Fprintln(os.Stderr, "scenario not found:", rep.Scenario)
		os.Exit(2)
	default:
		os.Exit(parentMain(prop, tier, seed, verifDir, nworkers, only))
	}
}
