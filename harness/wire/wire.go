// Package wire is an independent, table-driven 9P2000 / 9P2000.u codec written
// from the protocol description (intro(5) and the 9P2000.u extension note). It
// shares no code with go9p and is the reference every oracle decodes with.
package wire

import (
	"encoding/binary"
	"fmt"
	"reflect"
)

const (
	Tversion = 100 + iota
	Rversion
	Tauth
	Rauth
	Tattach
	Rattach
	Terror
	Rerror
	Tflush
	Rflush
	Twalk
	Rwalk
	Topen
	Ropen
	Tcreate
	Rcreate
	Tread
	Rread
	Twrite
	Rwrite
	Tclunk
	Rclunk
	Tremove
	Rremove
	Tstat
	Rstat
	Twstat
	Rwstat
)

const (
	NOTAG = 0xFFFF
	NOFID = 0xFFFFFFFF
)

var Names = map[uint8]string{100: "Tversion", 101: "Rversion", 102: "Tauth", 103: "Rauth", 104: "Tattach", 105: "Rattach", 106: "Terror", 107: "Rerror", 108: "Tflush", 109: "Rflush", 110: "Twalk", 111: "Rwalk", 112: "Topen", 113: "Ropen", 114: "Tcreate", 115: "Rcreate", 116: "Tread", 117: "Rread", 118: "Twrite", 119: "Rwrite", 120: "Tclunk", 121: "Rclunk", 122: "Tremove", 123: "Rremove", 124: "Tstat", 125: "Rstat", 126: "Twstat", 127: "Rwstat"}

type Qid struct {
	Type uint8
	Vers uint32
	Path uint64
}

type Stat struct {
	Size   uint16 // bytes that follow the size field
	Type   uint16
	Dev    uint32
	Qid    Qid
	Mode   uint32
	Atime  uint32
	Mtime  uint32
	Length uint64
	Name   string
	Uid    string
	Gid    string
	Muid   string
	// 9P2000.u
	Ext   string
	NUid  uint32
	NGid  uint32
	NMuid uint32
}

// Msg holds every field of every message; only those in the type's layout are meaningful.
type Msg struct {
	Size      uint32
	Type      uint8
	Tag       uint16
	Msize     uint32
	Version   string
	Afid      uint32
	Fid       uint32
	Newfid    uint32
	Uname     string
	Aname     string
	NUname    uint32
	HasNUname bool // .u Tauth/Tattach carried the trailing n_uname
	Qid       Qid
	Ename     string
	Errno     uint32
	Oldtag    uint16
	Wname     []string
	Wqid      []Qid
	Mode      uint8
	Iounit    uint32
	Name      string
	Perm      uint32
	Ext       string
	Offset    uint64
	Count     uint32
	Data      []byte
	Stat      Stat
	StatN     uint16 // the n[2] preceding a stat
}

type kind int

const (
	u8 kind = iota
	u16
	u32
	u64
	str
	qid
	names   // n[2] n*(s)
	qids    // n[2] n*(qid)
	data    // count[4] data[count]
	stat    // n[2] stat
	nuname  // optional trailing u32, .u only
	strU    // string, .u only
	u32U    // u32, .u only
)

type fld struct {
	k    kind
	name string
}

var layout = map[uint8][]fld{
	Tversion: {{u32, "Msize"}, {str, "Version"}},
	Rversion: {{u32, "Msize"}, {str, "Version"}},
	Tauth:    {{u32, "Afid"}, {str, "Uname"}, {str, "Aname"}, {nuname, "NUname"}},
	Rauth:    {{qid, "Qid"}},
	Tattach:  {{u32, "Fid"}, {u32, "Afid"}, {str, "Uname"}, {str, "Aname"}, {nuname, "NUname"}},
	Rattach:  {{qid, "Qid"}},
	Rerror:   {{str, "Ename"}, {u32U, "Errno"}},
	Tflush:   {{u16, "Oldtag"}},
	Rflush:   {},
	Twalk:    {{u32, "Fid"}, {u32, "Newfid"}, {names, "Wname"}},
	Rwalk:    {{qids, "Wqid"}},
	Topen:    {{u32, "Fid"}, {u8, "Mode"}},
	Ropen:    {{qid, "Qid"}, {u32, "Iounit"}},
	Tcreate:  {{u32, "Fid"}, {str, "Name"}, {u32, "Perm"}, {u8, "Mode"}, {strU, "Ext"}},
	Rcreate:  {{qid, "Qid"}, {u32, "Iounit"}},
	Tread:    {{u32, "Fid"}, {u64, "Offset"}, {u32, "Count"}},
	Rread:    {{data, "Data"}},
	Twrite:   {{u32, "Fid"}, {u64, "Offset"}, {data, "Data"}},
	Rwrite:   {{u32, "Count"}},
	Tclunk:   {{u32, "Fid"}},
	Rclunk:   {},
	Tremove:  {{u32, "Fid"}},
	Rremove:  {},
	Tstat:    {{u32, "Fid"}},
	Rstat:    {{stat, "Stat"}},
	Twstat:   {{u32, "Fid"}, {stat, "Stat"}},
	Rwstat:   {},
}

var statLayout = []fld{{u16, "Type"}, {u32, "Dev"}, {qid, "Qid"}, {u32, "Mode"}, {u32, "Atime"}, {u32, "Mtime"}, {u64, "Length"}, {str, "Name"}, {str, "Uid"}, {str, "Gid"}, {str, "Muid"}, {strU, "Ext"}, {u32U, "NUid"}, {u32U, "NGid"}, {u32U, "NMuid"}}

// Layout returns the field names of a message type in wire order for a dialect.
func Layout(t uint8, dotu bool) []string {
	var out []string
	for _, f := range layout[t] {
		if (f.k == strU || f.k == u32U || f.k == nuname) && !dotu {
			continue
		}
		out = append(out, f.name)
	}
	return out
}

func Known(t uint8) bool { _, ok := layout[t]; return ok }

var le = binary.LittleEndian

func putStr(b []byte, s string) []byte {
	b = le.AppendUint16(b, uint16(len(s)))
	return append(b, s...)
}

func putQid(b []byte, q Qid) []byte {
	b = append(b, q.Type)
	b = le.AppendUint32(b, q.Vers)
	return le.AppendUint64(b, q.Path)
}

func encFields(b []byte, v reflect.Value, fs []fld, dotu bool, m *Msg) []byte {
	for _, f := range fs {
		fv := v.FieldByName(f.name)
		switch f.k {
		case u8:
			b = append(b, uint8(fv.Uint()))
		case u16:
			b = le.AppendUint16(b, uint16(fv.Uint()))
		case u32:
			b = le.AppendUint32(b, uint32(fv.Uint()))
		case u64:
			b = le.AppendUint64(b, fv.Uint())
		case str:
			b = putStr(b, fv.String())
		case strU:
			if dotu {
				b = putStr(b, fv.String())
			}
		case u32U:
			if dotu {
				b = le.AppendUint32(b, uint32(fv.Uint()))
			}
		case nuname:
			if dotu && m.HasNUname {
				b = le.AppendUint32(b, uint32(fv.Uint()))
			}
		case qid:
			b = putQid(b, fv.Interface().(Qid))
		case names:
			ns := fv.Interface().([]string)
			b = le.AppendUint16(b, uint16(len(ns)))
			for _, n := range ns {
				b = putStr(b, n)
			}
		case qids:
			qs := fv.Interface().([]Qid)
			b = le.AppendUint16(b, uint16(len(qs)))
			for _, q := range qs {
				b = putQid(b, q)
			}
		case data:
			d := fv.Bytes()
			b = le.AppendUint32(b, uint32(len(d)))
			b = append(b, d...)
		case stat:
			sb := EncodeStat(fv.Addr().Interface().(*Stat), dotu)
			b = le.AppendUint16(b, uint16(len(sb)))
			b = append(b, sb...)
		}
	}
	return b
}

// EncodeStat renders a stat record (including its own size[2]).
func EncodeStat(s *Stat, dotu bool) []byte {
	body := encFields(nil, reflect.ValueOf(s).Elem(), statLayout, dotu, nil)
	b := le.AppendUint16(nil, uint16(len(body)))
	return append(b, body...)
}

// Encode renders a message. Size is computed; m.Tag is used as is.
func Encode(m *Msg, dotu bool) []byte {
	fs, ok := layout[m.Type]
	if !ok {
		panic(fmt.Sprintf("wire: unknown type %d", m.Type))
	}
	b := make([]byte, 4, 64)
	b = append(b, m.Type)
	b = le.AppendUint16(b, m.Tag)
	b = encFields(b, reflect.ValueOf(m).Elem(), fs, dotu, m)
	le.PutUint32(b, uint32(len(b)))
	return b
}

type rd struct {
	b   []byte
	err error
}

func (r *rd) take(n int) []byte {
	if r.err != nil {
		return nil
	}
	if n < 0 || len(r.b) < n {
		r.err = fmt.Errorf("short: need %d have %d", n, len(r.b))
		return nil
	}
	x := r.b[:n]
	r.b = r.b[n:]
	return x
}

func (r *rd) u8() uint8 {
	if x := r.take(1); x != nil {
		return x[0]
	}
	return 0
}
func (r *rd) u16() uint16 {
	if x := r.take(2); x != nil {
		return le.Uint16(x)
	}
	return 0
}
func (r *rd) u32() uint32 {
	if x := r.take(4); x != nil {
		return le.Uint32(x)
	}
	return 0
}
func (r *rd) u64() uint64 {
	if x := r.take(8); x != nil {
		return le.Uint64(x)
	}
	return 0
}
func (r *rd) str() string { n := r.u16(); return string(r.take(int(n))) }
func (r *rd) qid() Qid    { return Qid{r.u8(), r.u32(), r.u64()} }

func decFields(r *rd, v reflect.Value, fs []fld, dotu bool, m *Msg) {
	for _, f := range fs {
		if r.err != nil {
			return
		}
		fv := v.FieldByName(f.name)
		switch f.k {
		case u8:
			fv.SetUint(uint64(r.u8()))
		case u16:
			fv.SetUint(uint64(r.u16()))
		case u32:
			fv.SetUint(uint64(r.u32()))
		case u64:
			fv.SetUint(r.u64())
		case str:
			fv.SetString(r.str())
		case strU:
			if dotu {
				fv.SetString(r.str())
			}
		case u32U:
			if dotu {
				fv.SetUint(uint64(r.u32()))
			}
		case nuname:
			fv.SetUint(NOFID)
			if dotu && len(r.b) > 0 {
				m.HasNUname = true
				fv.SetUint(uint64(r.u32()))
			}
		case qid:
			fv.Set(reflect.ValueOf(r.qid()))
		case names:
			n := int(r.u16())
			if n*2 > len(r.b) {
				r.err = fmt.Errorf("nwname %d exceeds body", n)
				return
			}
			ns := make([]string, 0, n)
			for i := 0; i < n && r.err == nil; i++ {
				ns = append(ns, r.str())
			}
			fv.Set(reflect.ValueOf(ns))
		case qids:
			n := int(r.u16())
			if n*13 > len(r.b) {
				r.err = fmt.Errorf("nwqid %d exceeds body", n)
				return
			}
			qs := make([]Qid, 0, n)
			for i := 0; i < n && r.err == nil; i++ {
				qs = append(qs, r.qid())
			}
			fv.Set(reflect.ValueOf(qs))
		case data:
			n := r.u32()
			if uint64(n) > uint64(len(r.b)) {
				r.err = fmt.Errorf("count %d exceeds body %d", n, len(r.b))
				return
			}
			d := r.take(int(n))
			m.Count = n
			fv.SetBytes(append([]byte{}, d...))
		case stat:
			n := r.u16()
			m.StatN = n
			sb := r.take(int(n))
			if r.err != nil {
				return
			}
			st, rest, err := DecodeStat(sb, dotu)
			if err != nil {
				r.err = err
				return
			}
			if len(rest) != 0 {
				r.err = fmt.Errorf("stat[n]: %d stray bytes", len(rest))
				return
			}
			fv.Set(reflect.ValueOf(*st))
		}
	}
}

// DecodeStat parses one stat record from the front of b, strictly.
func DecodeStat(b []byte, dotu bool) (*Stat, []byte, error) {
	r := &rd{b: b}
	sz := r.u16()
	body := r.take(int(sz))
	if r.err != nil {
		return nil, nil, r.err
	}
	s := &Stat{Size: sz}
	br := &rd{b: body}
	decFields(br, reflect.ValueOf(s).Elem(), statLayout, dotu, nil)
	if br.err != nil {
		return nil, nil, br.err
	}
	if len(br.b) != 0 {
		return nil, nil, fmt.Errorf("stat: %d stray bytes inside record", len(br.b))
	}
	return s, r.b, nil
}

// Decode parses exactly one message from the front of b, strictly: the size
// field must cover exactly the fields of the type's layout.
func Decode(b []byte, dotu bool) (*Msg, int, error) {
	if len(b) < 7 {
		return nil, 0, fmt.Errorf("short header: %d bytes", len(b))
	}
	sz := le.Uint32(b)
	if sz < 7 || uint64(sz) > uint64(len(b)) {
		return nil, 0, fmt.Errorf("bad size %d (have %d)", sz, len(b))
	}
	m := &Msg{Size: sz, Type: b[4], Tag: le.Uint16(b[5:])}
	fs, ok := layout[m.Type]
	if !ok {
		return nil, 0, fmt.Errorf("unknown type %d", m.Type)
	}
	r := &rd{b: b[7:sz]}
	decFields(r, reflect.ValueOf(m).Elem(), fs, dotu, m)
	if r.err != nil {
		return nil, 0, fmt.Errorf("%s: %v", Names[m.Type], r.err)
	}
	if len(r.b) != 0 {
		return nil, 0, fmt.Errorf("%s: %d stray bytes", Names[m.Type], len(r.b))
	}
	return m, int(sz), nil
}

// Split cuts a byte stream into frames using only the size prefix.
func Split(b []byte) (frames [][]byte, rest []byte) {
	for len(b) >= 4 {
		sz := le.Uint32(b)
		if sz < 7 || uint64(sz) > uint64(len(b)) {
			break
		}
		frames = append(frames, b[:sz])
		b = b[sz:]
	}
	return frames, b
}

func (m *Msg) String() string {
	s := fmt.Sprintf("%s tag=%d", Names[m.Type], m.Tag)
	for _, f := range Layout(m.Type, true) {
		v := reflect.ValueOf(m).Elem().FieldByName(f)
		if f == "Data" {
			s += fmt.Sprintf(" Data[%d]", v.Len())
			continue
		}
		if f == "Stat" {
			s += fmt.Sprintf(" Stat{%q mode=%o len=%d}", m.Stat.Name, m.Stat.Mode, m.Stat.Length)
			continue
		}
		s += fmt.Sprintf(" %s=%v", f, v.Interface())
	}
	return s
}
