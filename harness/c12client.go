package main

import (
	"fmt"

	"github.com/rminnich/go9p"
	"github.com/rminnich/go9p/vs"
	"harness/wire"
)

// client direction of C12: Connect against a scripted peer
func c12ClientScenario(cliMsize uint32, cliDotu bool) Scenario {
	name := fmt.Sprintf("client-connect msize=%d dotu=%v", cliMsize, cliDotu)
	return Scenario{Name: name, Run: func(rc *RunCtx) *Result {
		res := &Result{Exhaustive: true}
		seen := map[string]bool{}
		answers := []uint32{24, cliMsize - 1, cliMsize, cliMsize + 1, cliMsize / 2, 1 << 20, ^uint32(0)}
		vers := []string{"9P2000", "9P2000.u", "unknown", "9P2000.L"}
		for _, am := range answers {
			if am < 24 {
				continue
			}
			for _, av := range vers {
				var bad string
				body := func() {
					resetClientGlobals()
					ce, se := vs.Pipe("clnt", "peer")
					peer := NewPeer(se, false)
					peer.VersionMsize, peer.VersionStr = am, av
					wantM := cliMsize
					if am < wantM {
						wantM = am
					}
					wantU := cliDotu && av == "9P2000.u"
					peer.DotuAfterVersion = &wantU
					vs.Go("peer", peer.Serve)
					c, err := go9p.Connect(ce, cliMsize, cliDotu)
					if err != nil {
						bad = fmt.Sprintf("Connect failed: %v", err)
						return
					}
					if c.Msize != wantM {
						bad = fmt.Sprintf("Clnt.Msize = %d after the server answered %d to a request for %d", c.Msize, am, cliMsize)
						return
					}
					if c.Dotu != wantU {
						bad = fmt.Sprintf("Clnt.Dotu = %v after the server answered %q (asked for .u: %v)", c.Dotu, av, cliDotu)
						return
					}
					// later request frames stay within msize
					f := mkFid(c, 5)
					if err := c.Open(f, go9p.ORDWR); err != nil {
						bad = "Open: " + err.Error()
						return
					}
					data := make([]byte, 3*int(cliMsize)+7)
					if _, err := c.Write(f, data, 0); err != nil && wantM > 24 {
						bad = "Write: " + err.Error()
						return
					}
					c.Read(f, 0, ^uint32(0))
					if uint32(peer.MaxFrame) > wantM {
						bad = fmt.Sprintf("the client sent a frame of %d bytes, msize is %d", peer.MaxFrame, wantM)
						return
					}
					for _, m := range peer.Seen {
						if m.Type == wire.Tread && m.Count > wantM-24 {
							bad = fmt.Sprintf("Tread asks for %d bytes, msize-IOHDRSZ is %d", m.Count, wantM-24)
						}
					}
					if peer.BadFrame != "" {
						bad = "the peer could not parse a request in the negotiated dialect: " + peer.BadFrame
					}
				}
				x := vs.Run(nil, body, vs.Options{})
				res.Evals++
				res.Nontrivial++
				if len(x.Panics) > 0 {
					bad = "panic: " + x.Panics[0].Value
				}
				if bad != "" {
					sig := "C12/client/" + sigWords(bad)
					if !seen[sig] {
						seen[sig] = true
						res.Findings = append(res.Findings, Finding{Sig: sig, Msg: fmt.Sprintf("%s, server answers (msize %d, %q): %s", name, am, av, bad)})
					}
				}
			}
		}
		res.Samples = append(res.Samples, fmt.Sprintf("Connect(msize %d, dotu %v) against Rversion msize %v x version %v, then Open/Write(3*msize)/Read(2^32-1)", cliMsize, cliDotu, answers, vers))
		return res
	}}
}

func c12ClientScenarios(tier string) []Scenario {
	var out []Scenario
	for _, ms := range []uint32{64, 256, 8216, 65560} {
		for _, d := range []bool{false, true} {
			out = append(out, c12ClientScenario(ms, d))
		}
	}
	return out
}
