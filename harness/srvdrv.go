package main

import (
	"sort"
	"fmt"
	"strings"

	"github.com/rminnich/go9p"
	"github.com/rminnich/go9p/vs"
	"harness/wire"
)

// SrvH is a go9p server under test with a scripted implementation.
type SrvH struct {
	Srv  *go9p.Srv
	FS   *FS
	Clis []*Cli
}

type SrvOpt struct {
	Msize   uint32
	Dotu    bool
	Maxpend int
	Auth    bool
	Flush   bool
	Debug   int
	Locked    bool // the implementation serialises its operations with a lock of its own, held until the operation (answer included) returns
	NoConnOps bool // the implementation has FidDestroy but neither ConnOpened nor ConnClosed (like the library's own Fsrv)
	ReqHooks  bool // the implementation has SrvReqProcess / SrvReqRespond and builds the final form of some replies in the latter
}

// fsLocked is a scripted implementation whose every operation runs under one lock of
// its own, taken on entry and released when the operation returns - after it has
// answered. (A lock owned by the scheduler: a goroutine waiting for it is parked.)
type fsLocked struct {
	*FS
	mu *vs.Sem
}

func (l fsLocked) with(f func(*go9p.SrvReq), r *go9p.SrvReq) {
	l.mu.Acquire()
	defer l.mu.Release()
	f(r)
}
func (l fsLocked) Attach(r *go9p.SrvReq) { l.with(l.FS.Attach, r) }
func (l fsLocked) Walk(r *go9p.SrvReq)   { l.with(l.FS.Walk, r) }
func (l fsLocked) Open(r *go9p.SrvReq)   { l.with(l.FS.Open, r) }
func (l fsLocked) Create(r *go9p.SrvReq) { l.with(l.FS.Create, r) }
func (l fsLocked) Read(r *go9p.SrvReq)   { l.with(l.FS.Read, r) }
func (l fsLocked) Write(r *go9p.SrvReq)  { l.with(l.FS.Write, r) }
func (l fsLocked) Clunk(r *go9p.SrvReq)  { l.with(l.FS.Clunk, r) }
func (l fsLocked) Remove(r *go9p.SrvReq) { l.with(l.FS.Remove, r) }
func (l fsLocked) Stat(r *go9p.SrvReq)   { l.with(l.FS.Stat, r) }
func (l fsLocked) Wstat(r *go9p.SrvReq)  { l.with(l.FS.Wstat, r) }

// fsReqHooks is a scripted implementation that also looks at every request before it is
// processed and at every reply before it is sent (SrvReqProcessOps); stat and error
// replies are packed again there, with the same content (an implementation that
// redacts or translates replies does this with other content).
type fsReqHooks struct {
	*FS
}

// RespondGate: the next SrvReqRespond call made for a cancelled request parks here (an
// implementation that is slow there, e.g. because it logs or accounts for the request)
var RespondGate *vs.Sem

func (h fsReqHooks) SrvReqProcess(r *go9p.SrvReq) { r.Process() }
func (h fsReqHooks) SrvReqRespond(r *go9p.SrvReq) {
	if g := RespondGate; g != nil && r.Rc != nil && r.Rc.Type == 0 {
		RespondGate = nil
		g.Acquire()
	}
	if rc := r.Rc; rc != nil {
		switch rc.Type {
		case go9p.Rstat:
			d := rc.Dir
			go9p.PackRstat(rc, &d, r.Conn.Dotu)
		case go9p.Rerror:
			go9p.PackRerror(rc, rc.Error, rc.Errornum, r.Conn.Dotu)
		}
	}
	r.PostProcess()
}

// fsNoConn shows the framework the request and fid operations of a scripted
// implementation and nothing else.
type fsNoConn struct {
	go9p.SrvReqOps
	go9p.SrvFidOps
}

func NewSrvH(fs *FS, o SrvOpt) *SrvH {
	resetPlainGlobals()
	RespondGate = nil
	s := &go9p.Srv{Msize: o.Msize, Dotu: o.Dotu, Maxpend: o.Maxpend, Debuglevel: o.Debug}
	s.Id = "srv"
	s.Upool = newUsers()
	var ops interface{} = fs.ops(o.Auth, o.Flush)
	if o.NoConnOps {
		ops = fsNoConn{fs, fs}
	}
	if o.Locked {
		ops = fsLocked{fs, vs.NewSem(1)}
	}
	if o.ReqHooks {
		ops = fsReqHooks{fs}
	}
	if !s.Start(ops) {
		panic("Srv.Start refused the scripted implementation")
	}
	return &SrvH{Srv: s, FS: fs}
}

// Frame is one reply frame as written by the server.
type Frame struct {
	Seq int64 // sequence number of the transport write carrying its first byte
	Off int   // stream offset of its first byte
	Raw []byte
	Msg *wire.Msg // nil if it does not parse in the connection's dialect
	Err string
}

// Cli drives one client connection with raw frames.
type Cli struct {
	Idx    int
	End    *vs.End // client side
	SrvEnd *vs.End // server side (for segmentation policies and faults)
	Dotu   bool    // dialect used to decode replies (set after version)
	Msize  uint32
	parsed int // bytes of the reply stream already split into frames
	cWrites int
	cStream []byte
	cMarks  []cmark
	cDotu   bool
	Frames []Frame
	Junk   []byte // unparseable tail
}

// Connect opens a new connection to the server.
func (h *SrvH) Connect() *Cli {
	ce, se := vs.Pipe(fmt.Sprintf("cli%d", len(h.Clis)), fmt.Sprintf("srv%d", len(h.Clis)))
	ce.SinkIncoming()
	c := &Cli{Idx: len(h.Clis), End: ce, SrvEnd: se}
	h.Clis = append(h.Clis, c)
	h.Srv.NewConn(se)
	return c
}

// Send writes the messages in one transport write (a scheduling point).
func (c *Cli) Send(dotu bool, ms ...*wire.Msg) {
	var b []byte
	for _, m := range ms {
		b = append(b, wire.Encode(m, dotu)...)
	}
	c.End.Write(b)
}

func (c *Cli) SendRaw(b []byte) { c.End.Write(b) }

// Collect splits everything the server has written so far into frames. The work done
// by earlier calls is kept (as long as the dialect the replies are decoded in has not
// changed since).
func (c *Cli) Collect() []Frame {
	rec := c.End.Received()
	if c.cDotu != c.Dotu || c.cWrites > len(rec) {
		c.cWrites, c.cStream, c.cMarks, c.parsed, c.Frames, c.cDotu = 0, nil, nil, 0, nil, c.Dotu
	}
	for _, w := range rec[c.cWrites:] {
		c.cMarks = append(c.cMarks, cmark{w.Off, w.Seq})
		c.cStream = append(c.cStream, w.Data...)
	}
	c.cWrites = len(rec)
	stream := c.cStream
	seqAt := func(off int) int64 {
		i := sort.Search(len(c.cMarks), func(i int) bool { return c.cMarks[i].off > off })
		if i == 0 {
			return 0
		}
		return c.cMarks[i-1].seq
	}
	off := c.parsed
	for off+4 <= len(stream) {
		sz := int(uint32(stream[off]) | uint32(stream[off+1])<<8 | uint32(stream[off+2])<<16 | uint32(stream[off+3])<<24)
		if sz < 7 || off+sz > len(stream) {
			break
		}
		raw := append([]byte{}, stream[off:off+sz]...)
		f := Frame{Seq: seqAt(off), Off: off, Raw: raw}
		m, _, err := wire.Decode(raw, c.Dotu)
		if err != nil {
			f.Err = err.Error()
		} else {
			f.Msg = m
		}
		c.Frames = append(c.Frames, f)
		off += sz
	}
	c.parsed = off
	c.Junk = stream[off:]
	return c.Frames
}

type cmark struct {
	off int
	seq int64
}

// Rpc sends one request, waits until nothing else can run, and returns the
// (single) new reply frame carrying the request's tag, or nil.
func (c *Cli) Rpc(m *wire.Msg) *wire.Msg {
	before := len(c.Collect())
	c.Send(c.Dotu, m)
	vs.Idle()
	fr := c.Collect()
	for _, f := range fr[before:] {
		if f.Msg != nil && f.Msg.Tag == m.Tag {
			return f.Msg
		}
	}
	return nil
}

// Version negotiates (outside any window) and records dialect and msize.
func (c *Cli) Version(msize uint32, ver string) *wire.Msg {
	r := c.Rpc(&wire.Msg{Type: wire.Tversion, Tag: wire.NOTAG, Msize: msize, Version: ver})
	if r != nil && r.Type == wire.Rversion {
		c.Dotu = r.Version == "9P2000.u"
		c.Msize = r.Msize
	}
	return r
}

func tattach(tag uint16, fid, afid uint32, uname string, uid uint32, dotu bool) *wire.Msg {
	return &wire.Msg{Type: wire.Tattach, Tag: tag, Fid: fid, Afid: afid, Uname: uname, Aname: "", NUname: uid, HasNUname: dotu}
}

func twalk(tag uint16, fid, newfid uint32, names ...string) *wire.Msg {
	return &wire.Msg{Type: wire.Twalk, Tag: tag, Fid: fid, Newfid: newfid, Wname: names}
}

func framesString(fs []Frame) string {
	var sb strings.Builder
	for _, f := range fs {
		if f.Msg != nil {
			fmt.Fprintf(&sb, "@%d(seq %d) %s\n", f.Off, f.Seq, f.Msg)
		} else {
			fmt.Fprintf(&sb, "@%d(seq %d) UNPARSEABLE %s: % x\n", f.Off, f.Seq, f.Err, f.Raw)
		}
	}
	return sb.String()
}

// libParked filters the goroutines parked at quiescence down to those that are
// not expected to wait forever: the logger goroutine(s) and, for every
// connection that is still open, its reader (in Read) and writer (in select).
func unexpectedParked(x *vs.Exec, allow func(p vs.Parked) bool) []vs.Parked {
	var out []vs.Parked
	for _, p := range x.Parked {
		if strings.HasPrefix(p.Site, "log.go:") {
			continue
		}
		if allow != nil && allow(p) {
			continue
		}
		out = append(out, p)
	}
	return out
}
