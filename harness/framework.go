package main

import (
	"bufio"
	"crypto/sha1"
	"encoding/json"
	"fmt"
	"io"
	"log"
	"os"
	"os/exec"
	"path/filepath"
	"sort"
	"strings"
	"sync"
	"time"

	"github.com/rminnich/go9p/vs"
)

// RunCtx is handed to every scenario.
type RunCtx struct {
	Tier     string
	Deadline time.Time
	Seed     int64
}

func (c *RunCtx) Thorough() bool { return c.Tier == "thorough" }
func (c *RunCtx) Expired() bool  { return time.Now().After(c.Deadline) }

// Finding is one violation of a property, identified by a signature that is
// specific enough to tell different root causes apart.
type Finding struct {
	Sig      string `json:"signature"`
	Msg      string `json:"msg"`
	Scenario string `json:"scenario"`
	Picks    []int  `json:"choices,omitempty"`
	Detail   any    `json:"observed,omitempty"`
}

// Result of one scenario.
type Result struct {
	Scenario    string           `json:"scenario"`
	Evals       int64            `json:"evals"`
	Nontrivial  int64            `json:"nontrivial"`
	States      int64            `json:"states"`
	Transitions int64            `json:"transitions"`
	Traces      int64            `json:"traces"`
	Exhaustive  bool             `json:"exhaustive"`
	CapHit      string           `json:"cap_hit,omitempty"`
	Findings    []Finding        `json:"findings,omitempty"`
	Samples     []any            `json:"samples,omitempty"`
	Extra       map[string]int64 `json:"extra,omitempty"`
	Bounds      map[string]any   `json:"bounds,omitempty"`
	WallS       float64          `json:"wall_s"`
}

func (r *Result) addExtra(k string, n int64) {
	if r.Extra == nil {
		r.Extra = map[string]int64{}
	}
	r.Extra[k] += n
}

// Scenario is one unit of work (run in a worker process).
type Scenario struct {
	Name   string
	Run    func(c *RunCtx) *Result
	Replay func(picks []int, detail json.RawMessage, w io.Writer) string // returns violation message or ""
}

// Property registers the scenarios deciding one property.
type Property struct {
	ID          string
	Level       string
	Technique   string
	Rule        string
	Assumptions []string
	Scenarios   func(tier string) []Scenario
	QuickS      int // internal deadline, seconds
	ThoroughS   int
}

var registry = map[string]*Property{}

func register(p *Property) { registry[p.ID] = p }

type knownFinding struct {
	Property  string `json:"property"`
	Signature string `json:"signature"`
	Status    string `json:"status"`
	What      string `json:"what"`
	Where     string `json:"where,omitempty"`
	Commit    string `json:"commit,omitempty"`
}

func loadKnown(verifDir string) []knownFinding {
	b, err := os.ReadFile(filepath.Join(verifDir, "known_findings.json"))
	if err != nil {
		return nil
	}
	var k []knownFinding
	if err := json.Unmarshal(b, &k); err != nil {
		fmt.Fprintf(os.Stderr, "known_findings.json: %v\n", err)
		os.Exit(2)
	}
	return k
}

func matchKnown(ks []knownFinding, prop, sig string) *knownFinding {
	for i := range ks {
		k := &ks[i]
		if k.Property != prop || k.Status != "known" {
			continue
		}
		if k.Signature == sig {
			return k
		}
		if strings.HasSuffix(k.Signature, "*") && strings.HasPrefix(sig, strings.TrimSuffix(k.Signature, "*")) {
			return k
		}
	}
	return nil
}

// ---------------------------------------------------------------------------
// worker side

func workerMain(prop *Property, tier string, seed int64, deadline time.Time, verifDir string) {
	knownList = loadKnown(verifDir)
	out := os.NewFile(3, "results")
	if out == nil {
		fmt.Fprintln(os.Stderr, "worker: fd 3 missing")
		os.Exit(2)
	}
	devnull, _ := os.OpenFile("/dev/null", os.O_WRONLY, 0)
	os.Stdout = devnull
	log.SetOutput(io.Discard)
	scs := prop.Scenarios(tier)
	in := bufio.NewScanner(os.Stdin)
	enc := json.NewEncoder(out)
	for in.Scan() {
		var idx int
		var sliceMs int64
		fmt.Sscan(in.Text(), &idx, &sliceMs)
		if idx < 0 || idx >= len(scs) {
			os.Exit(2)
		}
		t0 := time.Now()
		ctx := &RunCtx{Tier: tier, Deadline: deadline, Seed: seed}
		if sliceMs > 0 {
			if d := t0.Add(time.Duration(sliceMs) * time.Millisecond); d.Before(deadline) {
				ctx.Deadline = d
			}
		}
		res := scs[idx].Run(ctx)
		res.Scenario = scs[idx].Name
		res.WallS = time.Since(t0).Seconds()
		for i := range res.Findings {
			if res.Findings[i].Scenario == "" {
				res.Findings[i].Scenario = res.Scenario
			}
		}
		if err := enc.Encode(res); err != nil {
			fmt.Fprintf(os.Stderr, "worker: encode: %v\n", err)
			os.Exit(2)
		}
	}
}

// ---------------------------------------------------------------------------
// parent side

type evidence struct {
	PropertyID  string         `json:"property_id"`
	Tier        string         `json:"tier"`
	Seed        int64          `json:"seed"`
	Level       string         `json:"level"`
	Coverage    map[string]any `json:"coverage"`
	Assumptions []string       `json:"assumptions"`
	WallS       float64        `json:"wall_s"`
	Violations  int            `json:"violations"`
}

func parentMain(prop *Property, tier string, seed int64, verifDir string, nworkers int, only string) int {
	t0 := time.Now()
	secs := prop.QuickS
	if tier == "thorough" {
		secs = prop.ThoroughS
	}
	if secs == 0 {
		secs = 90
	}
	if s := os.Getenv("VERIF_BUDGET_S"); s != "" {
		fmt.Sscan(s, &secs)
	}
	deadline := t0.Add(time.Duration(secs) * time.Second)
	scs := prop.Scenarios(tier)
	order := make([]int, 0, len(scs))
	for i := range scs {
		if only == "" || strings.Contains(scs[i].Name, only) {
			order = append(order, i)
		}
	}
	// the seed only permutes the order in which scenarios are handed out
	if seed != 0 {
		r := uint64(seed)*0x9E3779B97F4A7C15 + 1
		for i := len(order) - 1; i > 0; i-- {
			r ^= r << 13
			r ^= r >> 7
			r ^= r << 17
			j := int(r % uint64(i+1))
			order[i], order[j] = order[j], order[i]
		}
	}
	if nworkers > len(order) {
		nworkers = len(order)
	}
	if nworkers < 1 {
		nworkers = 1
	}
	var mu sync.Mutex
	next := 0
	results := []*Result{}
	byIdx := map[int]*Result{}
	var wg sync.WaitGroup
	self, _ := os.Executable()
	for w := 0; w < nworkers; w++ {
		wg.Add(1)
		go func(w int) {
			defer wg.Done()
			var cmd *exec.Cmd
			var stdin io.WriteCloser
			var resr *bufio.Reader
			var rpipe *os.File
			var stderrBuf *tailBuf
			start := func() {
				pr, pw, _ := os.Pipe()
				cmd = exec.Command("/bin/sh", "-c", fmt.Sprintf("ulimit -v %d; exec \"$0\" \"$@\"", workerMemKB()), self, prop.ID, "--tier", tier, "--worker", "--verif", verifDir, "--seed", fmt.Sprint(seed), "--deadline", fmt.Sprint(deadline.UnixNano()))
				cmd.ExtraFiles = []*os.File{pw}
				stderrBuf = &tailBuf{}
				cmd.Stderr = stderrBuf
				cmd.Env = append(os.Environ(), "GOMAXPROCS=1")
				stdin, _ = cmd.StdinPipe()
				if err := cmd.Start(); err != nil {
					fmt.Fprintf(os.Stderr, "cannot start worker: %v\n", err)
					os.Exit(2)
				}
				pw.Close()
				rpipe = pr
				resr = bufio.NewReaderSize(pr, 1<<20)
			}
			start()
			for {
				mu.Lock()
				if next >= len(order) {
					mu.Unlock()
					break
				}
				idx := order[next]
				left := len(order) - next
				next++
				mu.Unlock()
				// thorough tier: every scenario gets a fair share of what is left of the
				// budget (shares grow as cheap scenarios finish early), so that a few
				// expensive scenarios cannot keep the others from running at all
				var slice time.Duration
				if tier == "thorough" {
					slice = time.Until(deadline) * time.Duration(nworkers) / time.Duration(left)
					if slice < time.Second {
						slice = time.Second
					}
				}
				fmt.Fprintf(stdin, "%d %d\n", idx, int64(slice/time.Millisecond))
				line, err := resr.ReadBytes('\n')
				var res *Result
				if err == nil {
					res = &Result{}
					if e := json.Unmarshal(line, res); e != nil {
						err = e
					}
				}
				if err != nil {
					// the worker died on this scenario
					stdin.Close()
					cmd.Wait()
					rpipe.Close()
					res = &Result{Scenario: scs[idx].Name, Exhaustive: false, CapHit: "worker process aborted"}
					if stderrBuf.outOfMemory() {
						res.CapHit = "memory limit of the worker process"
						fmt.Printf("  worker ran out of memory on: %s\n", scs[idx].Name)
					} else {
						res.Findings = append(res.Findings, Finding{Sig: prop.ID + "/process-aborted/" + sigPart(scs[idx].Name), Msg: "worker process died while running the scenario: " + stderrBuf.String(), Scenario: scs[idx].Name})
					}
					start()
				}
				mu.Lock()
				if prev, again := byIdx[idx]; again {
					// second attempt of a scenario whose first time slice ran out: keep the better one
					if betterResult(res, prev) {
						*prev = *res
					}
				} else {
					byIdx[idx] = res
					results = append(results, res)
					// thorough tier: a scenario cut off by its slice gets another, larger one from
					// whatever the cheaper scenarios left over
					if tier == "thorough" && !res.Exhaustive && res.CapHit == "internal deadline" && len(res.Findings) == 0 && time.Until(deadline) > 30*time.Second {
						order = append(order, idx)
					}
				}
				mu.Unlock()
			}
			stdin.Close()
			cmd.Wait()
			rpipe.Close()
		}(w)
	}
	wg.Wait()
	sort.Slice(results, func(i, j int) bool { return results[i].Scenario < results[j].Scenario })

	// merge
	cov := map[string]any{}
	var evals, nontriv, states, trans, traces int64
	exhaustive := true
	caps := map[string]int{}
	extra := map[string]int64{}
	var samples []any
	var findings []Finding
	bounds := map[string]any{}
	for _, r := range results {
		if os.Getenv("VERIF_TIMES") != "" {
			fmt.Printf("  %6.1fs %9d executions  %s\n", r.WallS, r.Evals, r.Scenario)
		}
		evals += r.Evals
		nontriv += r.Nontrivial
		states += r.States
		trans += r.Transitions
		traces += r.Traces
		if !r.Exhaustive {
			exhaustive = false
			caps[r.CapHit]++
			fmt.Printf("  not exhaustive (%s): %s [%d executions, %.0fs]\n", r.CapHit, r.Scenario, r.Evals, r.WallS)
		}
		for k, v := range r.Extra {
			extra[k] += v
		}
		if len(samples) < 6 && len(r.Samples) > 0 {
			samples = append(samples, map[string]any{"scenario": r.Scenario, "case": r.Samples[0]})
		}
		findings = append(findings, r.Findings...)
		// a bound counts as completed only if every scenario that reports it completed it
		for k, v := range r.Bounds {
			old, have := bounds[k]
			switch nv := v.(type) {
			case float64:
				if ov, ok := old.(float64); !have || (ok && nv < ov) {
					bounds[k] = nv
				}
			case int:
				if ov, ok := old.(float64); !have || (ok && float64(nv) < ov) {
					bounds[k] = float64(nv)
				}
			case bool:
				if ov, ok := old.(bool); !have || (ok && ov && !nv) {
					bounds[k] = nv
				}
			default:
				if !have {
					bounds[k] = v
				}
			}
		}
	}
	known := loadKnown(verifDir)
	outDir := verifDir
	if d := os.Getenv("VERIF_OUT_DIR"); d != "" {
		outDir = d // scratch runs against modified trees must not clobber committed evidence
	}
	seenKnown := map[string]bool{}
	nviol := 0
	exit := 0
	seenSig := map[string]bool{}
	for _, f := range findings {
		if seenSig[f.Sig] {
			continue
		}
		seenSig[f.Sig] = true
		if k := matchKnown(known, prop.ID, f.Sig); k != nil {
			if !seenKnown[k.Signature] {
				seenKnown[k.Signature] = true
				fmt.Printf("KNOWN-FINDING: property=%s %s [%s] (%s)\n", prop.ID, k.What, k.Signature, f.Scenario)
			}
			continue
		}
		nviol++
		exit = 1
		h := sha1.Sum([]byte(f.Sig))
		path := filepath.Join(outDir, "replays", fmt.Sprintf("%s-%x.json", prop.ID, h[:5]))
		os.MkdirAll(filepath.Dir(path), 0o755)
		rep := map[string]any{"property": prop.ID, "scenario": f.Scenario, "tier": tier, "signature": f.Sig, "choices": f.Picks, "explanation": f.Msg, "observed": f.Detail}
		b, _ := json.MarshalIndent(rep, "", " ")
		os.WriteFile(path, b, 0o644)
		fmt.Printf("VIOLATION property=%s replay=%s\n", prop.ID, path)
		fmt.Printf("  signature: %s\n  scenario: %s\n  %s\n", f.Sig, f.Scenario, firstLines(f.Msg, 12))
	}
	if len(samples) == 0 {
		samples = append(samples, "no scenario produced a sample")
	}
	cov["evaluations"] = evals
	cov["distinct_nontrivial"] = nontriv
	cov["rule"] = prop.Rule
	cov["samples"] = samples
	cov["states"] = states
	cov["transitions"] = trans
	cov["traces_validated_against_impl"] = traces
	cov["exhaustive"] = exhaustive
	cov["scenarios"] = len(results)
	cov["bounds_completed"] = bounds
	if len(caps) > 0 {
		cov["caps_hit"] = caps
	}
	if len(extra) > 0 {
		cov["counters"] = extra
	}
	var kf []string
	for k := range seenKnown {
		kf = append(kf, k)
	}
	sort.Strings(kf)
	cov["known_findings_seen"] = kf
	ev := evidence{PropertyID: prop.ID, Tier: tier, Seed: seed, Level: prop.Level, Coverage: cov, Assumptions: prop.Assumptions, WallS: time.Since(t0).Seconds(), Violations: nviol}
	b, _ := json.MarshalIndent(ev, "", " ")
	os.MkdirAll(filepath.Join(outDir, "evidence"), 0o755)
	if err := os.WriteFile(filepath.Join(outDir, "evidence", prop.ID+".json"), b, 0o644); err != nil {
		fmt.Fprintf(os.Stderr, "evidence: %v\n", err)
		return 2
	}
	fmt.Printf("%s %s: scenarios=%d evaluations=%d distinct_nontrivial=%d states=%d transitions=%d exhaustive=%v violations=%d known=%d wall=%.1fs\n",
		prop.ID, tier, len(results), evals, nontriv, states, trans, exhaustive, nviol, len(seenKnown), time.Since(t0).Seconds())
	for c, n := range caps {
		fmt.Printf("  cap hit in %d scenario(s): %s\n", n, c)
	}
	return exit
}

func firstLines(s string, n int) string {
	ls := strings.Split(s, "\n")
	if len(ls) > n {
		ls = append(ls[:n], "...")
	}
	return strings.Join(ls, "\n  ")
}

func sigPart(s string) string {
	if i := strings.IndexAny(s, " ,"); i > 0 {
		return s[:i]
	}
	return s
}

type tailBuf struct {
	mu   sync.Mutex
	head []byte // the first bytes: a Go runtime abort names its reason there
	b    []byte // the last bytes
}

func (t *tailBuf) Write(p []byte) (int, error) {
	t.mu.Lock()
	defer t.mu.Unlock()
	if room := 3000 - len(t.head); room > 0 {
		n := len(p)
		if n > room {
			n = room
		}
		t.head = append(t.head, p[:n]...)
		p2 := p[n:]
		t.b = append(t.b, p2...)
	} else {
		t.b = append(t.b, p...)
	}
	if len(t.b) > 4000 {
		t.b = t.b[len(t.b)-4000:]
	}
	return len(p), nil
}

func (t *tailBuf) String() string {
	t.mu.Lock()
	defer t.mu.Unlock()
	if len(t.b) == 0 {
		return string(t.head)
	}
	return string(t.head) + "\n[...]\n" + string(t.b)
}

// outOfMemory: the worker hit its address-space limit (ulimit -v) - a resource cap of
// the machinery, not a behaviour of the code under test.
func (t *tailBuf) outOfMemory() bool {
	s := t.String()
	for _, m := range []string{"out of memory", "cannot allocate memory", "runtime: cannot allocate", "errno=12"} {
		if strings.Contains(s, m) {
			return true
		}
	}
	return false
}

// ---------------------------------------------------------------------------
// generic runner for scheduler scenarios

// VsSpec describes one schedule-exploration scenario.
type VsSpec struct {
	Name   string
	Body   func()
	Check  func(x *vs.Exec) *Viol // nil = fine
	P, D   int                    // bounds to reach (iterated from 0)
	Delay  bool                   // P bounds all deviations from the default scheduler, not only preemptions
	Prune  bool                   // state-key pruning (sound when goroutines communicate only through scheduler-visible operations)
	PruneP int                    // bound to reach when pruning has been validated for the scenario (0 = same as P)
	Sample func() any             // describes the last execution (for evidence)
	MaxExecs int
	Horizon  int  // step horizon per execution (0 = the default)
	Livelock bool // reaching the horizon is a behaviour the check looks at (x.HitHorizon), not a cap
}

// Viol is a property violation seen in one execution.
type Viol struct {
	Sig    string
	Msg    string
	Detail any
}

var knownList []knownFinding

func propOfSig(sig string) string {
	if i := strings.Index(sig, "/"); i > 0 {
		return sig[:i]
	}
	return sig
}

func violString(v *Viol) string {
	if v == nil {
		return ""
	}
	return v.Sig + "\x00" + v.Msg
}

// stdCheck wraps a scenario oracle with the checks common to all scheduler
// scenarios: harness failures and panics in library goroutines.
func stdCheck(propID string, inner func(x *vs.Exec) *Viol, panicOK func(p vs.PanicRec) bool) func(x *vs.Exec) *Viol {
	return func(x *vs.Exec) *Viol {
		for _, p := range x.Panics {
			if panicOK != nil && panicOK(p) {
				continue
			}
			return &Viol{Sig: propID + "/panic/" + p.Frame + "/" + panicClass(p.Value), Msg: fmt.Sprintf("panic in goroutine %d (%s): %s\n%s", p.G, p.Site, p.Value, trimStack(p.Stack))}
		}
		if len(x.Fails) > 0 {
			return &Viol{Sig: propID + "/harness/" + sigPart(x.Fails[0]), Msg: x.Fails[0]}
		}
		return inner(x)
	}
}

func panicClass(v string) string {
	switch {
	case strings.Contains(v, "nil pointer"):
		return "nil-deref"
	case strings.Contains(v, "index out of range"), strings.Contains(v, "slice bounds"):
		return "bounds"
	case strings.Contains(v, "closed channel"):
		return "closed-channel"
	case strings.Contains(v, "makeslice"), strings.Contains(v, "out of memory"):
		return "alloc"
	}
	if len(v) > 40 {
		v = v[:40]
	}
	return v
}

func trimStack(s string) string {
	ls := strings.Split(s, "\n")
	var out []string
	for _, l := range ls {
		if strings.Contains(l, "/vs.") || strings.Contains(l, "/vs/") || strings.Contains(l, "runtime/") {
			continue
		}
		out = append(out, l)
		if len(out) > 24 {
			break
		}
	}
	return strings.Join(out, "\n")
}

// pruneBonus > 0 (thorough tier): scenarios are explored with state-key pruning, if it
// validates on the scenario, to a bound that much higher than the unpruned one.
var pruneBonus int

func runVs(c *RunCtx, sp *VsSpec) *Result {
	res := &Result{Exhaustive: true, Bounds: map[string]any{}}
	declaredP := sp.P
	if c.Thorough() && pruneBonus > 0 && !sp.Prune {
		cp := *sp
		cp.Prune, cp.PruneP = true, sp.P+pruneBonus
		sp = &cp
	}
	if err := vs.SelfTest(sp.Body, 0); err != nil {
		res.Exhaustive = false
		res.CapHit = "determinism self-test failed: " + err.Error()
		return res
	}
	knownSeen := map[string]bool{}
	findHash := os.Getenv("VERIF_FIND_HASH")
	chk := func(x *vs.Exec) string {
		if findHash != "" && fmt.Sprintf("%x", x.Hash()) == findHash {
			f, _ := os.OpenFile("/dev/shm/found_hash.txt", os.O_APPEND|os.O_CREATE|os.O_WRONLY, 0o644)
			fmt.Fprintf(f, "%v\n", x.Picks())
			f.Close()
		}
		v := sp.Check(x)
		if v == nil {
			return ""
		}
		// a listed known finding is reported once and exploration goes on past it
		if k := matchKnown(knownList, propOfSig(v.Sig), v.Sig); k != nil {
			if !knownSeen[v.Sig] {
				knownSeen[v.Sig] = true
				res.Findings = append(res.Findings, Finding{Sig: v.Sig, Msg: v.Msg, Picks: x.Picks(), Detail: v.Detail})
			}
			res.addExtra("executions_showing_known_findings", 1)
			return ""
		}
		return violString(v)
	}
	completedP := -1
	total := &vs.Stats{Exhaustive: true}
	prune := sp.Prune || os.Getenv("VERIF_PRUNE") == "1"
	if os.Getenv("VERIF_PRUNE") == "0" {
		prune = false
	}
	maxP := sp.P
	// State-key pruning assumes that goroutines influence each other only through
	// operations the scheduler sees. It is validated per scenario: the lower bounds
	// (0 and 1) are always explored without it; then the pruned search is run at
	// bound 1 and must produce the same set of behaviours, otherwise pruning is not
	// used and the scenario stops at its declared bound.
	wantPrune := prune && sp.Prune
	vb := 1
	if sp.P < vb {
		vb = sp.P
	}
	if wantPrune {
		prune = false
	}
	for p := 0; p <= maxP; p++ {
		b := vs.Bounds{P: p, D: sp.D, Deadline: c.Deadline, MaxExecs: sp.MaxExecs, Delay: sp.Delay, Prune: prune, Horizon: sp.Horizon, Livelock: sp.Livelock}
		st, v := vs.Explore(sp.Body, chk, b)
		if wantPrune && p == vb && v == nil && st.Exhaustive {
			wantPrune = false
			pruned, v2 := vs.Explore(sp.Body, chk, vs.Bounds{P: vb, D: sp.D, Deadline: c.Deadline, Delay: sp.Delay, Prune: true, Horizon: sp.Horizon, Livelock: sp.Livelock})
			same := v2 == nil && pruned.Exhaustive && len(st.Distinct) == len(pruned.Distinct)
			if same {
				for h := range st.Distinct {
					if !pruned.Distinct[h] {
						same = false
						break
					}
				}
			}
			switch {
			case same:
				res.addExtra("scenarios_with_validated_state_pruning", 1)
				prune = true
				if sp.PruneP > maxP {
					maxP = sp.PruneP
				}
			case v2 == nil && !pruned.Exhaustive:
				res.addExtra("scenarios_where_state_pruning_could_not_be_validated_in_time", 1)
			default:
				res.addExtra("scenarios_where_state_pruning_was_rejected", 1)
			}
		}
		if p == maxP || v != nil || !st.Exhaustive {
			total = st
		}
		if v != nil {
			parts := strings.SplitN(v.Msg, "\x00", 2)
			f := Finding{Sig: parts[0], Msg: parts[1], Picks: v.Picks}
			// re-run for the trace
			x := vs.Run(v.Picks, sp.Body, vs.Options{Trace: true})
			var tr []string
			for _, ev := range x.Trace {
				tr = append(tr, ev.String())
			}
			if len(tr) > 400 {
				tr = tr[len(tr)-400:]
			}
			d := map[string]any{"trace_tail": tr, "preemption_bound": p}
			if vv := sp.Check(x); vv != nil && vv.Detail != nil {
				d["observed"] = vv.Detail
			}
			f.Detail = d
			res.Findings = append(res.Findings, f)
			break
		}
		if !st.Exhaustive {
			res.Exhaustive = false
			res.CapHit = st.CapHit
			break
		}
		completedP = p
	}
	res.Evals = total.Execs
	res.Traces = total.Execs
	res.Nontrivial = int64(len(total.Distinct))
	res.States = total.Nodes + 1
	res.Transitions = total.Transitions
	res.addExtra("divergences", total.Divergences)
	res.addExtra("choice_points_pruned_by_state_key", total.Pruned)
	if os.Getenv("VERIF_DUMP_DISTINCT") != "" {
		var hs []string
		for h := range total.Distinct {
			hs = append(hs, fmt.Sprintf("%x", h))
		}
		sort.Strings(hs)
		os.WriteFile(os.Getenv("VERIF_DUMP_DISTINCT")+"."+fmt.Sprint(os.Getpid()), []byte(strings.Join(hs, "\n")), 0o644)
		sum := sha1.Sum([]byte(strings.Join(hs, ",")))
		res.addExtra(fmt.Sprintf("distinct_set_%x", sum[:6]), 1)
	}
	res.addExtra("horizon_hits", total.HorizonHits)
	res.Bounds["state_key_pruning"] = prune
	res.addExtra(fmt.Sprintf("scenarios_completed_at_bound_%d", completedP), 1)
	if completedP >= declaredP {
		res.addExtra("scenarios_completed_at_least_at_their_declared_bound", 1)
	}
	if sp.Delay {
		res.Bounds["scheduler_deviations"] = completedP
	} else {
		res.Bounds["P"] = completedP
	}
	res.Bounds["D"] = sp.D
	if sp.Sample != nil {
		vs.Run(nil, sp.Body, vs.Options{})
		res.Samples = append(res.Samples, sp.Sample())
	}
	return res
}

// workerMemKB: address-space limit of a worker process (6 GiB; VERIF_WORKER_MEM_KB overrides, for testing the cap handling)
func workerMemKB() int {
	kb := 6 << 20
	if s := os.Getenv("VERIF_WORKER_MEM_KB"); s != "" {
		fmt.Sscan(s, &kb)
	}
	return kb
}

// betterResult: complete beats cut off, then the higher completed bound, then more executions.
func betterResult(a, b *Result) bool {
	if len(a.Findings) != len(b.Findings) {
		return len(a.Findings) > len(b.Findings)
	}
	if a.Exhaustive != b.Exhaustive {
		return a.Exhaustive
	}
	bound := func(r *Result) float64 {
		for _, k := range []string{"P", "scheduler_deviations", "depth"} {
			switch v := r.Bounds[k].(type) {
			case float64:
				return v
			case int:
				return float64(v)
			}
		}
		return -1
	}
	if bound(a) != bound(b) {
		return bound(a) > bound(b)
	}
	return a.Evals > b.Evals
}

func replayVs(sp *VsSpec, picks []int, w io.Writer) string {
	var last string
	for i := 0; i < 2; i++ {
		x := vs.Run(picks, sp.Body, vs.Options{Trace: true})
		if i == 0 {
			for _, ev := range x.Trace {
				fmt.Fprintln(w, ev.String())
			}
			if x.Diverged != "" {
				fmt.Fprintln(w, "DIVERGED:", x.Diverged)
			}
		}
		v := sp.Check(x)
		msg := ""
		if v != nil {
			msg = v.Sig + ": " + v.Msg
		}
		if i == 1 && msg != last {
			fmt.Fprintln(w, "replay not deterministic")
		}
		last = msg
	}
	return last
}

func vsScenario(sp *VsSpec) Scenario {
	return Scenario{Name: sp.Name,
		Run:    func(c *RunCtx) *Result { return runVs(c, sp) },
		Replay: func(picks []int, _ json.RawMessage, w io.Writer) string { return replayVs(sp, picks, w) }}
}
