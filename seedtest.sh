#!/bin/bash
# usage: seedtest.sh <patch.diff> <Cnn> [tier] [extra args]
# Applies a seeded change to a scratch worktree of /repo's HEAD, runs the check
# against it (evidence goes to a scratch dir), removes the worktree.
P=$(readlink -f "$1"); shift
W=$(mktemp -d /dev/shm/seedwt-XXXXXX); rmdir $W
git -C /repo worktree add -q --detach $W HEAD || exit 2
if ! git -C $W apply "$P" 2>/dev/null && ! git -C $W apply --3way "$P" 2>/dev/null; then echo "seedtest: patch does not apply to HEAD"; git -C /repo worktree remove --force $W; exit 3; fi
"$(dirname "$0")/mutrun.sh" $W "$@"; rc=$?
git -C /repo worktree remove --force $W
exit $rc
