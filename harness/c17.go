package main

import (
	"errors"
	"fmt"
	"os"
	"path/filepath"
	"sort"
	"strings"
	"syscall"
	"time"

	"github.com/rminnich/go9p"
	"github.com/rminnich/go9p/vs"
	"harness/wire"
)

// C17: mutations through Ufs equal the corresponding POSIX operations.
// Breadth-first search over mutation sequences; every sequence is applied
// through 9P to one tree and with package os to a twin, compared after each step.

type mop struct {
	Kind    string // create mkdir symlink link write remove wstat opentrunc
	Dir     string // parent directory (relative), for creates
	Name    string
	Perm    uint32
	Mode    uint8
	Ext     string
	Target  string // existing path operated on
	Off     int
	Data    string
	NewName string
	Length  int64 // -1 = don't touch
	Chmod   int   // -1 = don't touch
	Mtime   int64 // -1 = don't touch
}

func (o mop) String() string {
	switch o.Kind {
	case "create":
		return fmt.Sprintf("create(%s/%s perm=%o mode=%d)", o.Dir, o.Name, o.Perm, o.Mode)
	case "mkdir":
		return fmt.Sprintf("mkdir(%s/%s perm=%o)", o.Dir, o.Name, o.Perm&0777)
	case "symlink":
		return fmt.Sprintf("symlink(%s/%s -> %s)", o.Dir, o.Name, o.Ext)
	case "link":
		return fmt.Sprintf("link(%s/%s => %s)", o.Dir, o.Name, o.Target)
	case "write":
		return fmt.Sprintf("write(%s off=%d %q)", o.Target, o.Off, o.Data)
	case "remove":
		return fmt.Sprintf("remove(%s)", o.Target)
	case "opentrunc":
		return fmt.Sprintf("open-trunc(%s mode=%d)", o.Target, o.Mode)
	case "wstat":
		s := "wstat(" + o.Target
		if o.NewName != "" {
			s += " name=" + o.NewName
		}
		if o.Length >= 0 {
			s += fmt.Sprintf(" length=%d", o.Length)
		}
		if o.Chmod >= 0 {
			s += fmt.Sprintf(" mode=%o", o.Chmod)
		}
		if o.Mtime >= 0 {
			s += fmt.Sprintf(" mtime=%d", o.Mtime)
		}
		return s + ")"
	}
	return o.Kind
}

func c17Start(root string, which int) {
	os.WriteFile(filepath.Join(root, "a"), []byte("aaaa"), 0o644)
	os.WriteFile(filepath.Join(root, "b"), []byte("bb"), 0o644)
	os.Mkdir(filepath.Join(root, "d"), 0o755)
	os.WriteFile(filepath.Join(root, "d", "c"), []byte("c"), 0o644)
	if which != 2 {
		os.Symlink("a", filepath.Join(root, "l"))
	}
	// a symbolic link to a deeper directory: "ld/.." is d for the host, the root for a lexical clean-up
	os.Mkdir(filepath.Join(root, "d", "dd"), 0o755)
	os.Symlink("d/dd", filepath.Join(root, "ld"))
	if which == 1 {
		os.Mkdir(filepath.Join(root, "e"), 0o755)
		os.WriteFile(filepath.Join(root, "ro"), []byte("readonly"), 0o400)
		// mode bits the protocol does not carry but the host keeps: set-user-id on a file,
		// set-group-id and sticky on a directory (new directories below it inherit the former)
		os.Chmod(filepath.Join(root, "a"), 0o644|os.ModeSetuid)
		os.Chmod(filepath.Join(root, "d"), 0o755|os.ModeSetgid|os.ModeSticky)
	}
	if which == 3 {
		// served by an ordinary user who owns nothing here: the root and e may be written
		// by everybody, d (and so d/c, d/dd) may not, nor may the files
		os.Mkdir(filepath.Join(root, "e"), 0o777)
		os.Chmod(filepath.Join(root, "e"), 0o777)
		os.Chmod(root, 0o777)
		os.WriteFile(filepath.Join(root, "w"), []byte("anybody"), 0o666)
		os.Chmod(filepath.Join(root, "w"), 0o666)
	}
	// fixed times so that only explicit changes differ
	filepath.Walk(root, func(p string, fi os.FileInfo, err error) error {
		if err == nil && fi.Mode()&os.ModeSymlink == 0 {
			os.Chtimes(p, time.Unix(1000, 0), time.Unix(1000, 0))
		}
		return nil
	})
}

func c17Alphabet(dotu bool) []mop {
	var a []mop
	none := func(o mop) mop { o.Length, o.Chmod, o.Mtime = -1, -1, -1; return o }
	for _, dir := range []string{"", "d"} {
		for _, name := range []string{"n", "a", "c"} {
			for i, perm := range []uint32{0600, 0644, 0755, 0} {
				mode := []uint8{1, 2, 0, 1 | 16}[i]
				a = append(a, none(mop{Kind: "create", Dir: dir, Name: name, Perm: perm, Mode: mode}))
			}
		}
		a = append(a, none(mop{Kind: "mkdir", Dir: dir, Name: "nd", Perm: go9p.DMDIR | 0750}), none(mop{Kind: "mkdir", Dir: dir, Name: "d", Perm: go9p.DMDIR | 0755}))
		if dotu {
			a = append(a, none(mop{Kind: "symlink", Dir: dir, Name: "sl", Ext: "a", Perm: go9p.DMSYMLINK | 0777}), none(mop{Kind: "symlink", Dir: dir, Name: "dang", Ext: "nowhere", Perm: go9p.DMSYMLINK | 0777}),
				none(mop{Kind: "symlink", Dir: dir, Name: "b", Ext: "a", Perm: go9p.DMSYMLINK | 0777}))
			a = append(a, none(mop{Kind: "link", Dir: dir, Name: "hl", Target: "a", Perm: go9p.DMLINK | 0644}), none(mop{Kind: "link", Dir: dir, Name: "b", Target: "a", Perm: go9p.DMLINK | 0644}))
		}
	}
	if dotu {
		// symbolic links the host refuses to make: an empty target, under a free name and under
		// the name of an existing directory
		a = append(a, none(mop{Kind: "symlink", Dir: "", Name: "es", Ext: "", Perm: go9p.DMSYMLINK | 0777}), none(mop{Kind: "symlink", Dir: "", Name: "d", Ext: "", Perm: go9p.DMSYMLINK | 0777}))
	}
	// through a symbolic link to a directory and back up
	a = append(a, none(mop{Kind: "create", Dir: "ld/..", Name: "n", Perm: 0644, Mode: 1}), none(mop{Kind: "mkdir", Dir: "ld/..", Name: "nd", Perm: go9p.DMDIR | 0750}))
	if dotu {
		a = append(a, none(mop{Kind: "symlink", Dir: "ld/..", Name: "sl", Ext: "c", Perm: go9p.DMSYMLINK | 0777}), none(mop{Kind: "link", Dir: "ld/..", Name: "hl", Target: "a", Perm: go9p.DMLINK | 0644}))
	}
	for _, t := range []string{"a", "d/c"} {
		for _, off := range []int{0, 2, 4, 9} {
			a = append(a, none(mop{Kind: "write", Target: t, Off: off, Data: "WXYZ"}))
		}
		a = append(a, none(mop{Kind: "opentrunc", Target: t, Mode: 1 | 16}))
	}
	for _, t := range []string{"a", "d/c", "d", "l", "nope", "n", "nd"} {
		a = append(a, none(mop{Kind: "remove", Target: t}))
	}
	w := func(t string) mop { return none(mop{Kind: "wstat", Target: t}) }
	for _, t := range []string{"a", "d"} {
		for _, nn := range []string{"renamed", "b", "a", "d"} {
			o := w(t)
			o.NewName = nn
			a = append(a, o)
		}
		for _, m := range []int{0, 0400, 0777, 0644, 0755} { // the last two: the bits a / d have already
			o := w(t)
			o.Chmod = m
			a = append(a, o)
		}
		o := w(t)
		o.Mtime = 123456
		a = append(a, o)
	}
	for _, l := range []int64{0, 2, 4, 10} {
		o := w("a")
		o.Length = l
		a = append(a, o)
	}
	// several fields in one request
	o := w("a")
	o.Length, o.Mtime = 2, 222222
	a = append(a, o)
	o = w("a")
	o.Chmod, o.Length = 0600, 1
	a = append(a, o)
	o = w("a")
	o.NewName, o.Length, o.Mtime = "moved", 3, 333333
	a = append(a, o)
	o = w("d/c")
	o.NewName, o.Chmod = "cc", 0640
	a = append(a, o)
	return a
}

// twin applies the corresponding POSIX operation.
func (o mop) twin(root string) error {
	// plain concatenation: the host resolves '..' and symbolic links, not a lexical clean-up
	p := func(rel ...string) string {
		out := root
		for _, r := range rel {
			if r != "" {
				out += "/" + r
			}
		}
		return out
	}
	uflags := func(m uint8) int {
		f := map[uint8]int{0: os.O_RDONLY, 1: os.O_WRONLY, 2: os.O_RDWR, 3: os.O_RDONLY}[m&3]
		if m&16 != 0 {
			f |= os.O_TRUNC
		}
		return f
	}
	switch o.Kind {
	case "create":
		f, err := os.OpenFile(p(o.Dir, o.Name), uflags(o.Mode)|os.O_CREATE, os.FileMode(o.Perm&0777))
		if f != nil {
			f.Close()
		}
		return err
	case "mkdir":
		return os.Mkdir(p(o.Dir, o.Name), os.FileMode(o.Perm&0777))
	case "symlink":
		return os.Symlink(o.Ext, p(o.Dir, o.Name))
	case "link":
		return os.Link(p(o.Target), p(o.Dir, o.Name))
	case "write":
		f, err := os.OpenFile(p(o.Target), os.O_WRONLY, 0)
		if err != nil {
			return err
		}
		defer f.Close()
		_, err = f.WriteAt([]byte(o.Data), int64(o.Off))
		return err
	case "opentrunc":
		f, err := os.OpenFile(p(o.Target), uflags(o.Mode), 0)
		if f != nil {
			f.Close()
		}
		return err
	case "remove":
		return os.Remove(p(o.Target))
	case "wstat":
		path := p(o.Target)
		if o.Chmod >= 0 {
			if err := os.Chmod(path, os.FileMode(o.Chmod)); err != nil {
				return err
			}
		}
		if o.NewName != "" {
			np := filepath.Join(filepath.Dir(path), o.NewName)
			// the POSIX call itself (package os adds checks of its own for directories)
			if err := syscall.Rename(path, np); err != nil {
				return err
			}
			path = np
		}
		if o.Length >= 0 {
			if err := os.Truncate(path, o.Length); err != nil {
				return err
			}
		}
		if o.Mtime >= 0 {
			return os.Chtimes(path, time.Unix(o.Mtime, 0), time.Unix(o.Mtime, 0))
		}
	}
	return nil
}

func errnoOf(err error) uint32 {
	var en syscall.Errno
	if errors.As(err, &en) {
		return uint32(en)
	}
	return 0
}

// snapshot renders a tree canonically: names, kinds, permission bits, contents,
// link targets, hard-link groups, and the mtimes in `timed`.
func c17Snapshot(root string, timed map[string]bool) string {
	var lines []string
	inodes := map[uint64][]string{}
	filepath.Walk(root, func(p string, fi os.FileInfo, err error) error {
		if err != nil || p == root {
			return nil
		}
		rel, _ := filepath.Rel(root, p)
		l := fmt.Sprintf("%s %s %o", rel, fi.Mode().Type(), fi.Mode()&0777)
		if sp := fi.Mode() & (os.ModeSetuid | os.ModeSetgid | os.ModeSticky); sp != 0 {
			l += " " + sp.String()
		}
		switch {
		case fi.Mode()&os.ModeSymlink != 0:
			t, _ := os.Readlink(p)
			l = fmt.Sprintf("%s symlink -> %s", rel, t)
		case fi.Mode().IsRegular():
			b, _ := os.ReadFile(p)
			if fi.Mode()&0400 == 0 {
				os.Chmod(p, fi.Mode()|0400)
				b, _ = os.ReadFile(p)
				os.Chmod(p, fi.Mode())
			}
			l += fmt.Sprintf(" %q", b)
			ino := fi.Sys().(*syscall.Stat_t).Ino
			inodes[ino] = append(inodes[ino], rel)
		}
		if timed[rel] {
			// an mtime set explicitly (the alphabet uses values far in the past) is compared
			// exactly; one that an operation has moved to the time of day since then only as
			// "now": the two trees are changed a moment apart
			if mt := fi.ModTime().Unix(); mt < 1500000000 {
				l += fmt.Sprintf(" mtime=%d", mt)
			} else {
				l += " mtime=now"
			}
		}
		lines = append(lines, l)
		return nil
	})
	for _, g := range inodes {
		if len(g) > 1 {
			sort.Strings(g)
			lines = append(lines, "same-file: "+strings.Join(g, ","))
		}
	}
	sort.Strings(lines)
	return strings.Join(lines, "\n")
}

// run9p performs the operation through 9P on an established session.
func (o mop) run9p(cl *Cli, dotu bool, tag *uint16) (reply *wire.Msg, follow string) {
	nt := func() uint16 { *tag++; return *tag }
	split := func(p string) []string {
		if p == "" {
			return nil
		}
		return strings.Split(p, "/")
	}
	clunk := func(f uint32) { cl.Rpc(&wire.Msg{Type: wire.Tclunk, Tag: nt(), Fid: f}) }
	dontTouch := wire.Stat{Type: 0xFFFF, Dev: 0xFFFFFFFF, Qid: wire.Qid{Type: 0xFF, Vers: 0xFFFFFFFF, Path: ^uint64(0)}, Mode: 0xFFFFFFFF, Atime: 0xFFFFFFFF, Mtime: 0xFFFFFFFF, Length: ^uint64(0), NUid: 0xFFFFFFFF, NGid: 0xFFFFFFFF, NMuid: 0xFFFFFFFF}
	switch o.Kind {
	case "create", "mkdir", "symlink", "link":
		r := cl.Rpc(twalk(nt(), 0, 1, split(o.Dir)...))
		if r == nil || r.Type != wire.Rwalk {
			return r, ""
		}
		if len(r.Wqid) != len(split(o.Dir)) {
			// the directory does not resolve (a partial walk binds nothing and carries no error number)
			return &wire.Msg{Type: wire.Rerror, Ename: "walk failed"}, ""
		}
		ext := o.Ext
		if o.Kind == "link" {
			rt := cl.Rpc(twalk(nt(), 0, 2, split(o.Target)...))
			if rt == nil || rt.Type != wire.Rwalk || len(rt.Wqid) != len(split(o.Target)) {
				clunk(1)
				return &wire.Msg{Type: wire.Rerror, Ename: "link target missing"}, ""
			}
			ext = "2"
		}
		mode := o.Mode
		if o.Kind != "create" {
			mode = 0
		}
		before := cl.Rpc(&wire.Msg{Type: wire.Tstat, Tag: nt(), Fid: 1})
		r = cl.Rpc(&wire.Msg{Type: wire.Tcreate, Tag: nt(), Fid: 1, Name: o.Name, Perm: o.Perm, Mode: mode, Ext: ext})
		if r != nil && r.Type == wire.Rerror && before != nil && before.Type == wire.Rstat {
			// a create that is refused leaves the fid where it was: on the directory
			if st := cl.Rpc(&wire.Msg{Type: wire.Tstat, Tag: nt(), Fid: 1}); st == nil || st.Type != wire.Rstat || st.Stat.Qid != before.Stat.Qid || st.Stat.Name != before.Stat.Name {
				follow = fmt.Sprintf("after the refused create of %q (%s) the fid of the directory %q answers Tstat with %v", o.Name, r.Ename, before.Stat.Name, st)
			}
		}
		if r != nil && r.Type == wire.Rcreate {
			if st := cl.Rpc(&wire.Msg{Type: wire.Tstat, Tag: nt(), Fid: 1}); st == nil || st.Type != wire.Rstat || st.Stat.Name != o.Name {
				follow = fmt.Sprintf("after a successful create of %q the fid answers Tstat with %v", o.Name, st)
			}
		}
		clunk(1)
		if o.Kind == "link" {
			clunk(2)
		}
		return r, follow
	case "write", "opentrunc":
		r := cl.Rpc(twalk(nt(), 0, 1, split(o.Target)...))
		if r == nil || r.Type != wire.Rwalk || len(r.Wqid) != len(split(o.Target)) {
			if r != nil && r.Type == wire.Rwalk {
				clunk(1)
			}
			return &wire.Msg{Type: wire.Rerror, Ename: "walk failed"}, ""
		}
		mode := uint8(1)
		if o.Kind == "opentrunc" {
			mode = o.Mode
		}
		r = cl.Rpc(&wire.Msg{Type: wire.Topen, Tag: nt(), Fid: 1, Mode: mode})
		if r != nil && r.Type == wire.Ropen && o.Kind == "write" {
			r = cl.Rpc(&wire.Msg{Type: wire.Twrite, Tag: nt(), Fid: 1, Offset: uint64(o.Off), Data: []byte(o.Data)})
			if r != nil && r.Type == wire.Rwrite && int(r.Count) != len(o.Data) {
				follow = fmt.Sprintf("Rwrite count %d for %d bytes", r.Count, len(o.Data))
			}
		}
		clunk(1)
		return r, follow
	case "remove":
		r := cl.Rpc(twalk(nt(), 0, 1, split(o.Target)...))
		if r == nil || r.Type != wire.Rwalk || len(r.Wqid) != len(split(o.Target)) {
			if r != nil && r.Type == wire.Rwalk {
				clunk(1)
			}
			return &wire.Msg{Type: wire.Rerror, Ename: "walk failed"}, ""
		}
		return cl.Rpc(&wire.Msg{Type: wire.Tremove, Tag: nt(), Fid: 1}), ""
	case "wstat":
		r := cl.Rpc(twalk(nt(), 0, 1, split(o.Target)...))
		if r == nil || r.Type != wire.Rwalk || len(r.Wqid) != len(split(o.Target)) {
			if r != nil && r.Type == wire.Rwalk {
				clunk(1)
			}
			return &wire.Msg{Type: wire.Rerror, Ename: "walk failed"}, ""
		}
		st := dontTouch
		st.Name = o.NewName
		if o.Length >= 0 {
			st.Length = uint64(o.Length)
		}
		if o.Chmod >= 0 {
			st.Mode = uint32(o.Chmod)
		}
		if o.Mtime >= 0 {
			st.Mtime = uint32(o.Mtime)
		}
		r = cl.Rpc(&wire.Msg{Type: wire.Twstat, Tag: nt(), Fid: 1, Stat: st})
		if r != nil && r.Type == wire.Rwstat && o.NewName != "" {
			if s2 := cl.Rpc(&wire.Msg{Type: wire.Tstat, Tag: nt(), Fid: 1}); s2 == nil || s2.Type != wire.Rstat || s2.Stat.Name != o.NewName {
				follow = fmt.Sprintf("after a successful rename to %q the fid answers Tstat with %v", o.NewName, s2)
			}
		}
		clunk(1)
		return r, follow
	}
	return nil, ""
}

// c17Run applies the history to both trees; returns the violation (if any) and
// the canonical state after the last step.
func c17Run(start int, dotu bool, hist []mop) (viol *Viol, state string) {
	base, rootA := scratchDir("c17a")
	defer os.RemoveAll(base)
	rootB := filepath.Join(base, "twin", "n2", "n3", "n4", "export")
	msize := uint32(8216)
	if start == 4 {
		// a small msize and a long path to the export: the text of many errors does not fit a reply
		long := strings.Repeat("L", 120)
		rootA = filepath.Join(base, "n1", long, "export")
		rootB = filepath.Join(base, "tw", long, "export")
		os.MkdirAll(rootA, 0o755)
		msize = 256
	}
	os.MkdirAll(rootB, 0o755)
	c17Start(rootA, start%4)
	c17Start(rootB, start%4)
	if start == 3 {
		openUp(base, rootA)
		openUp(base, rootB)
		os.Chmod(rootA, 0o777)
		os.Chmod(rootB, 0o777)
		defer asOrdinaryUser()()
	}
	timed := map[string]bool{}
	body := func() {
		h := newUfsH(rootA, msize, dotu)
		cl := h.Connect()
		ver := "9P2000"
		if dotu {
			ver = "9P2000.u"
		}
		cl.Version(msize, ver)
		cl.Rpc(tattach(1, 0, wire.NOFID, "", uint32(os.Geteuid()), dotu))
		tag := uint16(10)
		for i, o := range hist {
			last := i == len(hist)-1
			before := c17Snapshot(rootA, timed)
			r, follow := o.run9p(cl, dotu, &tag)
			if r == nil {
				viol = &Viol{Sig: "C17/no-reply/" + o.Kind, Msg: fmt.Sprintf("no reply during %s", o)}
				return
			}
			ok := r.Type != wire.Rerror
			walkFailed := !ok && (r.Ename == "walk failed" || r.Ename == "link target missing")
			var terr error
			ambiguous := o.Kind == "create" && func() bool { _, e := os.Lstat(rootB + "/" + o.Dir + "/" + o.Name); return e == nil }()
			if ok || !(ambiguous || walkFailed) {
				terr = o.twin(rootB)
			}
			if o.Kind == "wstat" && o.Mtime >= 0 && ok {
				t := o.Target
				if o.NewName != "" {
					t = filepath.Join(filepath.Dir(o.Target), o.NewName)
				}
				timed[t] = true
			}
			if !last {
				continue
			}
			a, b := c17Snapshot(rootA, timed), c17Snapshot(rootB, timed)
			switch {
			case walkFailed:
				if terr == nil && false {
				}
			case ok && terr != nil:
				viol = &Viol{Sig: "C17/succeeded-where-posix-fails/" + o.Kind, Msg: fmt.Sprintf("%s succeeded through 9P, the corresponding POSIX operation fails with %v", o, terr)}
				return
			case !ok && terr == nil && !ambiguous:
				viol = &Viol{Sig: "C17/failed-where-posix-succeeds/" + o.Kind, Msg: fmt.Sprintf("%s was answered %s, the corresponding POSIX operation succeeds", o, r)}
				return
			}
			if !ok && (o.Kind == "create" || o.Kind == "mkdir" || o.Kind == "symlink" || o.Kind == "link" || o.Kind == "remove") && a != before {
				viol = &Viol{Sig: "C17/tree-changed-by-failed-" + o.Kind, Msg: fmt.Sprintf("%s was answered %s but changed the tree:\nbefore:\n%s\nafter:\n%s", o, r, before, a)}
				return
			}
			if a != b {
				viol = &Viol{Sig: "C17/tree-differs-from-twin/" + o.Kind, Msg: fmt.Sprintf("after %s (reply %s) the exported tree differs from the POSIX twin:\n9P tree:\n%s\ntwin:\n%s", o, r, a, b)}
				return
			}
			if !ok && dotu && terr != nil && !walkFailed && (o.Kind == "remove" || o.Kind == "create" || o.Kind == "mkdir" || o.Kind == "symlink" || o.Kind == "link") {
				if want := errnoOf(terr); want != 0 && r.Errno != want {
					viol = &Viol{Sig: "C17/errno/" + o.Kind, Msg: fmt.Sprintf("%s: Rerror carries error number %d (%q), the POSIX operation fails with %d (%v)", o, r.Errno, r.Ename, want, terr)}
					return
				}
			}
			if follow != "" {
				viol = &Viol{Sig: "C17/fid-after-" + o.Kind, Msg: follow}
				return
			}
			state = a
		}
	}
	x := vs.Run(nil, body, vs.Options{Horizon: 100000000})
	if len(x.Panics) > 0 {
		return &Viol{Sig: "C17/panic/" + x.Panics[0].Frame, Msg: "panic: " + x.Panics[0].Value + "\n" + trimStack(x.Panics[0].Stack)}, ""
	}
	return viol, state
}

func c17Search(start int, dotu bool, lo, hi, depth int) Scenario {
	name := fmt.Sprintf("mutation-bfs start=%d dotu=%v first-ops=%d..%d depth=%d", start, dotu, lo, hi, depth)
	return Scenario{Name: name, Run: func(rc *RunCtx) *Result {
		res := &Result{Exhaustive: true, Bounds: map[string]any{"depth": depth}}
		alpha := c17Alphabet(dotu)
		if hi > len(alpha) {
			hi = len(alpha)
		}
		seen := map[string]bool{}
		sigSeen := map[string]bool{}
		var frontier [][]mop
		for i := lo; i < hi; i++ {
			frontier = append(frontier, []mop{alpha[i]})
		}
		for len(frontier) > 0 {
			var next [][]mop
			for _, h := range frontier {
				if rc.Expired() {
					res.Exhaustive = false
					res.CapHit = "internal deadline"
					frontier, next = nil, nil
					break
				}
				v, st := c17Run(start, dotu, h)
				res.Evals++
				res.Traces++
				res.Transitions++
				if v != nil {
					if !sigSeen[v.Sig] && len(res.Findings) < 10 {
						sigSeen[v.Sig] = true
						var hs []string
						for _, o := range h {
							hs = append(hs, o.String())
						}
						res.Findings = append(res.Findings, Finding{Sig: v.Sig, Msg: v.Msg + "\nsequence: " + strings.Join(hs, " ; ")})
					}
					continue
				}
				if seen[st] {
					continue
				}
				seen[st] = true
				res.States++
				if len(res.Samples) < 1 && len(h) == depth {
					var hs []string
					for _, o := range h {
						hs = append(hs, o.String())
					}
					res.Samples = append(res.Samples, map[string]any{"sequence": hs, "tree": strings.Split(st, "\n")})
				}
				if len(h) < depth {
					for _, o := range alpha {
						next = append(next, append(append([]mop{}, h...), o))
					}
				}
			}
			frontier = next
		}
		res.Nontrivial = res.States
		return res
	}}
}

// c17RefusedOddCreates: creates of kinds the property does not define an effect for
// (named pipes, sockets, devices, combinations of kind bits) under free and occupied
// names, with every open mode. Whatever the server makes of them, one answered with
// Rerror leaves the tree as it was.
func c17RefusedOddCreates(dotu bool) Scenario {
	name := fmt.Sprintf("creates of special kinds under free and occupied names: refused ones change nothing dotu=%v", dotu)
	return Scenario{Name: name, Run: func(rc *RunCtx) *Result {
		res := &Result{Exhaustive: true}
		perms := []uint32{go9p.DMNAMEDPIPE | 0644, go9p.DMSOCKET | 0644, go9p.DMDEVICE | 0644, go9p.DMNAMEDPIPE | go9p.DMDIR | 0755, go9p.DMSYMLINK | go9p.DMNAMEDPIPE | 0777, go9p.DMLINK | go9p.DMNAMEDPIPE | 0644, go9p.DMEXCL | 0644, go9p.DMAPPEND | go9p.DMNAMEDPIPE | 0600}
		names := []string{"free", "a", "d", "e", "dang", "ld", "sl"}
		modes := []uint8{0, 1, 2, 1 | 16, 0 | 64}
		exts := []string{"", "c 1 3", "a"}
		seen := map[string]bool{}
		for _, perm := range perms {
			for _, nm := range names {
				for _, mode := range modes {
					for _, ext := range exts {
						if ext != "" && (!dotu || mode != 0) {
							continue
						}
						base, root := scratchDir("c17o")
						os.MkdirAll(filepath.Join(root, "d"), 0o755)
						os.Mkdir(filepath.Join(root, "e"), 0o755)
						os.WriteFile(filepath.Join(root, "a"), []byte("contents of a"), 0o644)
						os.WriteFile(filepath.Join(root, "d", "c"), []byte("c"), 0o644)
						os.Symlink("nowhere", filepath.Join(root, "dang"))
						os.Symlink("d", filepath.Join(root, "ld"))
						os.Symlink("a", filepath.Join(root, "sl"))
						var bad string
						body := func() {
							h := newUfsH(root, 8216, dotu)
							cl := h.Connect()
							ver := "9P2000"
							if dotu {
								ver = "9P2000.u"
							}
							cl.Version(8216, ver)
							cl.Rpc(tattach(1, 0, wire.NOFID, "", uint32(os.Geteuid()), dotu))
							cl.Rpc(twalk(2, 0, 1))
							before := c17Snapshot(root, map[string]bool{})
							r := cl.Rpc(&wire.Msg{Type: wire.Tcreate, Tag: 3, Fid: 1, Name: nm, Perm: perm, Mode: mode, Ext: ext})
							res.Evals++
							if r == nil {
								bad = "no reply"
								return
							}
							if r.Type == wire.Rerror {
								res.Nontrivial++
								if after := c17Snapshot(root, map[string]bool{}); after != before {
									bad = fmt.Sprintf("Tcreate name=%q perm=%#x mode=%d ext=%q was answered %s but changed the tree:\nbefore:\n%s\nafter:\n%s", nm, perm, mode, ext, r, before, after)
								}
							}
						}
						x := vs.Run(nil, body, vs.Options{Horizon: 100000000})
						os.RemoveAll(base)
						if len(x.Panics) > 0 {
							bad = "panic: " + x.Panics[0].Value
						}
						if bad != "" {
							sig := fmt.Sprintf("C17/tree-changed-by-refused-create/perm-%#x", perm&0xFF000000)
							if strings.HasPrefix(bad, "panic") || bad == "no reply" {
								sig = "C17/odd-create/" + sigWords(bad)
							}
							if !seen[sig] && len(res.Findings) < 8 {
								seen[sig] = true
								res.Findings = append(res.Findings, Finding{Sig: sig, Msg: bad})
							}
						}
					}
				}
			}
		}
		res.Samples = append(res.Samples, fmt.Sprintf("%d kind-bit combinations x %d names (free, file, directory, empty directory, dangling link, link to a directory, link to a file) x %d open modes; %d were refused and compared", len(perms), len(names), len(modes), res.Nontrivial))
		return res
	}}
}

// c17AtimeOnly: a Twstat that sets the access time and leaves the modification time
// alone ("don't touch"), alone or together with a new length, on a file and on a fid
// that designates a symbolic link: utimensat with UTIME_OMIT for the mtime - the file's
// modification time is what the rest of the request made it (now, after a truncate;
// unchanged otherwise), never a value remembered from before.
func c17AtimeOnly(dotu bool) Scenario {
	name := fmt.Sprintf("wstat setting atime only (mtime don't-touch), with and without a new length, file and link dotu=%v", dotu)
	return Scenario{Name: name, Run: func(rc *RunCtx) *Result {
		res := &Result{Exhaustive: true}
		seen := map[string]bool{}
		oldT := time.Unix(1000000, 0)
		for _, target := range []string{"file", "link"} {
			for _, length := range []int64{-1, 5, 40} {
				base, root := scratchDir("c17t")
				os.WriteFile(filepath.Join(root, "file"), pattern(20, 1), 0o644)
				os.Chtimes(filepath.Join(root, "file"), oldT, oldT)
				os.Symlink("file", filepath.Join(root, "link"))
				var bad string
				body := func() {
					h := newUfsH(root, 8216, dotu)
					cl := h.Connect()
					ver := "9P2000"
					if dotu {
						ver = "9P2000.u"
					}
					cl.Version(8216, ver)
					cl.Rpc(tattach(1, 0, wire.NOFID, "", uint32(os.Geteuid()), dotu))
					cl.Rpc(twalk(2, 0, 1, target))
					st := wire.Stat{Type: 0xFFFF, Dev: 0xFFFFFFFF, Qid: wire.Qid{Type: 0xFF, Vers: 0xFFFFFFFF, Path: ^uint64(0)}, Mode: 0xFFFFFFFF, Atime: 2000000, Mtime: 0xFFFFFFFF, Length: ^uint64(0), NUid: 0xFFFFFFFF, NGid: 0xFFFFFFFF, NMuid: 0xFFFFFFFF}
					if length >= 0 {
						st.Length = uint64(length)
					}
					r := cl.Rpc(&wire.Msg{Type: wire.Twstat, Tag: 3, Fid: 1, Stat: st})
					res.Evals++
					if r == nil || r.Type != wire.Rwstat {
						if target == "link" && length >= 0 {
							return // (a length on a link fid: outside what is compared here)
						}
						bad = fmt.Sprintf("Twstat{atime, length %d} on the %s answered %v", length, target, r)
						return
					}
					fi, err := os.Stat(filepath.Join(root, "file"))
					if err != nil {
						bad = "the file is gone"
						return
					}
					mt := fi.ModTime()
					truncated := length >= 0 && length != 20
					switch {
					case truncated && !mt.After(oldT.Add(time.Hour)):
						bad = fmt.Sprintf("Twstat{atime, length %d} on the %s changed the length, yet the file's modification time is still %v (what it was before the request)", length, target, mt.Unix())
					case !truncated && length < 0 && !mt.Equal(oldT):
						bad = fmt.Sprintf("Twstat{atime only} on the %s changed the file's modification time from %v to %v", target, oldT.Unix(), mt.Unix())
					}
					if at := fi.Sys().(*syscall.Stat_t).Atim; bad == "" && at.Sec != 2000000 {
						bad = fmt.Sprintf("Twstat{atime 2000000} on the %s left the access time at %d", target, at.Sec)
					}
				}
				x := vs.Run(nil, body, vs.Options{Horizon: 100000000})
				os.RemoveAll(base)
				if len(x.Panics) > 0 {
					bad = "panic: " + x.Panics[0].Value
				}
				if bad != "" {
					sig := "C17/atime-only/" + sigWords(bad)
					if !seen[sig] {
						seen[sig] = true
						res.Findings = append(res.Findings, Finding{Sig: sig, Msg: bad})
					}
				}
			}
		}
		res.Nontrivial = res.Evals
		return res
	}}
}

func c17Scenarios(tier string) []Scenario {
	var out []Scenario
	out = append(out, c17RefusedOddCreates(false), c17RefusedOddCreates(true))
	out = append(out, c17AtimeOnly(false), c17AtimeOnly(true))
	depth := 2
	starts := []int{0}
	if tier == "thorough" {
		depth = 3
		starts = []int{0, 1, 2}
	}
	if tier == "quick" {
		// start tree 1 (special mode bits) one step deep
		for _, dotu := range []bool{false, true} {
			n := len(c17Alphabet(dotu))
			for lo := 0; lo < n; lo += 30 {
				out = append(out, c17Search(1, dotu, lo, lo+30, 1))
			}
		}
	}
	// start tree 4: tree 0 behind a long path with msize 256 (error texts that have to be shortened)
	{
		n := len(c17Alphabet(true))
		d, step := 1, 30
		if tier == "thorough" {
			d, step = 2, 4
		}
		for lo := 0; lo < n; lo += step {
			out = append(out, c17Search(4, true, lo, lo+step, d))
		}
	}
	// start tree 3: the server runs as an ordinary user and the host refuses most of it
	for _, dotu := range []bool{false, true} {
		n := len(c17Alphabet(dotu))
		d, step := 1, 25
		if tier == "thorough" {
			d, step = 2, 4
		}
		for lo := 0; lo < n; lo += step {
			out = append(out, c17Search(3, dotu, lo, lo+step, d))
		}
	}
	for _, st := range starts {
		for _, dotu := range []bool{false, true} {
			n := len(c17Alphabet(dotu))
			step := 3
			if tier == "thorough" {
				step = 2
			}
			for lo := 0; lo < n; lo += step {
				out = append(out, c17Search(st, dotu, lo, lo+step, depth))
			}
		}
	}
	return out
}

func init() {
	register(&Property{ID: "C17", Level: "model_checking",
		Technique: "explicit-state breadth-first search over mutation sequences with a POSIX twin as reference model; every transition executed on the real Ufs (fresh trees, replay of the sequence) and the trees compared",
		Rule:      "alphabet of ~85 (.u ~100) mutations over the namespace {a, b, d/, d/c, d/dd/, l->a, ld->d/dd}: Tcreate of files (4 perm/mode pairs incl. OTRUNC) on free and occupied names in two directories and in 'ld/..' (through a symbolic link to a directory and back up), directories, symlinks with existing and dangling targets, hard links, Twrite at offsets 0/mid/end/beyond, Topen with OTRUNC, Tremove of file / empty and non-empty directory / symlink / missing, Twstat rename to free/occupied/same names, lengths 0/shorter/equal/longer, modes 0/0400/0777 and the current ones (0644/0755; start tree 1 has set-user-id, set-group-id and sticky bits on them), mtime, and four multi-field wstats; BFS to depth 2 (thorough 3, three start trees) with states deduplicated on a canonical snapshot (names, kinds, permission bits, contents, link targets, hard-link groups, explicitly set mtimes); the same operation is applied with package os to a twin tree. states = distinct tree snapshots, transitions = sequences executed ; after every refused create the directory fid is stat-ed again (it stays where it was) ; creates of special kinds (pipe, socket, device, mixed kind bits) under free and occupied names: refused ones leave the tree unchanged",
		Assumptions: []string{"the host file system and package os are the reference", "creating an existing name may be refused or treated like O_CREAT without O_EXCL (either is accepted if the tree matches)", "start tree 3 is served (and its twin changed) with the effective ids of an ordinary user, so that the host refuses things; the other trees run as the sandbox user"},
		Scenarios:   c17Scenarios, QuickS: 110, ThoroughS: 1500})
}
