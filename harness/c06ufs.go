package main

import (
	"fmt"
	"os"
	"path/filepath"
	"strings"

	"harness/wire"
)

func c06UfsDirScenarios(tier string) []Scenario {
	var out []Scenario
	for _, dotu := range []bool{false, true} {
		for _, primed := range []bool{true, false} {
			dotu, primed := dotu, primed
			out = append(out, Scenario{Name: fmt.Sprintf("ufs-dir-reads dotu=%v primed=%v", dotu, primed), Run: func(rc *RunCtx) *Result {
				res := &Result{Exhaustive: true}
				base, root := scratchDir("c06d")
				defer os.RemoveAll(base)
				makeStdTree(root)
				os.MkdirAll(filepath.Join(root, "many"), 0o755)
				for i, n := range []string{"a", "bb", strings.Repeat("c", 17), "dddd"} {
					os.WriteFile(filepath.Join(root, "many", n), []byte(strings.Repeat("x", i)), 0o644)
				}
				c := c06Cfg{Backend: "ufs", Msize: 1024, Dotu: dotu}
				setup := []mevent{{Op: "attach", Fid: 0, Afid: wire.NOFID, Uid: 0, Uname: "root"}, {Op: "walk", Fid: 0, Newfid: 1, Names: []string{"many"}}, {Op: "open", Fid: 1, Mode: 0}}
				total := 4 * 70 // upper bound of the listing size
				entry := 60
				seen := map[string]bool{}
				for off := 0; off <= total+2; off++ {
					for _, cnt := range []uint32{0, 1, uint32(entry - 1), uint32(entry), uint32(entry + 1), 1000} {
						if rc.Expired() {
							res.Exhaustive = false
							res.CapHit = "internal deadline"
							return res
						}
						var hostile [][]byte
						if primed {
							hostile = append(hostile, wire.Encode(&wire.Msg{Type: wire.Tread, Tag: 50, Fid: 1, Offset: 0, Count: 1000}, dotu))
						}
						hostile = append(hostile, wire.Encode(&wire.Msg{Type: wire.Tread, Tag: 51, Fid: 1, Offset: uint64(off), Count: cnt}, dotu))
						bad, sig := c06Run(c, root, setup, hostile)
						res.Evals++
						res.Nontrivial++
						if bad != "" && !seen[sig] {
							seen[sig] = true
							res.Findings = append(res.Findings, Finding{Sig: sig, Msg: fmt.Sprintf("%s\ndirectory Tread offset=%d count=%d (after a read at offset 0: %v)", bad, off, cnt, primed), Detail: map[string]any{"offset": off, "count": cnt, "primed": primed}})
						}
					}
				}
				res.Samples = append(res.Samples, "Ufs directory of 4 entries: Tread at every offset 0..282 x counts {0,1,59,60,61,1000}, with and without a preceding read at offset 0")
				return res
			}})
		}
	}
	return out
}
