package vs

import (
	"fmt"
	"time"
)

// Bounds of one exploration.
type Bounds struct {
	Delay    bool          // delay bounding: every non-default scheduling choice costs 1 (not only preemptions)
	P        int           // max preemptions (or deviations from the default scheduler when Delay is set)
	D        int           // max environment deviations
	MaxExecs int           // 0 = unlimited; if hit the result is not exhaustive
	Deadline time.Time     // zero = none; if hit the result is not exhaustive
	Horizon  int           // step horizon per execution
	Livelock bool          // an execution that reaches the step horizon is handed to the check (Exec.HitHorizon) instead of being skipped: for code whose executions are short, running on for ever is a behaviour, not a cap
	Prune    bool          // state-key pruning: do not branch again from a state (partial order of the prefix) already expanded with at least the same remaining budget
}

// Stats of one exploration.
type Stats struct {
	Execs       int64           `json:"execs"`
	Nodes       int64           `json:"nodes"`       // choice-tree nodes visited (recorded decisions)
	Transitions int64           `json:"transitions"` // scheduling steps executed inside windows
	Steps       int64           `json:"steps"`
	Distinct    map[uint64]bool `json:"-"`
	Pruned      int64           `json:"pruned"` // choice points not expanded because their state had been expanded before
	Divergences int64           `json:"divergences"`
	HorizonHits int64           `json:"horizon_hits"`
	Exhaustive  bool            `json:"exhaustive"`
	MaxChoices  int             `json:"max_choices"`
	CapHit      string          `json:"cap_hit,omitempty"`
}

func (s *Stats) Merge(o *Stats) {
	s.Execs += o.Execs
	s.Nodes += o.Nodes
	s.Transitions += o.Transitions
	s.Steps += o.Steps
	s.Divergences += o.Divergences
	s.Pruned += o.Pruned
	s.HorizonHits += o.HorizonHits
	if o.MaxChoices > s.MaxChoices {
		s.MaxChoices = o.MaxChoices
	}
	if s.Distinct == nil {
		s.Distinct = map[uint64]bool{}
	}
	for h := range o.Distinct {
		s.Distinct[h] = true
	}
	if !o.Exhaustive {
		s.Exhaustive = false
		if s.CapHit == "" {
			s.CapHit = o.CapHit
		}
	}
}

// Check inspects one finished execution; a non-empty string is a violation.
type Check func(x *Exec) string

// Violation found by Explore.
type Violation struct {
	Msg     string
	Picks   []int
	Choices []Choice
}

func cost(cs []Choice, delay bool) (p, d int) {
	for _, c := range cs {
		switch c.Kind {
		case CSched:
			if (c.CurEnabled || delay) && c.Picked != 0 {
				p++
			}
		case CEnv:
			if c.Picked != 0 {
				d++
			}
		}
	}
	return
}

// Explore runs body for every choice sequence within the bounds (depth-first,
// stateless) and applies check to each execution. It stops at the first
// violation that reproduces on re-execution of its own schedule.
func Explore(body func(), check Check, b Bounds) (*Stats, *Violation) {
	return ExploreFrom(nil, body, check, b)
}

// ExploreFrom explores the subtree below a given prefix.
func ExploreFrom(root []int, body func(), check Check, b Bounds) (*Stats, *Violation) {
	st := &Stats{Distinct: map[uint64]bool{}, Exhaustive: true}
	stack := [][]int{append([]int(nil), root...)}
	opt := Options{Horizon: b.Horizon, Keys: b.Prune}
	type budget struct{ p, d int }
	const maxVisited = 3000000 // bounds the memory of the pruning table (roughly 300 MB)
	visited := map[[2]uint64][]budget{}
	for len(stack) > 0 {
		if b.MaxExecs > 0 && st.Execs >= int64(b.MaxExecs) {
			st.Exhaustive = false
			st.CapHit = fmt.Sprintf("max executions %d", b.MaxExecs)
			break
		}
		if !b.Deadline.IsZero() && st.Execs%64 == 0 && time.Now().After(b.Deadline) {
			st.Exhaustive = false
			st.CapHit = "internal deadline"
			break
		}
		p := stack[len(stack)-1]
		stack = stack[:len(stack)-1]
		x := Run(p, body, opt)
		st.Execs++
		st.Steps += int64(x.Steps)
		st.Transitions += int64(x.WinSteps)
		if len(x.Choices) > st.MaxChoices {
			st.MaxChoices = len(x.Choices)
		}
		if x.Diverged != "" {
			st.Divergences++
			st.Exhaustive = false
			st.CapHit = "divergence: " + x.Diverged
			continue
		}
		if x.HitHorizon {
			st.HorizonHits++
			if !b.Livelock {
				st.Exhaustive = false
				st.CapHit = "step horizon"
				continue
			}
		}
		st.Distinct[x.Hash()] = true
		if msg := check(x); msg != "" {
			// believe it only if it reproduces under its own schedule
			picks := x.Picks()
			y := Run(picks, body, opt)
			if y.Diverged == "" && (!y.HitHorizon || b.Livelock) {
				if msg2 := check(y); msg2 != "" {
					return st, &Violation{Msg: msg, Picks: picks, Choices: x.Choices}
				}
			}
			st.Divergences++
			st.Exhaustive = false
			st.CapHit = "violation did not reproduce: " + msg
			continue
		}
		// children: alternatives at positions >= len(p)
		cp, cd := cost(x.Choices[:min(len(p), len(x.Choices))], b.Delay)
		for i := len(p); i < len(x.Choices); i++ {
			c := x.Choices[i]
			if b.Prune && i < len(x.Keys) {
				rem := budget{b.P - cp, b.D - cd}
				dominated := false
				for _, v := range visited[x.Keys[i]] {
					if v.p >= rem.p && v.d >= rem.d {
						dominated = true
						break
					}
				}
				if dominated {
					// this state was expanded before with at least this much budget left:
					// everything reachable from here has been (or will be) explored from there
					st.Pruned += int64(len(x.Choices) - i)
					break
				}
				if len(visited) < maxVisited {
					// (a full table only means less pruning from here on)
					visited[x.Keys[i]] = append(visited[x.Keys[i]], rem)
				}
			}
			st.Nodes++
			np, nd := cp, cd
			switch c.Kind {
			case CSched:
				if c.CurEnabled || b.Delay {
					np++
				}
			case CEnv:
				nd++
			}
			if np <= b.P && nd <= b.D {
				for alt := c.N - 1; alt >= 1; alt-- {
					q := make([]int, i+1)
					for j := 0; j < i; j++ {
						q[j] = x.Choices[j].Picked
					}
					q[i] = alt
					stack = append(stack, q)
				}
			}
			// the default continuation (Picked==0 here, since i >= len(p)) costs nothing
		}
	}
	return st, nil
}

// SelfTest checks the determinism contract for a harness body: the empty
// prefix twice, and one non-trivial prefix twice, must give identical traces.
func SelfTest(body func(), horizon int) error {
	opt := Options{Horizon: horizon, Trace: true}
	a := Run(nil, body, opt)
	b := Run(nil, body, opt)
	if err := sameTrace(a, b); err != nil {
		return fmt.Errorf("default schedule not deterministic: %v", err)
	}
	// a non-trivial prefix: take the last alternative at the middle choice
	if len(a.Choices) > 0 {
		i := len(a.Choices) / 2
		p := a.Picks()[:i+1]
		p[i] = a.Choices[i].N - 1
		c := Run(p, body, opt)
		d := Run(p, body, opt)
		if c.Diverged != "" {
			return fmt.Errorf("replay of prefix diverged: %s", c.Diverged)
		}
		if err := sameTrace(c, d); err != nil {
			return fmt.Errorf("prefix schedule not deterministic: %v", err)
		}
	}
	return nil
}

func sameTrace(a, b *Exec) error {
	if len(a.Trace) != len(b.Trace) {
		return fmt.Errorf("trace lengths %d vs %d", len(a.Trace), len(b.Trace))
	}
	for i := range a.Trace {
		if a.Trace[i].G != b.Trace[i].G || a.Trace[i].Kind != b.Trace[i].Kind || a.Trace[i].Obj != b.Trace[i].Obj {
			return fmt.Errorf("event %d: %v vs %v", i, a.Trace[i], b.Trace[i])
		}
	}
	if len(a.Choices) != len(b.Choices) {
		return fmt.Errorf("choice counts %d vs %d", len(a.Choices), len(b.Choices))
	}
	for i := range a.Choices {
		if a.Choices[i] != b.Choices[i] {
			return fmt.Errorf("choice %d: %+v vs %+v", i, a.Choices[i], b.Choices[i])
		}
	}
	return nil
}
