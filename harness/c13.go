package main

import (
	"bytes"
	"fmt"
	"sort"
	"strings"

	"github.com/rminnich/go9p/vs"
	"harness/wire"
)

// C13: behaviour depends on the byte stream, not on how it is segmented.
// Server side: one fixed stream of independent requests is delivered under
// every single split point, pairs of split points around buffer boundaries,
// fixed chunk sizes and byte-at-a-time; per tag the reply bytes and the
// implementation's view (arguments, payload hash at use time) must equal the
// unsegmented run's.

type c13Session struct {
	msize  uint32
	dotu   bool
	nreq   int
	gateEvery int
	shift  int // payload length of a leading Twrite: moves every later frame boundary relative to the receive buffer
	odd    int // >0: after every odd-th request a well-formed frame that is not a request (an R-message, small or as large as msize allows)
}

type c13Out struct {
	replies map[uint16]string // tag -> hex of the reply frame
	impl    map[uint16]string // tag -> implementation entries
	err     string
}

// run executes the session with reads cut at the given stream offsets (relative
// to the start of the explored stream); chunk>0 instead cuts every chunk bytes.
func (ss c13Session) run(cuts []int, chunk int) (*c13Out, []byte) {
	var out *c13Out
	var stream []byte
	body := func() {
		out = &c13Out{replies: map[uint16]string{}, impl: map[uint16]string{}}
		s := newSess(SrvOpt{Msize: ss.msize, Dotu: ss.dotu, Maxpend: 0})
		maxData := int(ss.msize) - 24
		// independent fids, prepared synchronously
		type rq struct{ m *wire.Msg }
		var msgs []*wire.Msg
		var gates []*vs.Sem
		if ss.shift >= 0 {
			s.rpcOK(twalk(s.tag(), 0, 9, "g"), wire.Rwalk)
			s.rpcOK(&wire.Msg{Type: wire.Topen, Tag: s.tag(), Fid: 9, Mode: 1}, wire.Ropen)
			d := make([]byte, ss.shift)
			for j := range d {
				d[j] = byte(j + 1)
			}
			msgs = append(msgs, &wire.Msg{Type: wire.Twrite, Tag: 99, Fid: 9, Data: d})
		}
		for i := 0; i < ss.nreq; i++ {
			tag := uint16(100 + i)
			fid := uint32(10 + i)
			var m *wire.Msg
			switch i % 5 {
			case 0, 3:
				s.rpcOK(twalk(s.tag(), 0, fid, "g"), wire.Rwalk)
				s.rpcOK(&wire.Msg{Type: wire.Topen, Tag: s.tag(), Fid: fid, Mode: 1}, wire.Ropen)
				n := maxData
				if i%5 == 3 {
					n = 1 + i%7
				}
				d := make([]byte, n)
				for j := range d {
					d[j] = byte(i*17 + j*3 + 1)
				}
				m = &wire.Msg{Type: wire.Twrite, Tag: tag, Fid: fid, Offset: uint64(i), Data: d}
				if ss.gateEvery > 0 && i%ss.gateEvery == 0 {
					g := vs.NewSem(0)
					gates = append(gates, g)
					s.fs.Script[reqKey{0, tag, 0}] = &Action{Gate: g}
				}
			case 1:
				s.rpcOK(twalk(s.tag(), 0, fid), wire.Rwalk)
				m = &wire.Msg{Type: wire.Tstat, Tag: tag, Fid: fid}
			case 2:
				s.rpcOK(twalk(s.tag(), 0, fid), wire.Rwalk)
				m = twalk(tag, fid, fid+1000, "d", "h")
			case 4:
				s.rpcOK(twalk(s.tag(), 0, fid, "f"), wire.Rwalk)
				s.rpcOK(&wire.Msg{Type: wire.Topen, Tag: s.tag(), Fid: fid, Mode: 0}, wire.Ropen)
				m = &wire.Msg{Type: wire.Tread, Tag: tag, Fid: fid, Offset: uint64(i * 3), Count: uint32(1 + i%16)}
			}
			msgs = append(msgs, m)
			if ss.odd > 0 && i%ss.odd == ss.odd-1 {
				// the server answers such a frame with an error under its tag and goes on
				switch (i / ss.odd) % 3 {
				case 0:
					d := make([]byte, int(ss.msize)-11)
					for j := range d {
						d[j] = byte(j*5 + i)
					}
					msgs = append(msgs, &wire.Msg{Type: wire.Rread, Tag: uint16(600 + i), Data: d})
				case 1:
					msgs = append(msgs, &wire.Msg{Type: wire.Rflush, Tag: uint16(600 + i)})
				case 2:
					msgs = append(msgs, &wire.Msg{Type: wire.Rwalk, Tag: uint16(600 + i), Wqid: []wire.Qid{{Type: 1, Vers: 2, Path: 3}, {Type: 4, Vers: 5, Path: 6}}})
				}
			}
		}
		stream = nil
		for _, m := range msgs {
			stream = append(stream, wire.Encode(m, ss.dotu)...)
		}
		setupN := len(s.c.Collect())
		base := s.c.SrvEnd.ReadOffset()
		ci := 0
		s.c.SrvEnd.Seg = func(avail, want int) int {
			off := s.c.SrvEnd.ReadOffset() - base
			if chunk > 0 {
				return chunk - off%chunk
			}
			for ci < len(cuts) && cuts[ci] <= off {
				ci++
			}
			if ci < len(cuts) {
				return cuts[ci] - off
			}
			return avail
		}
		s.c.SendRaw(stream)
		vs.Idle()
		for _, g := range gates {
			g.Release()
		}
		vs.Idle()
		s.c.SrvEnd.Seg = nil
		for _, f := range s.c.Collect()[setupN:] {
			if f.Msg == nil {
				out.err = "unparseable reply frame: " + f.Err
				return
			}
			if _, dup := out.replies[f.Msg.Tag]; dup {
				out.err = fmt.Sprintf("two replies for tag %d", f.Msg.Tag)
				return
			}
			raw := append([]byte{}, f.Raw...)
			out.replies[f.Msg.Tag] = fmt.Sprintf("%x", raw)
		}
		if len(s.c.Junk) > 0 {
			out.err = "reply stream ends in a partial frame"
		}
		for _, e := range s.fs.Log {
			if e.Conn == 0 && e.Tag >= 99 && (e.Kind == "call" || e.Kind == "data" || e.Kind == "resp") {
				out.impl[e.Tag] += fmt.Sprintf("%s %s fid=%d %s %s;", e.Kind, e.Op, e.Fid, e.Args, e.Reply)
			}
		}
		if s.c.SrvEnd.ReadOffset()-base != len(stream) {
			out.err = fmt.Sprintf("server consumed %d of %d stream bytes", s.c.SrvEnd.ReadOffset()-base, len(stream))
		}
	}
	x := vs.Run(nil, body, vs.Options{})
	if len(x.Panics) > 0 {
		out.err = "panic: " + x.Panics[0].Value + " at " + x.Panics[0].Frame
	}
	if len(x.Fails) > 0 {
		out.err = "harness: " + x.Fails[0]
	}
	return out, stream
}

func c13Diff(ref, got *c13Out) string {
	if got.err != "" {
		return got.err
	}
	var tags []int
	for t := range ref.replies {
		tags = append(tags, int(t))
	}
	sort.Ints(tags)
	for _, t := range tags {
		if got.replies[uint16(t)] != ref.replies[uint16(t)] {
			return fmt.Sprintf("reply for tag %d differs: %s vs unsegmented %s", t, got.replies[uint16(t)], ref.replies[uint16(t)])
		}
		if got.impl[uint16(t)] != ref.impl[uint16(t)] {
			return fmt.Sprintf("implementation saw tag %d differently: %q vs unsegmented %q", t, got.impl[uint16(t)], ref.impl[uint16(t)])
		}
	}
	if len(got.replies) != len(ref.replies) {
		return fmt.Sprintf("%d replies vs %d in the unsegmented run", len(got.replies), len(ref.replies))
	}
	return ""
}

// c13VersionStream: the stream of a client that does not wait for Rversion - a
// Tversion (which may switch the connection's dialect and msize) followed by
// independent attaches already encoded in the dialect asked for - under every
// segmentation; the byte-at-a-time run is the reference.
func c13VersionStream(srvDotu bool, ver string, srvMsize, cliMsize uint32) Scenario {
	return c13VersionStreamX(srvDotu, ver, srvMsize, cliMsize, false)
}

// c13Tail: further requests behind the attaches of the version-in-stream scenarios (more
// than 8 x the msize being negotiated, when set)
var c13Tail int

func c13VersionStreamLong(srvDotu bool, ver string, srvMsize, cliMsize uint32, tail int) Scenario {
	sc := c13VersionStreamX(srvDotu, ver, srvMsize, cliMsize, false)
	sc.Name += fmt.Sprintf(" followed-by-%d-more-requests", tail)
	run := sc.Run
	sc.Run = func(c *RunCtx) *Result {
		c13Tail = tail
		defer func() { c13Tail = 0 }()
		return run(c)
	}
	return sc
}

// oversize: the Tversion is followed by one frame larger than the msize it negotiates
// (and no larger than the server's own): the connection is dropped without executing
// it, wherever the stream is cut.
func c13VersionStreamX(srvDotu bool, ver string, srvMsize, cliMsize uint32, oversize bool) Scenario {
	name := fmt.Sprintf("version-in-stream server-dotu=%v asks=%s msize=%d/%d oversize-next=%v", srvDotu, ver, srvMsize, cliMsize, oversize)
	return Scenario{Name: name, Run: func(c *RunCtx) *Result {
		res := &Result{Exhaustive: true, Bounds: map[string]any{"D": 1}}
		dotu := srvDotu && ver == "9P2000.u"
		var stream []byte
		stream = append(stream, wire.Encode(&wire.Msg{Type: wire.Tversion, Tag: wire.NOTAG, Msize: cliMsize, Version: ver}, false)...)
		names := []string{"glenda", "bob", "glenda"}
		ids := []uint32{7, 8, 7}
		for i := 0; i < 3 && !oversize; i++ {
			stream = append(stream, wire.Encode(tattach(uint16(10+i), uint32(i), wire.NOFID, names[i], ids[i], dotu), dotu)...)
		}
		if oversize {
			stream = append(stream, wire.Encode(&wire.Msg{Type: wire.Twrite, Tag: 9, Fid: 5, Data: make([]byte, cliMsize)}, dotu)...)
		}
		for i := 0; i < c13Tail; i++ {
			stream = append(stream, wire.Encode(&wire.Msg{Type: wire.Tstat, Tag: uint16(100 + i), Fid: uint32(i % 3)}, dotu)...)
		}
		// a fourth attach the implementation refuses with a text longer than a small client msize: the
		// Rerror has to fit the msize just negotiated, however the stream was cut
		stream = append(stream, wire.Encode(tattach(13, 3, wire.NOFID, names[0], ids[0], dotu), dotu)...)
		run := func(cuts []int, chunk int) string {
			var got string
			body := func() {
				fs := NewFS()
				fs.Script[reqKey{0, 13, 0}] = &Action{Err: "E" + strings.Repeat("e", 600)}
				h := NewSrvH(fs, SrvOpt{Msize: srvMsize, Dotu: srvDotu})
				cl := h.Connect()
				cl.Dotu = dotu
				ci := 0
				cl.SrvEnd.Seg = func(avail, want int) int {
					off := cl.SrvEnd.ReadOffset()
					if chunk > 0 {
						return chunk - off%chunk
					}
					for ci < len(cuts) && cuts[ci] <= off {
						ci++
					}
					if ci < len(cuts) {
						return cuts[ci] - off
					}
					return avail
				}
				cl.SendRaw(stream)
				vs.Idle()
				byTag := map[uint16]string{}
				var tags []int
				for _, f := range cl.Collect() {
					if f.Msg == nil {
						byTag[0xfffe] += "unparseable:" + f.Err + ";"
						continue
					}
					if _, ok := byTag[f.Msg.Tag]; !ok {
						tags = append(tags, int(f.Msg.Tag))
					}
					byTag[f.Msg.Tag] += fmt.Sprintf("%x;", f.Raw)
				}
				sort.Ints(tags)
				for _, t := range tags {
					got += fmt.Sprintf("%d=%s ", t, byTag[uint16(t)])
				}
				got += fmt.Sprintf("closed=%v calls=", cl.End.PeerClosed())
				var calls []string
				for _, e := range fs.Log {
					if e.Kind == "call" {
						calls = append(calls, fmt.Sprintf("%s/%d/%s/%s", e.Op, e.Tag, e.User, e.Args))
					}
				}
				sort.Strings(calls)
				got += strings.Join(calls, ",")
			}
			x := vs.Run(nil, body, vs.Options{})
			if len(x.Panics) > 0 {
				return "panic: " + x.Panics[0].Value
			}
			return got
		}
		ref := run(nil, 1)
		res.Evals++
		if oversize {
			if !strings.Contains(ref, "closed=true") || strings.Contains(ref, " 9=") {
				res.Findings = append(res.Findings, Finding{Sig: "C13/version-stream/oversize-frame-after-version-not-refused", Msg: name + ": " + ref})
				return res
			}
		} else if !strings.Contains(ref, "closed=false") || strings.Count(ref, "Attach/") != 4 {
			res.Findings = append(res.Findings, Finding{Sig: "C13/version-stream/byte-at-a-time-run-failed", Msg: name + ": " + ref})
			return res
		}
		seen := map[string]bool{}
		try := func(cuts []int, chunk int, what string) {
			got := run(cuts, chunk)
			res.Evals++
			res.Nontrivial++
			res.States++
			res.Traces++
			res.Transitions += int64(len(cuts) + 1)
			if got != ref {
				sig := "C13/version-stream/differs-from-byte-at-a-time"
				if !seen[sig] {
					seen[sig] = true
					res.Findings = append(res.Findings, Finding{Sig: sig, Msg: fmt.Sprintf("%s, %s:\n  got  %s\n  want %s", name, what, got, ref)})
				}
			}
		}
		try(nil, 0, "the whole stream in one read")
		for k := 1; k < len(stream); k++ {
			if len(stream) > 600 && k > 150 && k%97 != 0 {
				continue // long streams: every split near the Tversion, then a sample
			}
			try([]int{k}, 0, fmt.Sprintf("split at %d", k))
		}
		for _, ch := range []int{2, 3, 5, 7, 19, 20, 21, 40} {
			try(nil, ch, fmt.Sprintf("chunks of %d", ch))
		}
		res.Samples = append(res.Samples, fmt.Sprintf("stream of %d bytes: Tversion + 3 independent Tattach; one read, every single split, 8 chunk sizes, against byte-at-a-time", len(stream)))
		return res
	}}
}

func c13ServerScenario(ss c13Session, mode string, lo, hi int) Scenario {
	name := fmt.Sprintf("server msize=%d dotu=%v nreq=%d gated=%d %s[%d:%d]", ss.msize, ss.dotu, ss.nreq, ss.gateEvery, mode, lo, hi)
	if ss.odd > 0 {
		name += fmt.Sprintf(" non-request-frames-every=%d", ss.odd)
	}
	return Scenario{Name: name, Run: func(c *RunCtx) *Result {
		res := &Result{Exhaustive: true, Bounds: map[string]any{}}
		if mode == "align" {
			// every alignment of frame boundaries against the end of the receive buffer:
			// bulk deliveries compared with the byte-at-a-time run
			for sh := lo; sh < hi; sh++ {
				if c.Expired() {
					res.Exhaustive = false
					res.CapHit = "internal deadline"
					break
				}
				st := ss
				st.shift = sh
				ref, stream := st.run(nil, 1)
				res.Evals++
				if ref.err != "" || len(ref.replies) != st.nreq+1 {
					res.Findings = append(res.Findings, Finding{Sig: "C13/server/byte-at-a-time-run-failed", Msg: fmt.Sprintf("shift %d: %s (%d replies for %d requests)", sh, ref.err, len(ref.replies), st.nreq+1)})
					break
				}
				m := 8 * int(st.msize)
				for _, ch := range []int{0, m, m - 1, m + 1, 2 * m, int(st.msize)} {
					got, _ := st.run(nil, ch)
					res.Evals++
					res.Nontrivial++
					res.Traces++
					res.States++
					res.Transitions += int64(len(stream)/(ch+1) + 1)
					if d := c13Diff(ref, got); d != "" {
						sig := "C13/server/bulk-delivery/" + sigWords(d)
						if len(res.Findings) == 0 {
							res.Findings = append(res.Findings, Finding{Sig: sig, Msg: fmt.Sprintf("leading payload %d, delivery in chunks of %d (0 = all at once): %s (stream of %d bytes, msize %d)", sh, ch, d, len(stream), st.msize), Detail: map[string]any{"shift": sh, "chunk": ch}})
						}
					}
				}
			}
			res.Samples = append(res.Samples, map[string]any{"mode": "align", "shifts": []int{lo, hi}})
			res.Bounds["D"] = 0
			return res
		}
		ref, stream := ss.run(nil, 0)
		want := ss.nreq
		if ss.shift >= 0 {
			want++
		}
		if ss.odd > 0 {
			want += ss.nreq / ss.odd
		}
		if ref.err != "" || len(ref.replies) != want {
			res.Findings = append(res.Findings, Finding{Sig: "C13/reference-run-failed", Msg: fmt.Sprintf("unsegmented run: %s (%d replies for %d requests)", ref.err, len(ref.replies), want)})
			return res
		}
		N := len(stream)
		seen := map[string]bool{}
		try := func(cuts []int, chunk int, what string) {
			if c.Expired() {
				res.Exhaustive = false
				res.CapHit = "internal deadline"
				return
			}
			got, _ := ss.run(cuts, chunk)
			res.Evals++
			res.Nontrivial++
			res.Traces++
			res.States++
			res.Transitions += int64(len(cuts) + 1)
			if d := c13Diff(ref, got); d != "" {
				sig := "C13/server/" + sigWords(d)
				if !seen[sig] {
					seen[sig] = true
					res.Findings = append(res.Findings, Finding{Sig: sig, Msg: fmt.Sprintf("%s: %s (stream of %d bytes, msize %d)", what, d, N, ss.msize), Detail: map[string]any{"cuts": cuts, "chunk": chunk}})
				}
			}
		}
		switch mode {
		case "single":
			if hi > N {
				hi = N
			}
			for k := lo; k < hi; k++ {
				if k >= 1 {
					try([]int{k}, 0, fmt.Sprintf("split at %d", k))
				}
			}
		case "chunks":
			m := int(ss.msize)
			for _, ch := range []int{1, 2, 3, 4, 5, 7, 8, 11, 13, m - 1, m, m + 1, 8*m - 1, 8 * m, 8*m + 1, 4*m + 3} {
				try(nil, ch, fmt.Sprintf("chunks of %d", ch))
			}
		case "frame-ends":
			// large messages: a read ending shortly before / after the end of every frame,
			// and bulk deliveries around 64 KiB
			off := 0
			for off+4 <= N {
				sz := int(uint32(stream[off]) | uint32(stream[off+1])<<8 | uint32(stream[off+2])<<16 | uint32(stream[off+3])<<24)
				if sz < 7 {
					break
				}
				for a := off + sz - 30; a <= off+sz+8; a++ {
					if a >= 1 && a < N {
						try([]int{a}, 0, fmt.Sprintf("split at %d (%d bytes before the end of a %d-byte frame)", a, off+sz-a, sz))
					}
				}
				off += sz
			}
			for _, ch := range []int{1000, 4096, 65535, 65536, 65537, int(ss.msize) - 1, int(ss.msize), 100000} {
				try(nil, ch, fmt.Sprintf("chunks of %d", ch))
			}
		case "pairs":
			// pairs of split points around every multiple of the receive buffer size
			m := 8 * int(ss.msize)
			for b := m; b < N+m; b += m {
				for a := b - 6; a <= b+6; a++ {
					for d := 1; d <= 9; d++ {
						if a >= 1 && a+d < N {
							try([]int{a, a + d}, 0, fmt.Sprintf("splits at %d,%d", a, a+d))
						}
					}
				}
			}
			// and around every frame boundary of the first frames
			off := 0
			for i := 0; i < 6 && off < N; i++ {
				sz := int(uint32(stream[off]) | uint32(stream[off+1])<<8)
				for a := off + sz - 3; a <= off+sz+5; a++ {
					for d := 1; d <= 5; d++ {
						if a >= 1 && a+d < N {
							try([]int{a, a + d}, 0, fmt.Sprintf("splits at %d,%d", a, a+d))
						}
					}
				}
				off += sz
			}
		}
		res.Samples = append(res.Samples, map[string]any{"stream_bytes": N, "mode": mode, "requests": ss.nreq})
		res.Bounds["D"] = map[string]int{"single": 1, "pairs": 2, "chunks": 0, "frame-ends": 1}[mode]
		return res
	}}
}

// c13HeldPayload: a Twrite is held inside the implementation (and, in the cancelled
// variant, flushed and cancelled by the implementation's FlushOp, so that the framework
// no longer counts it as outstanding) while the stream goes on for more than the whole
// receive buffer: small requests, a Tversion in mid-session at every position - alone in
// its transport write or together with the request behind it - and then larger
// requests. When the implementation finally looks at the payload it is what the client
// sent.
func c13HeldPayload(msize uint32, cancelled, dotu bool) Scenario {
	name := fmt.Sprintf("held-payload msize=%d cancelled=%v dotu=%v: Tversion at every position of %d bytes of later traffic", msize, cancelled, dotu, 9*msize)
	return Scenario{Name: name, Run: func(rc *RunCtx) *Result {
		res := &Result{Exhaustive: true}
		K := int(8*msize)/11 + 4
		seen := map[string]bool{}
		for j := -1; j <= K; j++ {
			for _, alone := range []bool{true, false} {
				if j < 0 && !alone {
					continue
				}
				if rc.Expired() {
					res.Exhaustive = false
					res.CapHit = "internal deadline"
					return res
				}
				var fail string
				body := func() {
					s := newSess(SrvOpt{Msize: msize, Dotu: dotu, Flush: true})
					if cancelled {
						s.fs.FlushMode = "cancel"
						s.fs.NoLateAnswer = true
					}
					L := int(msize) - 24
					s.rpcOK(twalk(s.tag(), 0, 1, "g"), wire.Rwalk)
					s.rpcOK(&wire.Msg{Type: wire.Topen, Tag: s.tag(), Fid: 1, Mode: 1}, wire.Ropen)
					s.rpcOK(twalk(s.tag(), 0, 2, "g"), wire.Rwalk)
					s.rpcOK(&wire.Msg{Type: wire.Topen, Tag: s.tag(), Fid: 2, Mode: 1}, wire.Ropen)
					data := make([]byte, L)
					for i := range data {
						data[i] = byte(0x80 | i)
					}
					g := vs.NewSem(0)
					s.fs.Script[reqKey{0, 50, 0}] = &Action{Gate: g}
					s.c.Send(dotu, &wire.Msg{Type: wire.Twrite, Tag: 50, Fid: 1, Offset: 7, Data: data})
					vs.Idle()
					if cancelled {
						s.c.Send(dotu, &wire.Msg{Type: wire.Tflush, Tag: 51, Oldtag: 50})
						vs.Idle()
					}
					ver := "9P2000"
					if dotu {
						ver = "9P2000.u"
					}
					tv := wire.Encode(&wire.Msg{Type: wire.Tversion, Tag: wire.NOTAG, Msize: msize, Version: ver}, false)
					for i := 0; i <= K; i++ {
						m := wire.Encode(&wire.Msg{Type: wire.Tstat, Tag: uint16(100 + i), Fid: 0}, dotu)
						switch {
						case i == j && alone:
							s.c.SendRaw(tv)
							vs.Idle()
							s.c.SendRaw(m)
						case i == j:
							s.c.SendRaw(append(append([]byte{}, tv...), m...))
						default:
							s.c.SendRaw(m)
						}
						vs.Idle()
					}
					for i := 0; i < 12; i++ {
						s.c.Send(dotu, &wire.Msg{Type: wire.Twrite, Tag: uint16(1000 + i), Fid: 2, Offset: uint64(i), Data: bytes.Repeat([]byte{'Z'}, L-i%3)})
						vs.Idle()
					}
					g.Release()
					vs.Idle()
					dataHash := ""
					for _, e := range s.fs.Log {
						if e.Conn == 0 && e.Tag == 50 && e.Kind == "data" {
							dataHash = e.Args
						}
					}
					if dataHash != hashBytes(data) {
						fail = fmt.Sprintf("the payload of the held Twrite was %s when the implementation looked at it, the client sent %s", dataHash, hashBytes(data))
					}
				}
				x := vs.Run(nil, body, vs.Options{})
				res.Evals++
				res.Nontrivial++
				res.States++
				res.Traces++
				res.Transitions += int64(K + 14)
				if len(x.Panics) > 0 {
					fail = "panic: " + x.Panics[0].Value
				} else if len(x.Fails) > 0 && fail == "" {
					fail = "harness: " + x.Fails[0]
				}
				if fail != "" {
					sig := "C13/held-payload/" + sigWords(fail)
					if !seen[sig] {
						seen[sig] = true
						res.Findings = append(res.Findings, Finding{Sig: sig, Msg: fmt.Sprintf("%s; Tversion before follower %d (alone in its write: %v): %s", name, j, alone, fail)})
					}
				}
			}
		}
		return res
	}}
}

// c13HeldAcrossDisconnect: a Twrite is held inside the implementation when its
// connection goes away; other connections come and go, each sending more than a whole
// receive buffer. The implementation then looks at the payload: what the first client
// sent. (Several same-tag Twrites: the ones queued behind the held one are checked too.)
func c13HeldAcrossDisconnect(msize uint32, later int, dotu bool) Scenario {
	name := fmt.Sprintf("held-payload msize=%d across disconnect, %d later connections dotu=%v", msize, later, dotu)
	return Scenario{Name: name, Run: func(rc *RunCtx) *Result {
		res := &Result{Exhaustive: true}
		var fail string
		body := func() {
			s := newSess(SrvOpt{Msize: msize, Dotu: dotu})
			L := int(msize) - 24
			s.rpcOK(twalk(s.tag(), 0, 1, "g"), wire.Rwalk)
			s.rpcOK(&wire.Msg{Type: wire.Topen, Tag: s.tag(), Fid: 1, Mode: 1}, wire.Ropen)
			var datas [][]byte
			g := vs.NewSem(0)
			s.fs.Script[reqKey{0, 50, 0}] = &Action{Gate: g}
			var ms []*wire.Msg
			for k := 0; k < 3; k++ {
				d := make([]byte, L-k)
				for i := range d {
					d[i] = byte(0x80 | (i + k*17))
				}
				datas = append(datas, d)
				ms = append(ms, &wire.Msg{Type: wire.Twrite, Tag: 50, Fid: 1, Offset: uint64(k), Data: d})
			}
			s.c.Send(dotu, ms...)
			vs.Idle()
			s.c.End.Close()
			vs.Idle()
			ver := "9P2000"
			if dotu {
				ver = "9P2000.u"
			}
			for n := 0; n < later; n++ {
				c := s.h.Connect()
				c.Version(msize, ver)
				for i := 0; i < 12; i++ {
					c.Send(dotu, &wire.Msg{Type: wire.Twrite, Tag: uint16(100 + i), Fid: 99, Offset: 0, Data: bytes.Repeat([]byte{'X'}, L)})
					vs.Idle()
				}
				if n%2 == 0 {
					c.End.Close()
					vs.Idle()
				}
			}
			g.Release()
			vs.Idle()
			var hashes []string
			for _, e := range s.fs.Log {
				if e.Conn == 0 && e.Tag == 50 && e.Kind == "data" {
					hashes = append(hashes, e.Args)
				}
			}
			for k, h := range hashes {
				if h != hashBytes(datas[k]) {
					fail = fmt.Sprintf("Twrite number %d under the tag: the payload was %s when the implementation looked at it, the client sent %s (its connection had gone, %d later connections had sent %d bytes each)", k+1, h, hashBytes(datas[k]), later, 12*(L+23))
					return
				}
			}
			if len(hashes) == 0 {
				fail = "the held Twrite never got to look at its payload"
			}
		}
		x := vs.Run(nil, body, vs.Options{})
		res.Evals++
		res.Nontrivial++
		res.States++
		res.Traces++
		if len(x.Panics) > 0 {
			fail = "panic: " + x.Panics[0].Value
		} else if len(x.Fails) > 0 && fail == "" {
			fail = "harness: " + x.Fails[0]
		}
		if fail != "" {
			res.Findings = append(res.Findings, Finding{Sig: "C13/held-payload-across-disconnect/" + sigWords(fail), Msg: name + ": " + fail})
		}
		return res
	}}
}

func c13Scenarios(tier string) []Scenario {
	var out []Scenario
	sessions := []c13Session{{msize: 64, dotu: false, nreq: 40, gateEvery: 10, shift: -1}, {msize: 96, dotu: true, nreq: 30, gateEvery: 0, shift: 7}}
	if tier == "thorough" {
		sessions = append(sessions, c13Session{msize: 256, dotu: false, nreq: 60, gateEvery: 5, shift: -1}, c13Session{msize: 4096, dotu: true, nreq: 25, gateEvery: 5, shift: 100})
	}
	// frames that are well formed but not requests, spread over a stream that wraps the receive buffer
	oddS := c13Session{msize: 64, dotu: false, nreq: 45, gateEvery: 0, shift: -1, odd: 2}
	for lo := 0; lo < 2400; lo += 240 {
		out = append(out, c13ServerScenario(oddS, "single", lo, lo+240))
	}
	out = append(out, c13ServerScenario(oddS, "chunks", 0, 0))
	// messages larger than 64 KiB (msize 70000 and 1 MiB)
	out = append(out, c13ServerScenario(c13Session{msize: 70000, dotu: true, nreq: 6, gateEvery: 0, shift: -1}, "frame-ends", 0, 0))
	if tier == "thorough" {
		out = append(out, c13ServerScenario(c13Session{msize: 1<<20 + 24, dotu: false, nreq: 6, gateEvery: 5, shift: -1}, "frame-ends", 0, 0))
	}
	for _, ss := range sessions {
		step := 120
		limit := 2400
		if ss.msize >= 256 {
			limit = 70000
			step = 1500
		}
		for lo := 0; lo < limit; lo += step {
			out = append(out, c13ServerScenario(ss, "single", lo, lo+step))
		}
		out = append(out, c13ServerScenario(ss, "chunks", 0, 0), c13ServerScenario(ss, "pairs", 0, 0))
		if ss.msize <= 256 {
			for lo := 0; lo <= int(ss.msize)-24; lo += 8 {
				hi := lo + 8
				if hi > int(ss.msize)-24+1 {
					hi = int(ss.msize) - 24 + 1
				}
				out = append(out, c13ServerScenario(ss, "align", lo, hi))
			}
		}
	}
	for _, sd := range []bool{false, true} {
		for _, ver := range []string{"9P2000", "9P2000.u"} {
			out = append(out, c13VersionStream(sd, ver, 8216, 256), c13VersionStream(sd, ver, 128, 8216))
			out = append(out, c13VersionStreamX(sd, ver, 1024, 128, true))
			out = append(out, c13VersionStreamLong(sd, ver, 8216, 64, 80))
		}
	}
	out = append(out, c13HeldPayload(64, true, false), c13HeldPayload(64, false, true), c13HeldPayload(256, true, true))
	out = append(out, c13HeldAcrossDisconnect(64, 1, false), c13HeldAcrossDisconnect(64, 3, true), c13HeldAcrossDisconnect(256, 2, false))
	if tier == "thorough" {
		out = append(out, c13HeldPayload(256, false, false), c13HeldPayload(96, true, false), c13HeldPayload(1024, true, false))
	}
	out = append(out, c13ClientScenarios(tier)...)
	return out
}

func init() {
	register(&Property{ID: "C13", Level: "model_checking",
		Technique: "exhaustive enumeration of environment deviations (read segmentations) of the real receive loops under the controlled scheduler, differential against the unsegmented run",
		Rule:      "server: a fixed stream of independent requests (tiny and msize-sized Twrites, reads, stats, walks; some writes parked while later bytes arrive) at msize 64/96 (thorough also 256/4096), and messages above 64 KiB at msize 70000 (thorough also 1 MiB) cut around every frame end so that the 8*msize receive buffer is exhausted and reallocated; every single split point (D=1), pairs of split points around every buffer-size multiple and the first frame boundaries (D=2), 16 fixed chunk sizes incl. 1 byte; every alignment of the frame boundaries against the receive buffer end (leading payload 0..msize-24) under bulk deliveries compared with the byte-at-a-time run; a Tversion (switching dialect and msize) followed by three attaches already in the dialect asked for, one read / every split / 8 chunk sizes against byte-at-a-time; client: a fixed reply stream to a real Clnt under every single split and chunk sizes. states = segmentations explored; each is one execution of the real code ; a stream interleaved with well-formed frames that are not requests (R-messages, small and msize-sized) under every single split and chunk size",
		Assumptions: []string{"requests in the explored stream are mutually independent (distinct tags and fids), so per-tag comparison is not perturbed by legitimate reordering", "default schedule for each segmentation (schedule exploration of the receive path belongs to C03/C09)"},
		Scenarios:   c13Scenarios, QuickS: 100, ThoroughS: 1200})
}

// sigWords turns a message into a stable signature fragment (numbers and hex removed).
func sigWords(d string) string {
	var b strings.Builder
	n := 0
	for _, w := range strings.Fields(d) {
		if strings.IndexAny(w, "0123456789") >= 0 {
			continue
		}
		if n > 0 {
			b.WriteByte('-')
		}
		b.WriteString(strings.Trim(w, ":;,()"))
		n++
		if n == 6 {
			break
		}
	}
	return b.String()
}
